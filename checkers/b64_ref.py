#!/usr/bin/env python3
"""Cross-check a logged sample of library encodings with Python's base64 module."""
import sys, os, json, base64, hashlib
wdir = sys.argv[1]
n = 0; viol = []; sigs = set()
for f in sorted(os.listdir(wdir)):
    if not (f.startswith("b64_") and f.endswith(".jsonl")):
        continue
    for line in open(os.path.join(wdir, f)):
        try:
            e = json.loads(line)
        except Exception:
            continue
        x = bytes.fromhex(e["octets"]); t = e["text"]; c = e["codec"]
        if c == "base16":
            want = base64.b16encode(x).decode()
        elif c == "base32hex":
            want = base64.b32hexencode(x).decode().rstrip("=")
        else:
            want = base64.b64encode(x).decode()
        n += 1
        sigs.add(hashlib.sha1(f"{c}:{len(x)%5}:{len(x)%3}".encode()).hexdigest()[:16])
        if want != t and len(viol) < 5:
            viol.append({"sig": f"python-encode:{c}", "what": f"{c} encode({e['octets']}) = {t!r}, python gives {want!r}", "replay": e, "count": 1})
print(json.dumps({"evaluations": n, "sig_hashes": sorted(sigs), "counts": {"python_crosschecked": n}, "floors": {"python_crosschecked": 1}, "violations": viol, "samples": []}))
sys.exit(1 if viol else 0)
