#!/usr/bin/env python3
"""Recompute logged key tags (RFC 4034 appendix B) and DS digests (RFC 4034 5.1.4) with Python."""
import sys, os, json, hashlib
wdir = sys.argv[1]
H = {1: hashlib.sha1, 2: hashlib.sha256, 4: hashlib.sha384}
def key_tag(rd):
    if len(rd) > 3 and rd[3] == 1:
        return int.from_bytes(rd[-3:-1], "big") if len(rd) >= 7 else 0
    ac = 0
    for i, b in enumerate(rd):
        ac += b if i & 1 else b << 8
    ac += (ac >> 16) & 0xFFFF
    return ac & 0xFFFF
n = 0; viol = []; sigs = set()
for f in sorted(os.listdir(wdir)):
    if not (f.startswith("dnssec_") and f.endswith(".jsonl")):
        continue
    for line in open(os.path.join(wdir, f)):
        try:
            e = json.loads(line)
        except Exception:
            continue
        rd = bytes.fromhex(e["dnskey_rdata"])
        n += 1
        if key_tag(rd) != e["key_tag"] and len(viol) < 5:
            viol.append({"sig": "python-key-tag", "what": f"key tag {e['key_tag']} for DNSKEY RDATA {e['dnskey_rdata'][:80]}..., python gives {key_tag(rd)}", "replay": e, "count": 1})
        sigs.add(hashlib.sha1(f"kt:{rd[3] if len(rd)>3 else 0}:{len(rd)%4}".encode()).hexdigest()[:16])
        if "digest" in e:
            owner = bytes.fromhex(e["owner"]).lower()
            want = H[e["digest_type"]](owner + rd).hexdigest()
            sigs.add(hashlib.sha1(f"ds:{e['digest_type']}:{rd[3]}".encode()).hexdigest()[:16])
            if want != e["digest"] and len(viol) < 5:
                viol.append({"sig": "python-ds-digest", "what": f"DS digest type {e['digest_type']} = {e['digest']}, hashlib gives {want}", "replay": e, "count": 1})
print(json.dumps({"evaluations": n, "sig_hashes": sorted(sigs), "counts": {"python_dnssec_recomputed": n}, "floors": {"python_dnssec_recomputed": 1}, "violations": viol, "samples": []}))
sys.exit(1 if viol else 0)
