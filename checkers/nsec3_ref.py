#!/usr/bin/env python3
"""Cross-check the harness' NSEC3 owner hashes (which the generated chain was required to
equal) against RFC 5155 IH() computed with Python's hashlib."""
import sys, os, json, hashlib
wdir = sys.argv[1]
n = 0; viol = []; sigs = set()
for f in sorted(os.listdir(wdir)):
    if not (f.startswith("nsec3_") and f.endswith(".jsonl")):
        continue
    for line in open(os.path.join(wdir, f)):
        try:
            e = json.loads(line)
        except Exception:
            continue
        name = bytes.fromhex(e["name"]); salt = bytes.fromhex(e["salt"]); it = e["iterations"]
        h = hashlib.sha1(name + salt).digest()
        for _ in range(it):
            h = hashlib.sha1(h + salt).digest()
        n += 1
        sigs.add(hashlib.sha1(f"{min(len(salt),3)}:{min(it,6)}:{len(name)%7}".encode()).hexdigest()[:16])
        if h.hex() != e["hash"] and len(viol) < 5:
            viol.append({"sig": "python-nsec3-hash", "what": f"IH({e['salt']}, {e['name']}, {it}) = {e['hash']} in the chain, hashlib gives {h.hex()}", "replay": e, "count": 1})
print(json.dumps({"evaluations": n, "sig_hashes": sorted(sigs), "counts": {"nsec3_hashes_crosschecked": n}, "floors": {"nsec3_hashes_crosschecked": 1}, "violations": viol, "samples": []}))
sys.exit(1 if viol else 0)
