"""Per-property stage configuration for ./check (see DESIGN.md section 3)."""

NATIVE = {"mode": "native"}

PROPS = {
    "C17": {
        "level": "exploration",
        "technique": 'runtime monitoring: RFC 1982 serial arithmetic compared with a wide-integer model, exhaustive on blocks around the wrap points and random elsewhere, in debug and release builds',
        "features": ["crypto", "hooks"],
        "stages": [
            {"mode": "native", "tiers": ["quick"]},
            {"mode": "release", "tiers": ["thorough"]},
            {"mode": "native", "tiers": ["thorough"], "scale": 0.02},
        ],
        "rule": "an evaluation is one (base a, difference d) pair checked against the RFC 1982 predicate on the wrapped 32-bit difference "
                "(compare, antisymmetry, operators, add, shift-invariance with a seeded shift, Timestamp agreement); quick sweeps every "
                "difference in the blocks around 0, 2^31 and 2^32 and a stride-257 sample elsewhere from 8 bases, thorough sweeps all 2^32 "
                "differences from the 8 bases; plus the users of the arithmetic: zone diffs (accepted iff the end serial is RFC 1982-newer), signature "
                "times in date form on both sides of 2106-02-07 through Timestamp::from_str and through the zone-file scanner (an RRSIG line with "
                "date-form and integer-form times), and the validator's in-force decision for validity periods reaching almost 2^31 s back or ahead; "
                "distinct = (base, outcome, top 4 bits of the difference) classes observed",
        "assumptions": ["the reference predicate (signed view of the wrapped difference) is the RFC 1982 definition for SERIAL_BITS=32",
                        "Serial::add is only called with addends <= 2^31-1 (documented contract)"],
    },
    "C18": {
        "level": "exploration",
        "technique": 'runtime monitoring: Base16/32hex/64 encoders and decoders against independent RFC 4648 codecs, exhaustive over short inputs and texts of a reduced alphabet, mutation of valid texts; offline recomputation with Python base64; AddressSanitizer',
        "features": ["hooks"],
        "stages": [
            {"mode": "native"},
            {"mode": "asan", "scale": 0.1},
        ],
        "offline": ["b64_ref.py"],
        "rule": "an evaluation is one text decoded through decode(), Decoder, the scanner-side SymbolConverter and base::scan::IterScanner (convert_entry / convert_token) under 4 tokenisations, or one octet string "
                "encoded and decoded back, judged by in-harness RFC 4648 codecs (three-valued: well-formed / tolerated non-canonical / malformed); "
                "exhaustive over all octet strings of length 0..2 and all texts of length <= 5 (quick) or 6 (thorough) over a 7-symbol alphabet per codec; "
                "distinct = (codec, reference class, library verdicts, length mod 8, padding count, length) tuples",
        "assumptions": ["Base32 means the unpadded extended-hex variant (the only one the module implements); padded or lower-case Base32 and "
                        "non-zero trailing bits may be rejected or accepted-with-the-right-octets (RFC 4648 3.5)",
                        "a caller of Decoder::push stops at the first error"],
    },
    "C03": {
        "level": "exploration",
        "technique": 'runtime monitoring: every name constructor, builder and operation checked against a label-list model and an independent validator, exhaustive over builder states near the 255-octet limit; AddressSanitizer and Miri',
        "features": ["hooks"],
        "stages": [
            {"mode": "native"},
            {"mode": "asan", "scale": 0.1},
            {"mode": "miri", "scale": 0.002, "shards": 16, "tiers": ["thorough"]},
        ],
        "rule": "an evaluation is one builder state x operation (boundary enumeration: closed length 186..254 x open label 0..63 x op x argument length; "
                "quick takes every state within 12 octets of the limit and a stride elsewhere, thorough the whole space on Vec and BytesMut), one random "
                "builder sequence, one wire input through every from_octets/from_slice/parse constructor, one presentation text through every FromStr/"
                "from_chars, one octet string or text through the serde routes (Deserialize of Name / RelativeName / UncertainName / OwnedLabel over a compact "
                "format handing the visitor raw octets - owned, borrowed, transient - and over a human readable one; existing values serialized over both and "
                "read back), or one name through the conversion/chain/slice/strip/parent operations at its valid label boundaries; every produced value is "
                "checked by the independent validator; distinct = (op, state class, model verdict, library verdict) resp. (constructor verdict vector, length class)",
        "assumptions": ["limits: label 1..63, absolute name <= 255 with exactly one trailing root label, relative name <= 254 without root label (RFC 1035 2.3.4, 3.1)",
                        "slicing calls are only made at valid label boundaries (documented panics otherwise)",
                        "which error variant is returned is not checked, only Ok vs Err; rejecting an in-limit step is noted, not flagged"],
    },
    "C05": {
        "level": "exploration",
        "technique": 'runtime monitoring: per-type RDATA values from an RFC-derived layout table taken through parse/compose/rdlen/canonical/flatten and through the three compressors, compared with an independent table-driven codec; mutated and nested-hostile RDATA; SvcParamsBuilder push orders; AddressSanitizer and Miri',
        "features": ["hooks"],
        "stages": [
            {"mode": "native"},
            {"mode": "asan", "scale": 0.1},
            {"mode": "miri", "tiers": ["thorough"], "scale": 0.0004},
        ],
        "rule": "an evaluation is one RDATA value of one type (all 38 concrete types + OPT options + unknown types, generated field by field from an RFC-derived "
                "layout table with boundary sizes and a collision-prone name pool) taken through parse, rdlen, compose_rdata, compose_len_rdata, canonical "
                "compose, flatten, re-parse, compressed-names-on-input, a too-small fixed target, per-option re-compose and UnknownRecordData; or one mutated "
                "RDATA where acceptance must be idempotent and agree with the reference decoder; distinct = (type, size class, field count) resp. (type, library verdict, reference verdict)",
        "assumptions": ["the reference layout table (refimpl/wire.rs) transcribes the RDATA formats of RFC 1035, 1183, 2782, 3403, 3596, 4025, 4034, 4255, 5155, 6672, 6698, 6891, 7344, 7929, 8659, 8945, 8976, 9460",
                        "canonical form lower-cases the names listed in RFC 4034 6.2 except NSEC next name (RFC 6840 5.1); RRSIG signer is lower-cased",
                        "values are those reachable by parsing RFC-valid wire data; constructors (new/builder APIs) are not separately driven"],
    },
    "C04": {
        "level": "exploration",
        "technique": 'runtime monitoring: Eq/Ord/Hash coherence and canonical order of names and record data checked pairwise against reference comparators over collision-prone pools; AddressSanitizer',
        "features": ["hooks"],
        "stages": [
            {"mode": "native"},
            {"mode": "asan", "scale": 0.1},
        ],
        "rule": "an evaluation is one ordered pair (with all triples over its group) of names in 5 representations (flat Vec, Bytes, slice, hand-compressed inside a "
                "message, chain of parts), relative/uncertain names, labels, character strings, record data of every type (what the library composes as canonical form must be the reference's canonical form; value groups built from near-neighbours: "
                "case flips, +-1, label-boundary shifts) or whole records (TTL-only, owner-case-only, class, type, data variations), checked against the laws "
                "reflexive/symmetric/eq=>hash/eq<=>cmp Equal/antisymmetric/transitive/representation-independent, the reference RFC 4034 6.1 comparator, and octet "
                "order of reference-composed canonical RDATA; distinct = (kind, type, eq, cmp, canonical cmp, owner/type/ttl sameness) tuples observed",
        "assumptions": ["for records with different owners the canonical record order must follow the canonical name order (RFC 4034 6.3 only orders RRs inside an RRset)",
                        "equality of record data is only required to be coherent and insensitive to the ASCII case of embedded names; it need not coincide with canonical-form equality (NSEC next name)"],
    },
    "C02": {
        "level": "exploration",
        "technique": "runtime monitoring: random builder operation sequences on every target x compressor, a model of the successful pushes compared with what an independent reader and the library's reader reconstruct; failed-push identity, stream-prefix and size-boundary monitors; AddressSanitizer",
        "features": ["hooks"],
        "stages": [
            {"mode": "native"},
            {"mode": "asan", "scale": 0.1},
        ],
        "rule": "an evaluation is one random builder op sequence (pushes of questions/records of every type/OPT via the opt builder, forward and backward "
                "section changes, rewind, builder(), push limits, pushes that fail) on one of 15 target x compressor combinations (Vec, BytesMut, Array<512>, "
                "Array<2048>, StreamTarget, Static/Tree/Hash compressor over Vec, StreamTarget and Array), in size classes tiny / medium / around 0x3FFF / around "
                "0xFFFF; after every op counts = model and failed-push-is-identity; at checkpoints and at the end the octets are read by the independent "
                "walker and by the library and compared item by item with the model, all compression pointers must point backwards to a label start of an "
                "earlier name, and the stream prefix must equal the length; distinct = (target, size class, #items, #failed pushes, section counts, size bucket)",
        "assumptions": ["names are compared case-insensitively after a round trip (compressors may point at an earlier occurrence spelled in another case; RFC 1035 4.1.4 does not forbid it)",
                        "which pushes fail is observed, not predicted; messages beyond 65535 octets on unlimited Vec targets are outside the property and skipped"],
    },
    "C01": {
        "level": "exploration",
        "technique": 'runtime monitoring: every read-side operation driven over structure-aware mutants, typed-hostile and random messages with panic/hang/overrun monitors (catch_unwind, CPU watchdog, AddressSanitizer, Miri), a traversal-twice oracle and a differential against an independent wire walker',
        "features": ["crypto", "hooks"],
        "stages": [
            {"mode": "native", "cpu_budget": 30},
            {"mode": "asan", "scale": 0.08, "cpu_budget": 120},
            {"mode": "miri", "scale": 0.0006, "shards": 16, "tiers": ["thorough"], "timeout_thorough": 3000},
        ],
        "rule": "an evaluation is one octet string made a message by any of the three constructors (which must agree) and taken twice through read_all (every header accessor, question/record/section/message iterator, typed "
                "parsing into AllRecordData and four concrete types, OPT options, canonical_name, is_answer, contains_answer, get_last_additional, copy_records, "
                "dig-style and zone-style display, ParsedName/ParsedRecord/Label::iter_slice at raw offsets, the XFR response interpreter and the TSIG server "
                "entry incl. its error-response builder), once in fixed and once in seeded block order, under panic capture, a CPU-time watchdog and logical "
                "iterator caps, with transcript equality, closure checks on every returned name/record (every displayed text must be UTF-8) and a differential against the reference walker; inputs "
                "are valid generated messages, 16 structure-aware mutation kinds, record data of every length from 0 to 13 octets for every type read structurally, well-formed records whose type bitmap ends the message, "
                "exhaustive pointer-target/boundary-octet/truncation families on small "
                "messages, random octets and a hand-made corpus; distinct = (mutation kind, #records accepted/rejected, #compressed names, record types seen, transcript size) tuples",
        "assumptions": ["a panic documented as a caller contract violation is never provoked (only read-side calls on whatever the parser returned)",
                        "the reference walker and the library may differ in what they accept; only 'both accept => same content' is asserted",
                        "non-termination is decided by CPU time (30 s for inputs that normally take microseconds), confirmed by an isolated re-run with 60 s"],
    },
    "C19": {
        "level": "exploration",
        "technique": 'runtime monitoring: differential execution of the new-API codec and the established one over the same byte strings, names, build scripts and OPT option sequences, with an independent wire walker as referee for pointers; AddressSanitizer and Miri',
        "features": ["crypto", "hooks"],
        "stages": [
            {"mode": "native", "cpu_budget": 30},
            {"mode": "asan", "scale": 0.1, "cpu_budget": 120},
            {"mode": "miri", "scale": 0.001, "shards": 16, "tiers": ["thorough"], "timeout_thorough": 3000},
        ],
        "rule": "an evaluation is one octet string parsed as a whole message by the new MessageParser and by the established Message/RecordSection/"
                "AllRecordData path (accept/reject and item-by-item content compared; record types only one codec interprets structurally are excluded from the "
                "accept/reject comparison), one name parsed at a given offset by ParsedName, RevNameBuf and NameBuf, or one build script (questions and records of "
                "the 16 types both builders support, four size classes incl. tiny buffers with failing pushes and fillers placing names around offset 16384) "
                "executed on both builders, each result read by the reference walker (content + pointer well-formedness) and cross-read by both codecs; the new builder also filled, cut back with "
                "truncate() and filled again, which must give what a fresh builder gives (TC aside); the new record-data containers handed 0 .. 131077 octets directly (beyond 65535 they must refuse, like the established codec; what they hold they hold unchanged); "
                "distinct = (verdict pair, mutation kind, item count, record types seen) resp. (size class, items, failed pushes, size bucket)",
        "assumptions": ["like is compared with like: 'the established codec accepts a record' means header and AllRecordData parsing both succeed, because the new parser parses record data eagerly",
                        "an additional-section record starting 00 00 29 is the new parser's EDNS item and the established parser's OPT record",
                        "names are compared case-insensitively after building (compression may change spelling), exactly after parsing"],
    },
    "C06": {
        "level": "exploration",
        "technique": 'runtime monitoring: records of every zone-file type written in the three display kinds and the RFC 3597 form and read back by the zone-file reader, compared with the original through an independent codec; AddressSanitizer',
        "features": ["crypto", "hooks"],
        "stages": [
            {"mode": "native"},
            {"mode": "asan", "scale": 0.1},
        ],
        "rule": "an evaluation is one zone record (every ZoneRecordData type cycled, plus unknown types in RFC 3597 form; owners from plain to arbitrary octets; "
                "classes IN/CH/HS/other; TTL 0..2^32-1; field values from the RFC-derived generator) written with display_zonefile in one of the three kinds "
                "(Simple, Tabbed, Multiline) and read back by zonefile::inplace::Zonefile with or without an origin; owner, class, TTL, type and the "
                "re-composed RDATA octets must be identical; distinct = (type, kind, owner class, rdata size class, class)",
        "assumptions": ["the reader is run with allow_invalid() because each text holds a single record of an arbitrary class",
                        "equality is octet equality of owner and of re-composed RDATA (stricter than the library's case-insensitive ==)"],
    },
    "C07": {
        "level": "exploration",
        "technique": 'runtime monitoring: hostile byte strings through the zone-file reader with panic/hang monitors, and metamorphic layout rewrites of generated logical files whose entries must be equal; AddressSanitizer and Miri',
        "features": ["crypto", "hooks"],
        "stages": [
            {"mode": "native", "cpu_budget": 30},
            {"mode": "asan", "scale": 0.1, "cpu_budget": 120},
            {"mode": "miri", "scale": 0.002, "shards": 16, "tiers": ["thorough"], "timeout_thorough": 3000},
        ],
        "rule": "an evaluation is (a) one logical zone file (origin, class, 1-8 records of 13 kinds written by the harness's own presentation writer) rendered in "
                "5 layout variants drawn from 14 independent knobs (comments, blank/comment-only lines, parenthesised continuations opened at any token gap, "
                "tabs, relative names and @ under $ORIGIN, owner inheritance, TTL omitted after a stated TTL or under $TTL, class omitted, class/TTL order, "
                "lower-case keywords, CRLF, missing final newline, $ORIGIN changes) all of which must read as exactly the logical record sequence, or (b) one "
                "hostile byte string (random, token soup, 60 hand-made nasty snippets alone and glued, very long tokens, mutated valid files) read with and "
                "without origin and through zonetree::parsed::Zonefile under panic capture, a CPU watchdog, an entry-count cap and the error-has-position check, or (c) one record whose variable-length field sits on, "
                "just below or just above the limit of its type (character strings of TXT / HINFO / NAPTR, NSEC3 and NSEC3PARAM salts, the NSEC3 next hashed owner, CAA tags: 255 octets; "
                "RFC 3597 generic data and the whole of a TXT record: 65535) in eight spellings (plain, quoted, with blanks, one or all octets escaped): within the limit the record reads "
                "back with exactly those octets, above it the reader refuses, and whatever it returns composes without a panic to the length it advertises; "
                "distinct = (knob vector, record count) resp. (outcome class, error class)",
        "assumptions": ["omitted TTL means $TTL if one was given, else the last explicitly stated TTL (RFC 2308 4 / RFC 1035 5.1); the renderer never omits a TTL before one was stated",
                        "after an error the reader is not asked for further entries (documented)"],
    },
    "C08": {
        "level": "exploration",
        "technique": "runtime monitoring: the real zone tree answered over seven construction histories (builder, zone file, updater replace/incremental, write interface, abandoned writers), compared per query with an executable RFC 1034/4592 lookup model",
        "features": ["crypto", "hooks"],
        "stages": [
            {"mode": "native", "cpu_budget": 60},
        ],
        "rule": "an evaluation is one (zone content, construction history, qname, qtype): zones over a 6-label alphabet (depth <= 3) with delegations (DS, in- and "
                "out-of-zone glue, occluded data), CNAMEs, wildcards, empty non-terminals and case variants; six histories ending in the same content (typed "
                "ZoneBuilder, zone-file text -> inplace -> parsed -> Zone, ZoneUpdater full replacement of another zone, WritableZone node interface, "
                "ZoneUpdater record-level adds/deletes from another zone, abandoned writer then read); every owner, ancestor, x/a/*/zz child and an out-of-zone "
                "name x 9 qtypes; the answer is observed through Answer::to_message + the reference walker and compared with the RFC 1034 4.3.2 / RFC 4592 "
                "lookup model (rcode, AA, answer RRset or CNAME, SOA or NS/DS authority, glue); name servers may be shared between delegations (the glue of one cut lives below another); "
                "walk() must enumerate exactly the content (a glue record shared by several cuts may be enumerated once per cut); "
                "distinct = (history, expected shape, node facts, ANY/DS flag)",
        "assumptions": ["for ANY any one RRset of the node is accepted (RFC 8482); a CNAME answer is the CNAME record alone",
                        "glue = address records owned by a name-server target of the cut, as zonetree::parsed collects it",
                        "the builder history classifies records as zonetree::parsed does (insert_zone_cut / insert_cname / insert_rrset)"],
    },
    "C09": {
        "level": "exploration",
        "technique": "runtime monitoring: recorded reader/writer histories with unique stamps checked against a sequential model, version-bookkeeping invariant hook (verif-hooks) at quiescent points, real-thread stress with injected pauses under ThreadSanitizer and Miri",
        "features": ["crypto", "hooks"],
        "stages": [
            {"mode": "native", "cpu_budget": 120},
            {"mode": "tsan", "shards": 4, "scale": 1.0, "cpu_budget": 600, "tiers": ["quick", "thorough"]},
            {"mode": "miri", "shards": 8, "tiers": ["thorough"], "timeout_thorough": 3000, "miriflags": "-Zmiri-disable-isolation -Zmiri-permissive-provenance -Zmiri-ignore-leaks"},
        ],
        "rule": "an evaluation is (a) one single-threaded history of 8-60 operations over {3 readers acquire/query/walk/release, one writer open/update/remove/"
                "remove_all/commit/abandon/lost to a panic of its task; write access asked for while the writer is at work and granted afterwards} on a 5-name zone, checked operation by operation against a model with the list of committed contents (every value "
                "written carries a unique stamp, so an observation names the write it saw), with the version-bookkeeping inspector run after every commit and "
                "abandon; or (b) one query/walk pass of a reader thread in a real-thread stress run (3-4 reader threads, 2 competing writer tasks on a "
                "multi-thread runtime, each committed version stamps every record with its version number, abandoned versions use a disjoint stamp range, "
                "seeded yields/sleeps at the six pause hooks): all stamps a reader sees must be one version v with finished_before <= v <= started_after, "
                "walk == queries (TXT, ANY and a type the name lacks), the SOA in the authority section of a negative answer is the SOA of the reader's version, held readers keep their version, writers-inside never exceeds 1, and no stall: 20 s without a read, commit or abandon while the process uses no CPU time is a deadlock; one writer whose node interface is used from three threads at once (every thread creating the same new names at the same moment, an RRset of a type of its own each): all of it is there after the commit, and no stall; the same stress runs under ThreadSanitizer and (thorough) "
                "Miri; distinct = order of acquire/open/commit/abandon events of a history resp. (v-finished_before, started_after-v, writer-open) classes",
        "assumptions": ["a reader may observe any version that was current at some instant between the call and return of read()",
                        "only the data a reader sees is judged here (which rcode a name without data gets is C08's business)"],
    },
    "C13": {
        "level": "exploration",
        "technique": "runtime monitoring: generated chains compared field by field with an independent chain model; NSEC3 hashes recomputed offline with Python hashlib",
        "features": ["crypto", "hooks"],
        "stages": [
            {"mode": "native", "cpu_budget": 120},
            {"mode": "asan", "shards": 4, "scale": 0.2, "tiers": ["thorough"], "cpu_budget": 600},
        ],
        "offline": ["nsec3_ref.py"],
        "rule": "an evaluation is one generated zone (6-label alphabet, depth <= 3: delegations with and without DS, in-zone glue, occluded data, nested cuts, "
                "wildcards, CNAMEs, empty non-terminals shared by two branches, owner-case variants, glue sorting last, apex-only, names owning several types outside window 0 - CAA, URI, TA, DLV, private use - "
                "so that bitmaps have blocks behind the first that are extended and inserted into) put through SortedRecords and "
                "(a) generate_nsecs, (b) generate_nsec3s with random salt (0..255 octets), iterations (0..50), opt-out on/off, unsigned-delegation exclusion "
                "on/off, DNSKEY assumption on/off; the emitted records must equal, field by field, the chain computed by an independent model: owner set = "
                "authoritative names (cuts included, glue/occluded excluded, ENTs only for NSEC3), canonical/hash order, next pointers closing the ring, "
                "exact type bitmaps, parameters, TTL = min(SOA TTL, SOA MINIMUM); NSEC3 owner labels are decoded with the reference Base32hex decoder and "
                "compared with an in-harness SHA-1 IH(), itself cross-checked against Python hashlib offline; contains() of every generated bitmap is asked about every type of each of its windows, "
                "of the window behind each and of window 0, and iter() compared with the set bits; absent names are probed for exactly one covering "
                "NSEC; distinct = (chain kind, config flags, salt/iteration class, ENT count class, cut presence, owner count class)",
        "assumptions": ["input records are an RRset-complete zone with the SOA at the apex, as SortedRecords presents them",
                        "with opt-out and exclusion on, an unsigned delegation gets no NSEC3 and implies no empty non-terminal by itself (RFC 5155 7.1)"],
    },
    "C10": {
        "level": "exploration",
        "technique": "runtime monitoring: end-to-end transfers through the real XFR middleware, interpreter and updater with a reference framing machine, reader sampling after every update, fault injection on the message stream",
        "features": ["crypto", "hooks"],
        "stages": [
            {"mode": "native", "cpu_budget": 240},
            {"mode": "asan", "shards": 4, "scale": 0.1, "tiers": ["thorough"], "cpu_budget": 900},
        ],
        "rule": "an evaluation is one of: (a) one commit on the sender's zone (2-4 versions per case, edited through ZoneUpdater record updates, ZoneUpdater full "
                "replacement or the WritableZone RRset interface, serials including wrap-around) whose reported InMemoryZoneDiff, applied to the old model "
                "content, must give the new content; (b) one end-to-end transfer: the real XfrMiddlewareSvc (every third TCP transfer TSIG-signed end to end, "
                "TsigMiddlewareSvc around it and ClientSequence on the receiving side; TCP, compatibility mode, small messages through "
                "reserved bytes, UDP IXFR) answers an AXFR/IXFR query, its stream is checked by the reference framing machine (RFC 5936 2.2 / RFC 1995 4) and "
                "fed through Message::is_answer + XfrResponseInterpreter + ZoneUpdater into a receiving zone (empty, old version, unrelated content); (c) one "
                "re-packaging of the canonical AXFR / IXFR / AXFR-in-reply-to-IXFR record sequence (all-in-one, one RR per message, random splits, question "
                "repeated or not, compressed or not); (d) one fault on such a stream (drop/duplicate/reorder/truncate message, QR/opcode/rcode/TC/counts, "
                "wrong question name/type/class, missing question, missing/mismatched first or final SOA, missing inner IXFR SOA, record outside the zone); a transfer fetched behind one that was given up half-way on the same connection; (e) one transfer served from a zone that moves on while the "
                "transfer is prepared: a store layered over the in-memory one commits the next version just in front of the sender's first, second, third or fourth read(), and what is "
                "sent must be one published version, SOA and records alike. "
                "The receiving zone's walk() is sampled after every applied update: every content readers see must be the previous version or a complete "
                "version of the transfer; accepted transfers must leave exactly the content the stream denotes; streams the RFCs make invalid must not be "
                "accepted; no panic; distinct = (kind, packaging class / fault kind, accepted?, update count class, versions)",
        "assumptions": ["the caller checks the first reply with Message::is_answer and the ID of every reply, as XfrResponseInterpreter's documentation demands",
                        "the receiving zone was itself filled through the updater (as a secondary's zone is)",
                        "where the RFCs are silent (records after the closing SOA, a foreign SOA inside an AXFR, IXFR difference sequences not starting at the "
                        "receiver's serial, a fault after the transfer was already complete) only absence of panics and of partial versions is required"],
    },
    "C11": {
        "level": "exploration",
        "technique": "runtime monitoring: differential against an independent RFC 8945 signer/verifier over every single-bit and structural mutation; offline recomputation of every logged MAC with Python hmac",
        "features": ["crypto", "hooks"],
        "stages": [
            {"mode": "native", "cpu_budget": 300},
            {"mode": "asan", "shards": 4, "scale": 0.1, "tiers": ["thorough"], "cpu_budget": 900},
        ],
        "offline": ["tsig_ref.py"],
        "rule": "an evaluation is one verification: (a) an honest request / response / BADTIME response between ClientTransaction and ServerTransaction with a random "
                "key (4 algorithms, secrets of 1-200 octets, signing_len and min_mac_len anywhere in the legal range), messages built through the library's "
                "builder (0-2 questions, opaque records of random types in all sections, OPT), time signed anywhere in 48 bits, fudge in {0,1,300,65535,random}, "
                "checked at time signed + {-f-1,-f,-1,0,1,f,f+1,...}; (b) each message of a multi-message response: ServerSequence against the reference, and a "
                "reference RFC 8945 server that leaves runs of 0..100 messages unsigned (sequences of up to 135 messages, unsigned tail, one message altered in "
                "flight) against ClientSequence; (c) every single-bit flip of a signed request (server side) and of a signed response (client side), and 25 "
                "structural edits (TSIG removed / twice / not last / in another section, key name, algorithm, original ID, time, fudge, error, other data, MAC "
                "truncated within / to / below the limits, extended, class, TTL). Oracle: an independent RFC 8945 signer/verifier over raw octets (own parser, own "
                "digest construction; only the HMAC primitive is ring's, and that is recomputed offline with Python hmac/hashlib for every logged MAC): the "
                "library accepts iff the reference does, MACs are equal octet for octet, the error class is the RFC's for structural edits, verified messages "
                "equal the pre-signing octets, no panic (the error response is built for every server-side error); the client-side transport wrapper net::client::tsig::Connection against the reference acting as a server, one request or two in flight at once "
                "(the request as it leaves the wrapper verifies by the reference; an honestly signed answer reaches the caller as made, one with a flipped "
                "bit, another secret, a time outside the window, no TSIG, or a MAC computed without the request MAC is refused); the server-side middleware net::server::middleware::tsig::TsigMiddlewareSvc over a key store of 1-3 keys in front of a service, the reference acting as "
                "the client (an authentic request reaches the service once, as it was before signing and with its key as metadata; every response - one, a sequence announced "
                "with BeginTransaction in either of the two ways, responses filled to the brim that leave the reserved octets free - verifies by the reference as RFC 8945 5.3 "
                "chains them and is the service's response; a response with no room for the record is replaced by a signed question-only response with TC set; unsigned traffic "
                "passes untouched; a request that fails verification - one of the 25 structural edits, a flipped bit, another secret, a key the server does not hold, a time "
                "outside the window - never reaches the service and is answered with the RCODE, TSIG error and signedness RFC 8945 5.2 / 5.3.2 assign, BADTIME signed and "
                "carrying the server's clock); distinct = (algorithm, truncation, "
                "fudge class, clock side, outcome, size class) resp. (sequence length class, gap, tail)",
        "assumptions": ["'returns the message to its pre-signing octets' is judged on the header and everything up to the last record: Message::remove_last_additional "
                        "only lowers ARCOUNT, the TSIG RR's octets stay behind the last record where no section reaches them",
                        "flips the RFC makes irrelevant must be accepted: the two ID octets (the digest uses the original ID), letter case in the key and algorithm names"],
    },
    "C12": {
        "level": "exploration",
        "technique": "runtime monitoring: observation hook at the SignRaw boundary (octets handed to the key) compared with a reference RFC 4034 construction; verify-after-transform and alteration oracles; offline Python check of key tags and DS digests",
        "features": ["crypto", "hooks"],
        "stages": [
            {"mode": "native", "cpu_budget": 300},
            {"mode": "asan", "shards": 4, "scale": 0.1, "tiers": ["thorough"], "cpu_budget": 900},
        ],
        "offline": ["dnssec_ref.py"],
        "rule": "an evaluation is one RRset (owner of 0-4 labels under a random apex, every 4th a wildcard owner, mixed case; any zone record type from the "
                "C05 generator; 1-4 distinct records in random order; TTL incl. 0 and 2^31-1; inception/expiration anywhere incl. across the 2^32 wrap and "
                "backwards) signed with sign_rrset under a generated ECDSAP256/ECDSAP384/ED25519 key or an imported RSASHA256/RSASHA512 test key, through a "
                "SignRaw wrapper that records the octets handed to the key: these must equal the RFC 4034 3.1.8.1 construction of the reference (own canonical "
                "RDATA composer, own ordering, labels count, key tag); the RRSIG must verify with RrsigExt::signed_data + verify_signed_data as signed, "
                "reordered, with owner case changed, TTL decremented, embedded names re-cased (types whose canonical form folds them), wildcard-expanded "
                "(with the closest encloser reported), and on records re-parsed from a compressed message; each of ~20 alterations (every RRSIG field, "
                "signature bits/length, public key bits, the key or the signature relabelled to another algorithm number, an RDATA bit, a record removed, sibling owner, class) must fail; "
                "the RRset also verifies behind an alias in a compressed message (owners written as a pointer to the CNAME's target, itself ending in a pointer), wildcard-expanded or not; "
                "the RSA/SHA-1 example of RFC 4035 B.6 (an algorithm the back end verifies but cannot make) verifies, and does not under any other algorithm number, with any bit of the signature or key flipped; key tags of random DNSKEY RDATA "
                "(incl. RSA/MD5, odd lengths) and DS digests (SHA-1/256/384) equal the reference and, offline, Python hashlib; distinct = (type, algorithm, "
                "records, wildcard, depth, validity class, ttl=0)",
        "assumptions": ["ECDSA signatures are randomised, so signatures are verified, never compared",
                        "duplicate records are not put into an RRset (RFC 2181 5)"],
    },
    "C14": {
        "level": "exploration",
        "technique": "runtime monitoring: the validator run against a mock upstream serving a hierarchy signed at run time, with fault injection on answers and upstream and ground truth by construction; one validation context kept alive across a key withdrawal and a signature expiry (real time)",
        "features": ["crypto", "hooks"],
        "stages": [
            {"mode": "native", "cpu_budget": 400},
            {"mode": "asan", "shards": 4, "scale": 0.1, "tiers": ["thorough"], "cpu_budget": 900},
        ],
        "rule": "an evaluation is one validate_msg call on a fresh ValidationContext whose upstream is a mock (SendRequest) answering from a hierarchy signed with "
                "the library's signer at run time: root -> test -> {secure, secure2 (ECDSAP256), insecure (no DS), odd (ED25519/P384, which the validator does "
                "not support)}, each zone with its own KSK/ZSK or CSK and NSEC, NSEC3 or NSEC3 opt-out; ~100 queries per hierarchy (positive, wildcard one and "
                "two labels deep, NODATA at names / empty non-terminals / wildcards / apex, NXDOMAIN before, between and after names, CNAME chains within a "
                "zone, into a wildcard, into another secure zone and into an insecure zone, DS and DNSKEY queries); (a) the untouched answer must validate as "
                "Secure (secure chain), Insecure (insecure delegation, unsupported algorithm, chain through an insecure zone), never Bogus; (b) the answer "
                "damaged by one of 11 faults (RRSIG dropped, signature bit, RDATA bit, wrong signer, expired / not yet valid re-signature, one or all denial "
                "records dropped, the denial records dropped while their signatures stay, SOA dropped, unsigned extra RRset, all DNSSEC records stripped) must not be Secure; (c) the untouched answer with the upstream "
                "lying about one DS or DNSKEY RRset on the chain (11 faults incl. SERVFAIL, empty answer, timeout, truncated message) must be neither Secure nor "
                "Insecure; (d) the answer, or the upstream's DS/DNSKEY answer, carrying content only the zone's own operator could have signed (17 kinds: NSEC3 "
                "owners that are not Base32hex / too long / not UTF-8 / too short, wrong hash lengths, 65535 iterations, unknown hash algorithm, broken bitmaps, "
                "NSEC next names outside the zone or equal to the owner, DNSKEY RRsets with empty or short RSA keys or 40 extra keys, DS RRsets with short "
                "RDATA, unknown digest types or 40 extra members) must only not panic or run away; DNAME chains and a zone signed with an imported RSA key "
                "are part of the hierarchy; (e) forgeries assembled from validly signed parts: an NXDOMAIN proven with the wrap-around NSEC of a child zone, an NXDOMAIN for a name below a DNAME at a zone's apex proven with that zone's SOA and apex NSEC, "
                "a signature naming an unsigned zone as signer, and a genuine wildcard RRset replayed (with the genuine NSEC/NSEC3 covering the name) as the "
                "answer for a name below an existing sibling of the wildcard; (f) one validation context across a key withdrawal and a signature expiry; (g) one validation context asked about a genuine answer and the same answer with its data "
                "altered under the same RRSIG, in either order, twice; (h) the validating client transport net::client::validator::Connection under every combination of the request's CD / DO / AD bits, "
                "upstream claims about AD and CD, and answer faults: AD reaches the caller only after a validation that said Secure, never for a CD request, and damaged data does not reach a caller that left CD clear; "
                "no panic, at most 200 upstream requests per validation; distinct = (kind of answer, denial type, fault, outcome)",
        "assumptions": ["ground truth comes from the construction: every fault removes or invalidates the only signature, record or proof the answer depends on",
                        "the validator reads the wall clock; signatures are made valid from one hour ago to seven days ahead, expired / future ones ten days off",
                        "a delegation whose DS RRset names only algorithms outside dnssec::validator::base::supported_algorithm is insecure (RFC 4035 5.2)",
                        "Bogus and Indeterminate are not distinguished"],
    },
    "C15": {
        "level": "exploration",
        "technique": "runtime monitoring: client transports over mock sockets/streams under the paused tokio clock (real time for the plain stream transport), scripted hostile peer, oracle over the caller's results joined with the peer's event log; ThreadSanitizer stage",
        "features": ["crypto", "hooks"],
        "stages": [
            {"mode": "native", "cpu_budget": 400},
            {"mode": "tsan", "shards": 4, "scale": 1.0, "tiers": ["thorough"], "cpu_budget": 900},
        ],
        "rule": "an evaluation is one request (of 1-60 per case, issued in 1-3 waves separated by pauses longer than every timeout) through one of the six client "
                "transports (dgram, stream, multi_stream, dgram_stream, redundant over dgram+multi_stream, load_balancer over two dgram) wired to mock datagram "
                "sockets (AsyncConnect / AsyncDgramSend / AsyncDgramRecv) and tokio duplex streams under the paused tokio clock; each request has a unique query "
                "name; per transmission the scripted peer sends 0-2 noise messages (wrong ID, other question, QR clear, garbage, short, an answer to another "
                "request, questionless error with a wrong ID, a reply with the right ID, NOERROR, no question and a record for another name) and then nothing, a late answer (2.5-9 s), a questionless SERVFAIL, a truncated datagram, a "
                "connection close (possibly mid-frame), a re-cased question or the answer, sometimes duplicated up to 6 s later; stream connects may be "
                "refused; every fourth case the peer is honest (each request answered once, correctly, within 0.8 s, in any order) and every request must "
                "succeed; on the plain stream transport (real time, delays a tenth as long) also a silent peer under a trickle of requests, and a connection "
                "that is used again after it fell idle: a few requests answered, a pause inside the idle timeout, then one request the peer never answers, "
                "which has to fail within the response timeout; an honest peer that answers all requests with one write and closes; one connection "
                "carrying 66000 requests a few at a time; the load balancer and the redundant transport asked without any upstream; the datagram transport with every configuration value at the ends of its range; a multiplexed stream transport with requests in flight whose second connect takes 20-40 s (a request that fails on its own, being too long for a stream, asks for it): "
                "the requests on the first connection complete with their answers in time; and a real-thread family (multi-thread runtime, real time, honest peer, 20-80 concurrent "
                "requests per case over each transport; all there is to the ThreadSanitizer stage). Oracle over the caller's result joined with the peer's log of (wire ID, query name): an Ok message has QR set, an ID that was used for "
                "this very request, and this request's question (or, without question, an error rcode and empty sections); every request completes, and within "
                "the transport's timeout-and-retry budget (virtual time); a truncated datagram answer is only handed out after the stream was tried; no panic; "
                "distinct = (transport, outcome class, rcode/TC, virtual latency class, number of transmissions)",
        "assumptions": ["an Err is always an acceptable completion",
                        "the completion budget is (1+retries) x read timeout for datagrams times the number of queued requests a max_parallel of 1 may put "
                        "ahead, and a small multiple of the response timeout for streams"],
    },
    "C16": {
        "level": "exploration",
        "technique": "runtime monitoring: server transports over a mock datagram socket and listener under the paused tokio clock, oracle over every octet the server writes, liveness and panic monitors",
        "features": ["crypto", "hooks"],
        "stages": [
            {"mode": "native", "cpu_budget": 400},
            {"mode": "asan", "shards": 4, "scale": 0.05, "tiers": ["thorough"], "cpu_budget": 900},
            {"mode": "tsan", "shards": 4, "scale": 1.0, "tiers": ["thorough"], "cpu_budget": 900},
        ],
        "rule": "an evaluation is one request served by DgramServer (mock AsyncDgramSock) or StreamServer (mock AsyncAccept over tokio duplex streams) with the "
                "stack MandatoryMiddlewareSvc(EdnsMiddlewareSvc(CookiesMiddlewareSvc(service))) (cookies enabled in half of the cases; a third of the EDNS "
                "requests carry a COOKIE option: client-only, with unknown server part, too short, between 8 and 16, too long) under the paused tokio clock; the query name tells the service what to do: one "
                "response of n records (sizes chosen around 512, 1232, 4096 and 65535), k responses in sequence, a delayed response, or a failure. UDP: 1-24 "
                "datagrams per case from distinct addresses, EDNS size in {none, 0, 100, 511, 512, 513, 1232, 4096, 65535}, configured maximum in {512, 1232, "
                "4096, none} and in a third of the cases changed while the server runs (reconfigure(): the new maximum holds for everything received afterwards), a quarter of them hostile (short, random, QR set, QDCOUNT 65535, truncated question, mutated message, odd opcode, two OPTs), "
                "then a probe: exactly one response to the sender with its ID and question, never longer than min(max(512, EDNS size), configured maximum) "
                "resp. 512 without EDNS, complete when it fits, TC set and parseable when not. Streams: 1-5 connections with 1-10 pipelined requests written "
                "in chunks of 1..all octets, every fifth aborted at a random octet, hostile frames (zero length, shorter than a header, never completed, half "
                "a length prefix), then a probe connection: every octet the server writes parses as length-prefixed messages, each the response to a request "
                "of that connection, the right number of them and in the service's order, nothing needlessly truncated; the server task stays alive, no task "
                "panics; a third of the cases add a requester that reads slowly through a pipe of 128-4096 octets (waits 3.5-20 s, longer than the idle timeout "
                "of 3 s, shorter than the response write timeout) and must still get every frame whole. Connection churn: a server allowing 2-4 concurrent "
                "connections sees 5-14 connections one after the other (served and closed, aborted mid-request, hostile octets, a handshake whose accept "
                "future fails or - once per case - never completes, left to its idle timeout, closed without a word); each connection that sends a request, and a probe at the end, must be "
                "answered (no ending may keep its place in the connection count). Real threads: 6-16 transactions of 300-1200 messages each pipelined on one "
                "connection of a server on a multi-thread runtime (4-12 workers) with a requester that drains a small pipe: every message of every "
                "transaction exactly once and in order (also the whole of the ThreadSanitizer stage). UDP sockets report readiness with nothing to "
                "read now and then; distinct = (transport, service kind, EDNS class, configured maximum, TC, size class) resp. (kind, count, chunking, pipeline depth)",
        "assumptions": ["a connection that carried hostile input may be closed by the server: requests behind it need not be answered",
                        "a hostile datagram may be answered (at most once, with its ID) or dropped"],
    },
    "C20": {
        "level": "exploration",
        "technique": "runtime monitoring: query histories under the paused tokio clock against a mock upstream whose responses carry unique markers; freshness / flag-compatibility / TTL-ageing oracle per served response",
        "features": ["crypto", "hooks"],
        "stages": [
            {"mode": "native", "cpu_budget": 400},
            {"mode": "asan", "shards": 4, "scale": 0.05, "tiers": ["thorough"], "cpu_budget": 900},
            {"mode": "tsan", "shards": 4, "scale": 1.0, "tiers": ["thorough"], "cpu_budget": 900},
        ],
        "rule": "an evaluation is one query answered by net::client::cache::Connection over a mock upstream (SendRequest) under the paused tokio clock; a case "
                "is a history of 8-60 queries over 4 names x {A, TXT} with every combination of RD/CD/AD/DO and occasional upper-case spelling, the clock "
                "moved between queries (and, for a fifth of them, between making the request object and asking it for its response) by 0, fractions of a second, amounts around 1/2/5/30/60/75/90/100/300 s, or up to an hour; each name answers in one way "
                "(positive with NS/glue and, under DO, RRSIGs; NODATA and NXDOMAIN with SOA and, under DO, NSEC/NSEC3/RRSIG; delegation; SERVFAIL/REFUSED and errors whose code needs the upper bits in the OPT record; "
                "truncated; transport failure; empty NOERROR; an alias: CNAME plus the target's data, CNAME plus SOA as NODATA, CNAME plus SOA as NXDOMAIN) with TTLs from {0,1,2,5,30,59,60,61,300,...}; every upstream response carries a unique "
                "marker, so a response served without asking upstream names the response it was made from; a real-thread family (multi-thread runtime, six "
                "tasks querying one cache at once, judged by the markers alone) is also all there is to the ThreadSanitizer stage; a sixth of the requests are made from a message that already carries an OPT record and call no EDNS setter, and half of the upstreams read requests the way the stream "
                "transports serialise them (append_message); cache configuration (maximum validity, NXDOMAIN / "
                "NODATA / delegation bounds, error and failure durations, cache_truncated, 1-1000 entries) random. Oracle: a cached response is upstream's "
                "answer to the same name and type, for flags it is compatible with (RD only from RD, CD equal, DO only from DO, AD from AD or DO), with the "
                "same records (minus RRSIG/NSEC/NSEC3 without DO), every TTL reduced by the age (never increased), served no later than its smallest TTL, "
                "the maximum validity and the bound of its class allow; failures no longer than transport_failure_duration; no AD without AD/DO; no AA; no "
                "truncated response unless configured; a fresh response is passed on unchanged; distinct = (class, query flags, source DO, age class, bound class)",
        "assumptions": ["TTLs are aged in whole seconds: either rounding of the age is accepted",
                        "upstream sets AD when the query had AD or DO and CD clear, as a validating resolver does"],
    },
}
