"""Per-property stage configuration for ./check (see DESIGN.md section 3)."""

NATIVE = {"mode": "native"}

PROPS = {
    "C17": {
        "level": "exploration",
        "features": ["hooks"],
        "stages": [
            {"mode": "native", "tiers": ["quick"]},
            {"mode": "release", "tiers": ["thorough"]},
            {"mode": "native", "tiers": ["thorough"], "scale": 0.02},
        ],
        "rule": "an evaluation is one (base a, difference d) pair checked against the RFC 1982 predicate on the wrapped 32-bit difference "
                "(compare, antisymmetry, operators, add, shift-invariance with a seeded shift, Timestamp agreement); quick sweeps every "
                "difference in the blocks around 0, 2^31 and 2^32 and a stride-257 sample elsewhere from 8 bases, thorough sweeps all 2^32 "
                "differences from the 8 bases; distinct = (base, outcome, top 4 bits of the difference) classes observed",
        "assumptions": ["the reference predicate (signed view of the wrapped difference) is the RFC 1982 definition for SERIAL_BITS=32",
                        "Serial::add is only called with addends <= 2^31-1 (documented contract)"],
    },
}
