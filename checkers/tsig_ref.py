#!/usr/bin/env python3
"""Recompute every logged TSIG MAC from RFC 8945 4.3 with Python's hmac/hashlib.
Each log line holds what was signed (message without TSIG RR, original ID), the key, the TSIG
variables as they appear in the signed message, and the MAC the library put on the wire."""
import sys, os, json, hmac, hashlib
wdir = sys.argv[1]
H = {"hmac-sha1": hashlib.sha1, "hmac-sha256": hashlib.sha256, "hmac-sha384": hashlib.sha384, "hmac-sha512": hashlib.sha512}
n = 0; viol = []; sigs = set()
for f in sorted(os.listdir(wdir)):
    if not (f.startswith("tsig_") and f.endswith(".jsonl")):
        continue
    for line in open(os.path.join(wdir, f)):
        try:
            e = json.loads(line)
        except Exception:
            continue
        alg = e["alg"]; secret = bytes.fromhex(e["secret"]); name = bytes.fromhex(e["key_name"])
        msg = bytes.fromhex(e["msg"]); mac = bytes.fromhex(e["mac"]); other = bytes.fromhex(e["other"])
        t = e["time"].to_bytes(6, "big"); fudge = e["fudge"].to_bytes(2, "big")
        algname = bytes([len(alg)]) + alg.encode() + b"\0"
        variables = name + (255).to_bytes(2, "big") + (0).to_bytes(4, "big") + algname + t + fudge + e["error"].to_bytes(2, "big") + len(other).to_bytes(2, "big") + other
        d = b""
        if e["prior"] is not None:
            p = bytes.fromhex(e["prior"]); d += len(p).to_bytes(2, "big") + p
        for u in e["unsigned"]:
            d += bytes.fromhex(u)
        d += msg
        d += (t + fudge) if e["kind"] == "subsequent" else variables
        want = hmac.new(secret, d, H[alg]).digest()[:len(mac)]
        n += 1
        sigs.add(hashlib.sha1(f"{alg}:{e['kind']}:{len(mac)}:{e['error']}:{min(len(secret),70)//10}".encode()).hexdigest()[:16])
        if want != mac and len(viol) < 5:
            viol.append({"sig": f"python-mac:{e['kind']}" + (":badtime" if e["error"] == 18 else ""), "what": f"{alg} {e['kind']} MAC on the wire {mac.hex()} but hmac/hashlib over the RFC 8945 digest gives {want.hex()}", "replay": e, "count": 1})
print(json.dumps({"evaluations": n, "sig_hashes": sorted(sigs), "counts": {"python_macs_recomputed": n}, "floors": {"python_macs_recomputed": 1}, "violations": viol, "samples": []}))
sys.exit(1 if viol else 0)
