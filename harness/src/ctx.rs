//! Case execution context: seeding, sharding, panic capture, write-ahead
//! slot + CPU-time watchdog, outcome signatures, violations, result file.

use crate::rng::Rng;
use serde_json::{json, Value};
use std::collections::{BTreeMap, HashSet};
use std::hash::{Hash, Hasher};
use std::panic::{self, AssertUnwindSafe};
use std::path::PathBuf;
use std::sync::atomic::{AtomicU64, Ordering};
use std::sync::Mutex;
use std::time::Instant;

#[derive(Clone, Copy, PartialEq, Eq, Debug)]
pub enum Tier {
    Quick,
    Thorough,
}

#[derive(Clone, Debug)]
pub struct PanicInfo {
    pub file: String,
    pub line: u32,
    pub msg: String,
}

impl PanicInfo {
    /// A signature that survives line-number shifts: file + normalised message.
    pub fn site(&self) -> String {
        let mut m = String::new();
        let mut last_n = false;
        for c in self.msg.chars().take(70) {
            if c.is_ascii_digit() {
                if !last_n {
                    m.push('N');
                }
                last_n = true;
            } else {
                last_n = false;
                m.push(if c.is_control() { ' ' } else { c });
            }
        }
        let f = self
            .file
            .rsplit("/repo/")
            .next()
            .unwrap_or(&self.file)
            .to_string();
        format!("{}:{}", f, m.trim())
    }
}

thread_local! {
    static LAST_PANIC: std::cell::RefCell<Option<PanicInfo>> = const { std::cell::RefCell::new(None) };
}
static ANY_PANIC: Mutex<Option<PanicInfo>> = Mutex::new(None);

pub fn install_panic_hook() {
    panic::set_hook(Box::new(|info| {
        let (file, line) = info
            .location()
            .map(|l| (l.file().to_string(), l.line()))
            .unwrap_or_default();
        let msg = if let Some(s) = info.payload().downcast_ref::<&str>() {
            s.to_string()
        } else if let Some(s) = info.payload().downcast_ref::<String>() {
            s.clone()
        } else {
            "<non-string panic>".to_string()
        };
        let pi = PanicInfo { file, line, msg };
        if std::env::var_os("DVERIF_PANIC_TRACE").is_some() {
            eprintln!("panic at {}:{}: {}", pi.file, pi.line, pi.msg);
            eprintln!("{}", std::backtrace::Backtrace::force_capture());
        }
        *ANY_PANIC.lock().unwrap_or_else(|e| e.into_inner()) = Some(pi.clone());
        LAST_PANIC.with(|c| *c.borrow_mut() = Some(pi));
    }));
}

/// Panic (if any) recorded on any thread since the last call; used for
/// panics inside spawned tasks/threads.
pub fn take_any_panic() -> Option<PanicInfo> {
    ANY_PANIC.lock().unwrap_or_else(|e| e.into_inner()).take()
}

/// Run `f`, catching a panic of the current thread.
pub fn catch<T>(f: impl FnOnce() -> T) -> Result<T, PanicInfo> {
    LAST_PANIC.with(|c| *c.borrow_mut() = None);
    match panic::catch_unwind(AssertUnwindSafe(f)) {
        Ok(v) => Ok(v),
        Err(_) => {
            let pi = LAST_PANIC.with(|c| c.borrow_mut().take()).unwrap_or(PanicInfo {
                file: "?".into(),
                line: 0,
                msg: "?".into(),
            });
            let _ = take_any_panic();
            Err(pi)
        }
    }
}

// ---------------------------------------------------------------- slot --

/// Write-ahead slot: the case about to run, readable after a crash or hang.
struct Slot {
    ptr: *mut u8,
    cap: usize,
    heap: Vec<u8>,
}
unsafe impl Send for Slot {}

const SLOT_CAP: usize = 1 << 20;
static SLOT: Mutex<Option<Slot>> = Mutex::new(None);
pub static HEARTBEAT: AtomicU64 = AtomicU64::new(0);
static STEP: Mutex<&'static str> = Mutex::new("");

fn slot_init(path: &std::path::Path) {
    let mut s = Slot {
        ptr: std::ptr::null_mut(),
        cap: SLOT_CAP,
        heap: Vec::new(),
    };
    #[cfg(not(miri))]
    unsafe {
        use std::os::unix::ffi::OsStrExt;
        let mut p = path.as_os_str().as_bytes().to_vec();
        p.push(0);
        let fd = libc::open(
            p.as_ptr() as *const libc::c_char,
            libc::O_RDWR | libc::O_CREAT | libc::O_TRUNC,
            0o644,
        );
        if fd >= 0 && libc::ftruncate(fd, SLOT_CAP as libc::off_t) == 0 {
            let m = libc::mmap(
                std::ptr::null_mut(),
                SLOT_CAP,
                libc::PROT_READ | libc::PROT_WRITE,
                libc::MAP_SHARED,
                fd,
                0,
            );
            if m != libc::MAP_FAILED {
                s.ptr = m as *mut u8;
            }
            libc::close(fd);
        }
    }
    let _ = path;
    if s.ptr.is_null() {
        s.heap = vec![0u8; SLOT_CAP];
        s.ptr = s.heap.as_mut_ptr();
    }
    *SLOT.lock().unwrap() = Some(s);
}

/// Record the case about to be executed. Layout: idx u64 | label_len u32 |
/// data_len u32 | label | data.
pub fn slot_write(idx: u64, label: &str, data: &[u8]) {
    HEARTBEAT.fetch_add(1, Ordering::Relaxed);
    let g = SLOT.lock().unwrap_or_else(|e| e.into_inner());
    if let Some(s) = g.as_ref() {
        let l = label.as_bytes();
        let ll = l.len().min(200);
        let dl = data.len().min(s.cap - 16 - ll);
        unsafe {
            std::ptr::copy_nonoverlapping(idx.to_le_bytes().as_ptr(), s.ptr, 8);
            std::ptr::copy_nonoverlapping((ll as u32).to_le_bytes().as_ptr(), s.ptr.add(8), 4);
            std::ptr::copy_nonoverlapping((dl as u32).to_le_bytes().as_ptr(), s.ptr.add(12), 4);
            std::ptr::copy_nonoverlapping(l.as_ptr(), s.ptr.add(16), ll);
            std::ptr::copy_nonoverlapping(data.as_ptr(), s.ptr.add(16 + ll), dl);
        }
    }
}

pub fn slot_read_file(path: &std::path::Path) -> Option<(u64, String, Vec<u8>)> {
    let b = std::fs::read(path).ok()?;
    if b.len() < 16 {
        return None;
    }
    let idx = u64::from_le_bytes(b[0..8].try_into().ok()?);
    let ll = u32::from_le_bytes(b[8..12].try_into().ok()?) as usize;
    let dl = u32::from_le_bytes(b[12..16].try_into().ok()?) as usize;
    if 16 + ll + dl > b.len() {
        return None;
    }
    Some((
        idx,
        String::from_utf8_lossy(&b[16..16 + ll]).into_owned(),
        b[16 + ll..16 + ll + dl].to_vec(),
    ))
}

/// Mark the API call about to be made (cheap; for hang attribution).
pub fn step(label: &'static str) {
    *STEP.lock().unwrap_or_else(|e| e.into_inner()) = label;
    HEARTBEAT.fetch_add(1, Ordering::Relaxed);
}

/// The same octets in a heap allocation of exactly their length: a read one octet past the input then
/// leaves the allocation, which is what AddressSanitizer and the interpreter can see (a `Vec` that
/// grew by pushing has spare capacity behind its last element and hides it).
pub fn exact(v: &[u8]) -> Vec<u8> {
    let b: Box<[u8]> = v.into();
    b.into_vec()
}

pub fn beat() {
    HEARTBEAT.fetch_add(1, Ordering::Relaxed);
}

pub fn process_cpu_s() -> f64 {
    #[cfg(not(miri))]
    unsafe {
        let mut ts: libc::timespec = std::mem::zeroed();
        libc::clock_gettime(libc::CLOCK_PROCESS_CPUTIME_ID, &mut ts);
        return ts.tv_sec as f64 + ts.tv_nsec as f64 * 1e-9;
    }
    #[cfg(miri)]
    0.0
}

/// Watchdog: if the heartbeat has not advanced while the process burnt more
/// than `budget_s` of CPU time, write `<out>.hang` and exit with status 4.
pub fn start_watchdog(out: PathBuf, budget_s: f64) {
    if cfg!(miri) {
        return;
    }
    std::thread::spawn(move || {
        let mut last = HEARTBEAT.load(Ordering::Relaxed);
        let mut cpu_at = process_cpu_s();
        loop {
            std::thread::sleep(std::time::Duration::from_millis(250));
            let hb = HEARTBEAT.load(Ordering::Relaxed);
            let cpu = process_cpu_s();
            if hb != last {
                last = hb;
                cpu_at = cpu;
                continue;
            }
            if cpu - cpu_at > budget_s {
                let st = *STEP.lock().unwrap_or_else(|e| e.into_inner());
                let mut p = out.clone().into_os_string();
                p.push(".hang");
                let _ = std::fs::write(
                    PathBuf::from(p),
                    json!({"step": st, "cpu_s": cpu - cpu_at}).to_string(),
                );
                unsafe { libc::_exit(4) };
            }
        }
    });
}

// ----------------------------------------------------------------- ctx --

#[derive(Clone, Debug)]
pub struct Violation {
    pub sig: String,
    pub what: String,
    pub replay: Value,
    pub count: u64,
}

pub struct Ctx {
    pub prop: String,
    pub tier: Tier,
    pub seed: u64,
    pub shard: u64,
    pub nshards: u64,
    pub scale: f64,
    pub mode: String,
    pub time_limit_s: f64,
    pub replay: Option<Value>,
    pub out: PathBuf,
    pub logdir: PathBuf,
    pub evaluations: u64,
    sigs: HashSet<u64>,
    counts: BTreeMap<String, u64>,
    floors: BTreeMap<String, u64>,
    samples: Vec<Value>,
    violations: BTreeMap<String, Violation>,
    notes: Vec<String>,
    start: Instant,
    pub exhaustive: Option<bool>,
    /// families still to come (declared by the property) and the end of the current family's time slice
    families_left: std::cell::Cell<u32>,
    family_deadline: std::cell::Cell<f64>,
}

pub fn hash64<T: Hash + ?Sized>(t: &T) -> u64 {
    // FNV-1a based fixed hasher (stable across runs).
    struct Fnv(u64);
    impl Hasher for Fnv {
        fn finish(&self) -> u64 {
            self.0
        }
        fn write(&mut self, bytes: &[u8]) {
            for b in bytes {
                self.0 ^= *b as u64;
                self.0 = self.0.wrapping_mul(0x100_0000_01b3);
            }
        }
    }
    let mut h = Fnv(0xcbf2_9ce4_8422_2325);
    t.hash(&mut h);
    h.finish()
}

pub fn hex(b: &[u8]) -> String {
    let mut s = String::with_capacity(b.len() * 2);
    for x in b {
        s.push_str(&format!("{:02x}", x));
    }
    s
}

pub fn unhex(s: &str) -> Vec<u8> {
    let s = s.as_bytes();
    let mut v = Vec::with_capacity(s.len() / 2);
    let d = |c: u8| -> u8 {
        match c {
            b'0'..=b'9' => c - b'0',
            b'a'..=b'f' => c - b'a' + 10,
            b'A'..=b'F' => c - b'A' + 10,
            _ => 0,
        }
    };
    let mut i = 0;
    while i + 1 < s.len() {
        v.push(d(s[i]) << 4 | d(s[i + 1]));
        i += 2;
    }
    v
}

impl Ctx {
    #[allow(clippy::too_many_arguments)]
    pub fn new(
        prop: &str,
        tier: Tier,
        seed: u64,
        shard: u64,
        nshards: u64,
        scale: f64,
        mode: &str,
        time_limit_s: f64,
        replay: Option<Value>,
        out: PathBuf,
    ) -> Self {
        let mut slot = out.clone().into_os_string();
        slot.push(".slot");
        slot_init(&PathBuf::from(slot));
        let logdir = out.parent().map(|p| p.to_path_buf()).unwrap_or_default();
        Ctx {
            prop: prop.to_string(),
            tier,
            seed,
            shard,
            nshards,
            scale,
            mode: mode.to_string(),
            time_limit_s,
            replay,
            out,
            logdir,
            evaluations: 0,
            sigs: HashSet::new(),
            counts: BTreeMap::new(),
            floors: BTreeMap::new(),
            samples: Vec::new(),
            violations: BTreeMap::new(),
            notes: Vec::new(),
            start: Instant::now(),
            exhaustive: None,
            families_left: std::cell::Cell::new(0),
            family_deadline: std::cell::Cell::new(0.0),
        }
    }

    pub fn is_quick(&self) -> bool {
        self.tier == Tier::Quick
    }

    /// Tier-dependent total (before sharding), scaled for sanitizer modes.
    pub fn total(&self, quick: u64, thorough: u64) -> u64 {
        let n = if self.is_quick() { quick } else { thorough };
        ((n as f64 * self.scale).ceil() as u64).max(1)
    }

    /// Case indices of this shard among `0..total`, or only the replayed
    /// case. `family` separates index spaces inside one property.
    pub fn cases(&self, family: &str, total: u64) -> Vec<u64> {
        if let Some(r) = &self.replay {
            if r.get("family").and_then(|f| f.as_str()) == Some(family) {
                if let Some(i) = r.get("case").and_then(|c| c.as_u64()) {
                    return vec![i];
                }
            }
            return vec![];
        }
        // under a time limit every declared family gets an equal share of what is left, so that
        // an over-long family cannot starve the ones behind it
        if self.time_limit_s > 0.0 && self.families_left.get() > 0 {
            let now = self.start.elapsed().as_secs_f64();
            let left = (self.time_limit_s - now).max(0.0);
            self.family_deadline.set(now + left / self.families_left.get() as f64);
            self.families_left.set(self.families_left.get() - 1);
        }
        (0..total)
            .filter(|i| i % self.nshards == self.shard)
            .collect()
    }

    /// Declare how many workload families (calls of `cases`) this run goes through.
    pub fn families(&self, n: u32) {
        self.families_left.set(n);
    }

    pub fn replaying(&self) -> bool {
        self.replay.is_some()
    }

    pub fn out_of_time(&self) -> bool {
        if self.time_limit_s <= 0.0 {
            return false;
        }
        let fd = self.family_deadline.get();
        let end = if fd > 0.0 { fd.min(self.time_limit_s) } else { self.time_limit_s };
        self.start.elapsed().as_secs_f64() > end
    }

    pub fn elapsed(&self) -> f64 {
        self.start.elapsed().as_secs_f64()
    }

    /// RNG of one case: a function of (seed, property, family, idx) only.
    pub fn case_rng(&self, family: &str, idx: u64) -> Rng {
        // every case names itself in the write-ahead slot, so that a shard that dies (an abort is not a panic:
        // a failed unsafe-precondition check, a stack overflow, an allocation failure) can be re-run on that case alone
        slot_write(idx, &format!("{}|case", family), &[]);
        Rng::new(&[self.seed, hash64(self.prop.as_str()), hash64(family), idx])
    }

    /// Replay descriptor for a case of this run.
    pub fn replay_of(&self, family: &str, idx: u64, extra: Value) -> Value {
        json!({"property": self.prop, "seed": self.seed, "tier": if self.is_quick() {"quick"} else {"thorough"},
               "family": family, "case": idx, "mode": self.mode, "extra": extra})
    }

    /// Count one evaluation with its outcome signature.
    pub fn eval<T: Hash + ?Sized>(&mut self, sig: &T) {
        self.evaluations += 1;
        if self.sigs.len() < 2_000_000 {
            self.sigs.insert(hash64(sig));
        }
        if self.evaluations & 0x3f == 0 {
            beat();
        }
    }
    /// Count an evaluation that is trivial (no signature).
    pub fn eval_trivial(&mut self) {
        self.evaluations += 1;
        if self.evaluations & 0x3f == 0 {
            beat();
        }
    }
    pub fn evals_n(&mut self, n: u64) {
        beat();
        self.evaluations += n;
    }
    pub fn sig<T: Hash + ?Sized>(&mut self, sig: &T) {
        if self.sigs.len() < 2_000_000 {
            self.sigs.insert(hash64(sig));
        }
    }

    pub fn count(&mut self, key: &str, n: u64) {
        *self.counts.entry(key.to_string()).or_insert(0) += n;
    }
    pub fn get_count(&self, key: &str) -> u64 {
        self.counts.get(key).copied().unwrap_or(0)
    }
    /// Declare a floor: the merged count of `key` must reach `min`, else the
    /// run is inconclusive (checked by the driver for full-scale native runs).
    pub fn floor(&mut self, key: &str, min: u64) {
        self.floors.insert(key.to_string(), min);
        self.counts.entry(key.to_string()).or_insert(0);
    }
    pub fn note(&mut self, s: &str) {
        if !self.notes.iter().any(|n| n == s) {
            self.notes.push(s.to_string());
        }
    }

    pub fn sample(&mut self, v: Value) {
        if self.samples.len() < 4 {
            self.samples.push(v);
        }
    }
    pub fn want_sample(&self) -> bool {
        self.samples.len() < 4
    }

    pub fn violation(&mut self, sig: &str, what: &str, replay: Value) {
        let e = self.violations.entry(sig.to_string()).or_insert(Violation {
            sig: sig.to_string(),
            what: what.to_string(),
            replay,
            count: 0,
        });
        e.count += 1;
    }
    pub fn n_violations(&self) -> usize {
        self.violations.len()
    }

    /// Run `f` under panic capture; a panic becomes a violation
    /// `panic:<site>` and `None` is returned.
    pub fn guard<T>(&mut self, family: &str, idx: u64, extra: impl FnOnce() -> Value, f: impl FnOnce() -> T) -> Option<T> {
        match catch(f) {
            Ok(v) => Some(v),
            Err(pi) => {
                let sig = format!("panic:{}", pi.site());
                let what = format!("panic at {}:{}: {}", pi.file, pi.line, pi.msg);
                let rp = self.replay_of(family, idx, extra());
                self.violation(&sig, &what, rp);
                None
            }
        }
    }

    pub fn finish(self) {
        let mut sigs: Vec<u64> = self.sigs.into_iter().collect();
        sigs.sort_unstable();
        // hashes as hex strings: JSON numbers lose precision past 2^53
        let sigs: Vec<String> = sigs.iter().map(|h| format!("{:x}", h)).collect();
        let v = json!({
            "prop": self.prop, "mode": self.mode,
            "tier": if self.tier == Tier::Quick {"quick"} else {"thorough"},
            "seed": self.seed, "shard": self.shard, "nshards": self.nshards,
            "evaluations": self.evaluations,
            "sig_hashes": sigs,
            "counts": self.counts, "floors": self.floors,
            "samples": self.samples, "notes": self.notes,
            "exhaustive": self.exhaustive,
            "violations": self.violations.values().map(|v| json!({
                "sig": v.sig, "what": v.what, "count": v.count, "replay": v.replay})).collect::<Vec<_>>(),
            "wall_s": self.start.elapsed().as_secs_f64(),
            "complete": true,
        });
        let tmp = self.out.with_extension("tmp");
        std::fs::write(&tmp, serde_json::to_vec(&v).unwrap()).expect("write result");
        std::fs::rename(&tmp, &self.out).expect("rename result");
    }
}
