//! Seeded generators shared by the property modules.
pub mod names;
pub mod rdata;
pub mod msg;
