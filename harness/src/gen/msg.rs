//! Message generator (reference-composed, hand-compressed) and hostile
//! mutators for the read-side properties (C01, C19).
use crate::gen::names;
use crate::gen::rdata as g;
use crate::refimpl::wire::{self as w, Fv};
use crate::rng::Rng;

pub struct GenMsg {
    pub octets: Vec<u8>,
    /// offsets where a name starts (owner, qname, embedded) and where pointers are
    pub name_offsets: Vec<usize>,
    pub pointer_offsets: Vec<usize>,
    /// offsets of RDLENGTH fields
    pub rdlen_offsets: Vec<usize>,
}

struct Comp {
    known: Vec<(Vec<u8>, usize)>,
    enabled: bool,
}

impl Comp {
    /// Append `name`, compressing exact-octet suffix matches when enabled.
    fn put(&mut self, rng: &mut Rng, buf: &mut Vec<u8>, name: &[u8], allow: bool, gm_ptrs: &mut Vec<usize>) {
        let ls = w::labels(name);
        let mut off = 0;
        for l in ls.iter() {
            let sfx = &name[off..];
            if self.enabled && allow {
                if let Some((_, p)) = self.known.iter().find(|(s, p)| s[..] == *sfx && *p < 0x4000) {
                    if rng.chance(5, 6) {
                        gm_ptrs.push(buf.len());
                        buf.push(0xC0 | (*p >> 8) as u8);
                        buf.push(*p as u8);
                        return;
                    }
                }
            }
            self.known.push((sfx.to_vec(), buf.len()));
            buf.push(l.len() as u8);
            buf.extend_from_slice(l);
            off += 1 + l.len();
        }
        buf.push(0);
    }
}

/// A well-formed message. `max_records` bounds the number of records.
pub fn valid_message(rng: &mut Rng, max_records: usize, small: bool) -> GenMsg {
    let pool = g::NamePool::new(rng, 6);
    let mut gm = GenMsg { octets: Vec::new(), name_offsets: vec![], pointer_offsets: vec![], rdlen_offsets: vec![] };
    let nq = match rng.below(10) { 0 => 0, 1 => 2, _ => 1 };
    let mut counts = [nq as u16, 0u16, 0, 0];
    let total = rng.range(0, max_records);
    for _ in 0..total {
        let s = match rng.below(6) { 0..=2 => 1, 3 => 2, _ => 3 };
        counts[s] += 1;
    }
    let flags = match rng.below(4) { 0 => 0x8180u16, 1 => 0x0100, 2 => 0x8400, _ => rng.u16() };
    let mut buf = w::header(rng.u16(), flags, counts);
    let mut comp = Comp { known: vec![], enabled: rng.chance(3, 4) };
    let qname = pool.pick(rng);
    for i in 0..nq {
        gm.name_offsets.push(buf.len());
        let n = if i == 0 { qname.clone() } else { pool.pick(rng) };
        comp.put(rng, &mut buf, &n, true, &mut gm.pointer_offsets);
        let qt = if rng.chance(1, 8) { *rng.pick(&[252u16, 251, 255]) } else { g::pick_type(rng, false) };
        buf.extend_from_slice(&qt.to_be_bytes());
        buf.extend_from_slice(&(if rng.chance(9, 10) { 1u16 } else { rng.u16() }).to_be_bytes());
    }
    let mut cname_from = qname.clone();
    for sec in 1..=3usize {
        for k in 0..counts[sec] {
            let mut t = if sec == 3 && k == counts[3] - 1 && rng.chance(1, 2) {
                *rng.pick(&[w::T_OPT, w::T_TSIG])
            } else {
                g::pick_type(rng, true)
            };
            // CNAME chains in the answer section
            let mut owner = if rng.chance(1, 3) { qname.clone() } else { pool.pick(rng) };
            let mut forced_target = None;
            if sec == 1 && rng.chance(1, 3) {
                t = w::T_CNAME;
                owner = cname_from.clone();
                let tgt = if rng.chance(1, 6) { qname.clone() } else { pool.pick(rng) };
                cname_from = tgt.clone();
                forced_target = Some(tgt);
            }
            if t == w::T_OPT {
                owner = vec![0];
            }
            gm.name_offsets.push(buf.len());
            comp.put(rng, &mut buf, &owner, true, &mut gm.pointer_offsets);
            buf.extend_from_slice(&t.to_be_bytes());
            let class = if t == w::T_OPT { *rng.pick(&[512u16, 1232, 4096, 0, 65535]) } else if t == w::T_TSIG { 255 } else if rng.chance(9, 10) { 1 } else { rng.u16() };
            buf.extend_from_slice(&class.to_be_bytes());
            let ttl = if t == w::T_TSIG { 0 } else { rng.u32() };
            buf.extend_from_slice(&ttl.to_be_bytes());
            let mut np = |r: &mut Rng| if r.chance(1, 8) { names::abs_name(r) } else { pool.pick(r) };
            let mut fs = g::fields(rng, t, &mut np);
            if let Some(tg) = forced_target {
                fs = vec![Fv::Name { wire: tg, lc: true, compress: true }];
            }
            if small {
                for f in fs.iter_mut() {
                    if let Fv::Raw(b) = f {
                        if b.len() > 64 && w::layout(t).map_or(true, |l| matches!(l.last(), Some(w::F::Rest)) && l.len() <= 5) {
                            // shrink opaque tails only where the layout ends in an opaque rest and this is that field
                        }
                    }
                }
            }
            gm.rdlen_offsets.push(buf.len());
            buf.extend_from_slice(&[0, 0]);
            let rs = buf.len();
            for f in &fs {
                match f {
                    Fv::Raw(b) => buf.extend_from_slice(b),
                    Fv::Name { wire, compress, .. } => {
                        gm.name_offsets.push(buf.len());
                        // occasionally compress names of non-RFC1035 types too (liberal senders exist)
                        let allow = *compress || rng.chance(1, 10);
                        comp.put(rng, &mut buf, wire, allow, &mut gm.pointer_offsets);
                    }
                }
            }
            let rdlen = buf.len() - rs;
            if rdlen > 65535 || buf.len() > 65535 {
                // give up on this record: truncate to a valid message without it
                buf.truncate(rs - 2 - 8);
                // remove owner as well is complicated; simply stop here and fix the counts
                // (the remaining counts are too high => this becomes a hostile message, fine)
                gm.octets = buf;
                return gm;
            }
            let l = (rdlen as u16).to_be_bytes();
            buf[rs - 2] = l[0];
            buf[rs - 1] = l[1];
        }
    }
    gm.octets = buf;
    gm
}

const BOUNDARY: [u8; 10] = [0x00, 0x01, 0x3F, 0x40, 0x7F, 0x80, 0xBF, 0xC0, 0xC1, 0xFF];

/// Structure-aware mutation of a valid message. Returns the mutation kind.
pub fn mutate(rng: &mut Rng, gm: &GenMsg) -> (Vec<u8>, &'static str) {
    let mut m = gm.octets.clone();
    if m.len() < 14 {
        return (m, "short");
    }
    // offsets may be stale when mutations are stacked: keep those still inside
    let ml = m.len();
    let gm = &GenMsg {
        octets: Vec::new(),
        name_offsets: gm.name_offsets.iter().copied().filter(|p| p + 2 <= ml).collect(),
        pointer_offsets: gm.pointer_offsets.iter().copied().filter(|p| p + 2 <= ml).collect(),
        rdlen_offsets: gm.rdlen_offsets.iter().copied().filter(|p| p + 2 <= ml).collect(),
    };
    let kind = rng.below(16);
    let name: &'static str;
    match kind {
        0 => {
            // header counts
            let i = 4 + 2 * rng.below(4);
            let v: u16 = match rng.below(5) {
                0 => 0,
                1 => 1,
                2 => 0xFFFF,
                3 => u16::from_be_bytes([m[i], m[i + 1]]).wrapping_add(1),
                _ => u16::from_be_bytes([m[i], m[i + 1]]).wrapping_sub(1),
            };
            m[i..i + 2].copy_from_slice(&v.to_be_bytes());
            name = "count";
        }
        1 => {
            // retarget an existing pointer
            if let Some(&p) = (!gm.pointer_offsets.is_empty()).then(|| rng.pick(&gm.pointer_offsets)) {
                let t: usize = match rng.below(7) {
                    0 => p,                         // self
                    1 => p + 2,                     // forward
                    2 => rng.below(12),             // into the header
                    3 => m.len() + rng.below(10),   // past the end
                    4 => p.saturating_sub(1),       // into its own name
                    5 => rng.below(m.len()),
                    _ => 0x3FFF,
                };
                let t = t.min(0x3FFF);
                m[p] = 0xC0 | (t >> 8) as u8;
                m[p + 1] = t as u8;
            }
            name = "pointer-retarget";
        }
        2 => {
            // turn a name start into a pointer (possibly a cycle)
            if let Some(&p) = (!gm.name_offsets.is_empty()).then(|| rng.pick(&gm.name_offsets)) {
                if p + 2 <= m.len() {
                    let t = match rng.below(4) {
                        0 => p,
                        1 => *rng.pick(&gm.name_offsets),
                        2 => p.saturating_sub(2),
                        _ => rng.below(m.len()),
                    }
                    .min(0x3FFF);
                    m[p] = 0xC0 | (t >> 8) as u8;
                    m[p + 1] = t as u8;
                }
            }
            name = "pointer-inject";
        }
        3 => {
            // two-cycle between two name positions
            if gm.name_offsets.len() >= 2 {
                let a = *rng.pick(&gm.name_offsets);
                let b = *rng.pick(&gm.name_offsets);
                if a + 2 <= m.len() && b + 2 <= m.len() && a.min(0x3FFF) == a && b.min(0x3FFF) == b {
                    m[a] = 0xC0 | (b >> 8) as u8;
                    m[a + 1] = b as u8;
                    m[b] = 0xC0 | (a >> 8) as u8;
                    m[b + 1] = a as u8;
                }
            }
            name = "pointer-cycle";
        }
        4 => {
            // label type bits / length at a name start
            if let Some(&p) = (!gm.name_offsets.is_empty()).then(|| rng.pick(&gm.name_offsets)) {
                if p < m.len() {
                    m[p] = *rng.pick(&[0x40, 0x41, 0x80, 0xBF, 63, 64, 0x3F, 0xFF, 0]);
                }
            }
            name = "label-type";
        }
        5 => {
            // RDLENGTH +-1, 0, 0xFFFF
            if let Some(&p) = (!gm.rdlen_offsets.is_empty()).then(|| rng.pick(&gm.rdlen_offsets)) {
                if p + 2 <= m.len() {
                    let cur = u16::from_be_bytes([m[p], m[p + 1]]);
                    let v = match rng.below(5) { 0 => cur.wrapping_add(1), 1 => cur.wrapping_sub(1), 2 => 0, 3 => 0xFFFF, _ => cur.wrapping_add(rng.below(20) as u16) };
                    m[p..p + 2].copy_from_slice(&v.to_be_bytes());
                }
            }
            name = "rdlen";
        }
        6 => {
            let p = rng.below(m.len() + 1);
            m.truncate(p);
            name = "truncate";
        }
        7 => {
            let p = rng.below(m.len());
            m[p] = *rng.pick(&BOUNDARY);
            name = "boundary-octet";
        }
        8 => {
            let p = rng.below(m.len());
            m[p] ^= 1 << rng.below(8);
            name = "bitflip";
        }
        9 => {
            // inner length fields: pick an octet inside some RDATA and set it
            if let Some(&p) = (!gm.rdlen_offsets.is_empty()).then(|| rng.pick(&gm.rdlen_offsets)) {
                if p + 2 <= m.len() {
                    let l = u16::from_be_bytes([m[p], m[p + 1]]) as usize;
                    if l > 0 && p + 2 + l <= m.len() {
                        let q = p + 2 + rng.below(l);
                        m[q] = *rng.pick(&BOUNDARY);
                    }
                }
            }
            name = "rdata-inner";
        }
        10 => {
            // 63/64-octet labels, 254/255/256-octet names appended as an extra question
            let l = rng.range(250, 258);
            let n = names::max_name(rng, l);
            let qd = u16::from_be_bytes([m[4], m[5]]);
            // only sensible when there are no records; otherwise this shifts the layout (still a fine hostile input)
            let mut nm = m[..12].to_vec();
            nm[4..6].copy_from_slice(&qd.wrapping_add(1).to_be_bytes());
            nm.extend_from_slice(&n);
            nm.extend_from_slice(&[0, 1, 0, 1]);
            nm.extend_from_slice(&m[12..]);
            m = nm;
            name = "long-name";
        }
        11 => {
            // chain of pointers of maximal depth: p_k -> p_{k-1} ... -> a name
            let base = m.len();
            let depth = rng.range(2, 130);
            m.extend_from_slice(&[1, b'x', 0]);
            let mut prev = base;
            for _ in 0..depth {
                let here = m.len();
                if prev > 0x3FFF {
                    break;
                }
                m.push(1);
                m.push(b'y');
                m.push(0xC0 | (prev >> 8) as u8);
                m.push(prev as u8);
                prev = here;
            }
            // make the first question name point at the chain head
            if m.len() > 14 && prev <= 0x3FFF && u16::from_be_bytes([m[4], m[5]]) > 0 {
                m[12] = 0xC0 | (prev >> 8) as u8;
                m[13] = prev as u8;
            }
            name = "pointer-chain";
        }
        12 => {
            let p = rng.below(m.len());
            let n = rng.range(1, 8);
            for _ in 0..n {
                m.insert(p, rng.u8());
            }
            name = "insert";
        }
        13 => {
            let p = rng.below(m.len());
            let n = rng.range(1, 8).min(m.len() - p);
            m.drain(p..p + n);
            name = "delete";
        }
        14 => {
            // several independent byte edits
            for _ in 0..rng.range(2, 6) {
                let p = rng.below(m.len());
                m[p] = rng.u8();
            }
            name = "multi-byte";
        }
        _ => {
            m.extend(rng.bytes(rng.clone().range(1, 30)));
            name = "append";
        }
    }
    m.truncate(65535);
    (m, name)
}

/// A well-framed message (counts, names and RDLENGTHs all consistent) whose
/// records carry nested structures that are framed correctly but violate what
/// the inner keys or codes demand: SVCB/HTTPS parameters and EDNS options.
/// Outer parsing succeeds, so the typed readers and the display code are reached.
pub fn typed_hostile_message(rng: &mut Rng) -> Vec<u8> {
    use crate::gen::rdata as g;
    let nrec = rng.range(1, 3);
    let with_opt = rng.chance(1, 2);
    let mut m = w::header(rng.u16(), *rng.pick(&[0x0100u16, 0x8180, 0x8400]), [1, nrec as u16, 0, with_opt as u16]);
    let qn = names::abs_name(rng);
    m.extend_from_slice(&qn);
    m.extend_from_slice(&[0, 65, 0, 1]);
    for _ in 0..nrec {
        let t = *rng.pick(&[64u16, 65]);
        let mut rd = match rng.below(3) { 0 => vec![0, 0], 1 => vec![0, 1], _ => rng.u16().to_be_bytes().to_vec() };
        if rng.chance(1, 3) { rd.extend_from_slice(&names::abs_name(rng)) } else { rd.push(0) };
        rd.extend_from_slice(&g::hostile_svcparams(rng));
        // owner: pointer to the question name
        m.extend_from_slice(&[0xC0, 12]);
        m.extend_from_slice(&t.to_be_bytes());
        m.extend_from_slice(&[0, 1, 0, 0, 0, 60]);
        m.extend_from_slice(&(rd.len() as u16).to_be_bytes());
        m.extend_from_slice(&rd);
    }
    if with_opt {
        let rd = g::hostile_options(rng);
        m.push(0);
        m.extend_from_slice(&[0, 41, 0x04, 0xD0, 0, 0, if rng.bool() { 0x80 } else { 0 }, 0]);
        m.extend_from_slice(&(rd.len() as u16).to_be_bytes());
        m.extend_from_slice(&rd);
    }
    m
}

/// A well-formed message whose names first occur late: a filler record pushes everything
/// behind offsets 8192 and up to the 16383 a pointer can express, and the records that follow
/// refer to each other's names through pointers with large targets.
pub fn late_pointer_message(rng: &mut Rng) -> Vec<u8> {
    let k = rng.range(2, 6);
    let mut m = w::header(rng.u16(), 0x8180, [1, 1 + k as u16, 0, 0]);
    m.extend_from_slice(&[0, 0, 1, 0, 1]); // question: the root name, A
    // filler: one record of an unknown type
    let fill = match rng.below(4) {
        0 => rng.range(8150, 8250),
        1 => rng.range(16200, 16420),
        2 => rng.range(4000, 8100),
        _ => rng.range(8300, 16200),
    };
    m.push(0);
    m.extend_from_slice(&[0xff, 0x00, 0, 1, 0, 0, 0, 1]);
    m.extend_from_slice(&(fill as u16).to_be_bytes());
    m.extend(std::iter::repeat(*rng.pick(&[0u8, 0x80, 0xC0, 0x3f])).take(fill));
    // records whose owner and target names chain onto earlier ones
    let mut name_starts: Vec<usize> = Vec::new();
    for i in 0..k {
        // owner: some labels, then a pointer to an earlier name (or the root label)
        let mut owner = Vec::new();
        for _ in 0..rng.range(if name_starts.is_empty() { 1 } else { 0 }, 2) {
            let l = names::small_label(rng);
            owner.push(l.len() as u8);
            owner.extend_from_slice(&l);
        }
        match (!name_starts.is_empty() && rng.chance(3, 4)).then(|| *rng.pick(&name_starts)) {
            Some(t) if t <= 0x3FFF => {
                owner.push(0xC0 | (t >> 8) as u8);
                owner.push(t as u8);
            }
            _ => owner.push(0),
        }
        let here = m.len();
        m.extend_from_slice(&owner);
        name_starts.push(here);
        // NS with a target that is literal labels + pointer to this record's owner
        let mut target = Vec::new();
        let l = names::small_label(rng);
        target.push(l.len() as u8);
        target.extend_from_slice(&l);
        if here <= 0x3FFF && rng.chance(3, 4) {
            target.push(0xC0 | (here >> 8) as u8);
            target.push(here as u8);
        } else {
            target.push(0);
        }
        m.extend_from_slice(&[0, if i % 2 == 0 { 2 } else { 5 }, 0, 1, 0, 0, 0, 60]);
        m.extend_from_slice(&(target.len() as u16).to_be_bytes());
        let tstart = m.len();
        m.extend_from_slice(&target);
        name_starts.push(tstart);
    }
    m
}

/// Random octets with a valid-looking header.
pub fn random_message(rng: &mut Rng) -> Vec<u8> {
    let len = match rng.below(10) {
        0 => rng.range(0, 12),
        1 => rng.range(600, 5000),
        _ => rng.range(12, 200),
    };
    let mut m = rng.bytes(len);
    if m.len() >= 12 {
        for i in 0..4 {
            let v: u16 = match rng.below(6) { 0 => 0, 1 | 2 => 1, 3 => 2, 4 => rng.below(8) as u16, _ => rng.u16() };
            m[4 + 2 * i..6 + 2 * i].copy_from_slice(&v.to_be_bytes());
        }
        // bias body octets to label-ish values
        if rng.bool() {
            for b in m[12..].iter_mut() {
                if rng.chance(1, 3) {
                    *b = *rng.pick(&[0, 1, 2, 3, 0xC0, 0x0C, b'a', 0, 0, 1, 41, 250, 5]);
                }
            }
        }
    }
    m
}
