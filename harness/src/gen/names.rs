//! Name generators: uncompressed wire names built for collisions (shared
//! suffixes, case variants, boundary lengths) and presentation text.
use crate::rng::Rng;

/// A label's octets (1..=63), biased towards letters, with hostile octets mixed in.
pub fn label(rng: &mut Rng, maxlen: usize) -> Vec<u8> {
    let maxlen = maxlen.clamp(1, 63);
    let len = match rng.below(12) {
        0 => maxlen,
        1 => 1,
        2 => rng.range(1, maxlen),
        _ => rng.range(1, maxlen.min(8)),
    };
    let style = rng.below(10);
    (0..len)
        .map(|_| match style {
            0 => rng.u8(),
            1 => *rng.pick(&[0x00, 0x20, b'.', b'\\', b'"', b';', b'(', b')', b'@', b'$', b'*', b'#', 0x7f, 0xff, 0x40, 0x41, 0x5a, 0x5b, 0x60, 0x61, 0x7a, 0x7b, b'-', b'_', b'0']),
            2 => *rng.pick(b"ABCabc"),
            _ => *rng.pick(b"abcdefghijklmnopqrstuvwxyzABCDEFXYZ0123456789-"),
        })
        .collect()
}

/// A small-alphabet label: collisions are frequent.
pub fn small_label(rng: &mut Rng) -> Vec<u8> {
    let words: [&[u8]; 12] = [b"a", b"b", b"A", b"www", b"WWW", b"mail", b"example", b"Example", b"com", b"org", b"*", b"ns1"];
    rng.pick(&words).to_vec()
}

pub fn from_labels(ls: &[Vec<u8>]) -> Vec<u8> {
    let mut v = Vec::new();
    for l in ls {
        v.push(l.len() as u8);
        v.extend_from_slice(l);
    }
    v.push(0);
    v
}

/// A valid absolute name in uncompressed wire format.
pub fn abs_name(rng: &mut Rng) -> Vec<u8> {
    match rng.below(20) {
        0 => vec![0],
        1 => {
            if rng.bool() {
                max_name(rng, 255)
            } else {
                many_labels(rng)
            }
        }
        2 => {
            let l = rng.range(200, 254);
            max_name(rng, l)
        }
        3..=10 => {
            // small alphabet, shared suffixes
            let n = rng.range(1, 4);
            let ls: Vec<Vec<u8>> = (0..n).map(|_| small_label(rng)).collect();
            from_labels(&ls)
        }
        _ => {
            let n = rng.range(1, 6);
            let mut ls = Vec::new();
            let mut total = 1;
            for _ in 0..n {
                let l = label(rng, 63);
                if total + l.len() + 1 > 255 {
                    break;
                }
                total += l.len() + 1;
                ls.push(l);
            }
            from_labels(&ls)
        }
    }
}

/// A name with as many labels as a name can have: 127 labels of one octet and the root label (255 octets), or
/// one or two fewer. Code that keeps per-label bookkeeping in fixed-size storage is sized by this.
pub fn many_labels(rng: &mut Rng) -> Vec<u8> {
    let n = *rng.pick(&[127usize, 127, 127, 126, 125]);
    let c = *rng.pick(b"abXY01");
    let mut v = Vec::with_capacity(2 * n + 1);
    for _ in 0..n {
        v.push(1);
        v.push(if rng.chance(1, 8) { *rng.pick(b"abXY01-") } else { c });
    }
    v.push(0);
    v
}

/// A valid absolute name of exactly `len` octets (1 or 3..=255; 2 yields 3).
pub fn max_name(rng: &mut Rng, len: usize) -> Vec<u8> {
    let mut v = Vec::new();
    let mut rem = len.saturating_sub(1); // root
    if rem == 1 {
        rem = 2;
    }
    while rem > 0 {
        // a label of l octets consumes l + 1; parts must be in 2..=64 and leave 0 or >= 2
        let part = if rem <= 64 && (rng.chance(1, 2) || rem < 4) {
            rem
        } else {
            let mx = 64.min(rem - 2);
            if rng.chance(1, 2) { mx } else { rng.range(2, mx) }
        };
        let l = part - 1;
        v.push(l as u8);
        let c = *rng.pick(b"abcXYZ019");
        for _ in 0..l {
            v.push(if rng.chance(1, 6) { *rng.pick(b"abcXYZ019-") } else { c });
        }
        rem -= part;
    }
    v.push(0);
    v
}

/// A valid relative name (no root), at most `maxlen` octets.
pub fn rel_name(rng: &mut Rng, maxlen: usize) -> Vec<u8> {
    let mut n = abs_name(rng);
    n.pop();
    while n.len() > maxlen {
        // drop first label
        let l = n[0] as usize + 1;
        n.drain(..l);
    }
    n
}

/// Flip the ASCII case of random letters (labels' length octets untouched).
pub fn case_variant(rng: &mut Rng, name: &[u8]) -> Vec<u8> {
    let mut v = name.to_vec();
    let mut p = 0;
    while p < v.len() {
        let l = v[p] as usize;
        if l == 0 || l > 63 {
            break;
        }
        for i in p + 1..(p + 1 + l).min(v.len()) {
            if v[i].is_ascii_alphabetic() && rng.chance(1, 2) {
                v[i] ^= 0x20;
            }
        }
        p += 1 + l;
    }
    v
}

/// Presentation text of an uncompressed name, with a seeded choice among the
/// escape forms of RFC 1035 §5.1 (`\X`, `\DDD`, plain).
pub fn presentation(rng: &mut Rng, name: &[u8], trailing_dot: bool) -> String {
    let mut s = String::new();
    let mut p = 0;
    let mut first = true;
    while p < name.len() {
        let l = name[p] as usize;
        if l == 0 {
            break;
        }
        if !first {
            s.push('.');
        }
        first = false;
        for (ci, &c) in name[p + 1..p + 1 + l].iter().enumerate() {
            // `\[` at the start of a label is the RFC 2673 binary-label
            // marker, which the library documents as unsupported: use \DDD.
            let printable = c > 0x20 && c < 0x7f && !(ci == 0 && c == b'[');
            let special = matches!(c, b'.' | b'\\' | b'"' | b';' | b'(' | b')' | b'@' | b'$' | b' ');
            if !printable || rng.chance(1, 12) {
                s.push_str(&format!("\\{:03}", c));
            } else if special || (rng.chance(1, 12) && !c.is_ascii_digit() && (c != b'#' || ci > 0 || p > 0 || l > 1)) {
                // ('\\#' standing alone is the RFC 3597 generic-RDATA marker; glued to further
                // characters of the same token it is an escaped '#')
                s.push('\\');
                s.push(c as char);
            } else {
                s.push(c as char);
            }
        }
        p += 1 + l;
    }
    if trailing_dot || s.is_empty() {
        s.push('.');
    }
    s
}

/// Hostile presentation text.
pub fn hostile_text(rng: &mut Rng) -> String {
    let n = rng.range(0, 40);
    let mut s = String::new();
    for _ in 0..n {
        match rng.below(14) {
            0 => s.push('.'),
            1 => s.push('\\'),
            2 => s.push_str(&format!("\\{:03}", rng.below(400))),
            3 => s.push_str("\\["),
            4 => s.push(*rng.pick(&['"', ';', '(', ')', '@', '$', ' ', '\t', '\n', '\u{0}', '\u{7f}', '\u{e9}', '\u{1F600}'])),
            5 => {
                for _ in 0..rng.range(1, 70) {
                    s.push('x');
                }
            }
            6 => s.push_str("\\1"),
            7 => s.push_str(".."),
            _ => s.push(*rng.pick(&['a', 'b', 'Z', '0', '-', '_', '*'])),
        }
    }
    if rng.chance(1, 10) {
        // overlong: many labels
        for _ in 0..rng.range(30, 140) {
            s.push_str("ab.");
        }
    }
    s
}

/// Hostile wire octets "near" a valid name.
pub fn hostile_wire(rng: &mut Rng) -> Vec<u8> {
    let mut v = match rng.below(4) {
        0 => rng.bytes(rng.clone().range(0, 20)),
        _ => abs_name(rng),
    };
    for _ in 0..rng.range(0, 3) {
        if v.is_empty() {
            v.push(rng.u8());
            continue;
        }
        let p = rng.below(v.len());
        match rng.below(8) {
            0 => v[p] = rng.u8(),
            1 => v[p] = *rng.pick(&[0, 1, 63, 64, 65, 0x7f, 0x80, 0xbf, 0xc0, 0xc1, 0xff]),
            2 => {
                v.remove(p);
            }
            3 => v.insert(p, 0),
            4 => v.truncate(p),
            5 => v.push(0),
            6 => {
                // extend beyond 255
                let mut e = max_name(rng, 200);
                e.pop();
                let mut nv = e;
                nv.extend_from_slice(&v);
                v = nv;
            }
            _ => v.extend_from_slice(&[3, b'a', b'b', b'c']),
        }
    }
    v
}
