//! Table-driven record-data generator: produces RFC-valid RDATA as decoded
//! fields (`Fv`) for every type of `refimpl::wire::layout`, with boundary
//! sizes; the reference composer turns them into wire octets.
use crate::gen::names;
use crate::refimpl::wire::*;
use crate::rng::Rng;

/// Types that may appear in zone files (ZoneRecordData) — everything known
/// except the pseudo types OPT, TSIG and NULL.
pub fn zone_types() -> Vec<u16> {
    KNOWN_TYPES.iter().copied().filter(|t| !matches!(*t, T_OPT | T_TSIG | T_NULL)).collect()
}

fn charstr(rng: &mut Rng) -> Vec<u8> {
    let len = match rng.below(12) {
        0 => 0,
        1 => 255,
        2 => rng.range(200, 255),
        _ => rng.range(0, 12),
    };
    let style = rng.below(6);
    let mut v = vec![len as u8];
    for _ in 0..len {
        v.push(match style {
            0 => rng.u8(),
            1 => *rng.pick(&[b'"', b'\\', b' ', b';', b'(', b')', b'\n', 0, 0x7f, 0xff, b'@', b'$']),
            _ => *rng.pick(b"abcdefghijklmnopqrstuvwxyzABCXYZ0123456789 =-._"),
        });
    }
    v
}

fn opaque(rng: &mut Rng, min: usize, max: usize) -> Vec<u8> {
    let len = match rng.below(12) {
        0 => min,
        1 => max.min(min + 300),
        2 => rng.range(min, max.min(min + 2000)),
        _ => rng.range(min, max.min(min + 40)),
    };
    rng.bytes(len)
}

pub fn bitmap_of(types: &[u16]) -> Vec<u8> {
    let mut ts: Vec<u16> = types.to_vec();
    ts.sort_unstable();
    ts.dedup();
    let mut out = Vec::new();
    let mut i = 0;
    while i < ts.len() {
        let w = (ts[i] >> 8) as u8;
        let mut bits = [0u8; 32];
        let mut maxo = 0;
        while i < ts.len() && (ts[i] >> 8) as u8 == w {
            let lo = (ts[i] & 0xff) as usize;
            bits[lo / 8] |= 0x80 >> (lo % 8);
            maxo = maxo.max(lo / 8);
            i += 1;
        }
        out.push(w);
        out.push((maxo + 1) as u8);
        out.extend_from_slice(&bits[..=maxo]);
    }
    out
}

fn bitmap(rng: &mut Rng) -> Vec<u8> {
    let n = match rng.below(8) {
        0 => 0,
        1 => rng.range(20, 60),
        _ => rng.range(1, 6),
    };
    let ts: Vec<u16> = (0..n)
        .map(|_| match rng.below(5) {
            0 => rng.u16(),
            1 => *rng.pick(&[0u16, 255, 256, 257, 65535, 65280, 511, 512]),
            _ => *rng.pick(KNOWN_TYPES),
        })
        .collect();
    bitmap_of(&ts)
}

pub fn svcparams(rng: &mut Rng) -> Vec<u8> {
    // keys strictly increasing; known keys get well-formed values
    let n = rng.range(0, 5);
    let mut keys: Vec<u16> = (0..n)
        .map(|_| match rng.below(4) {
            0 => rng.u16(),
            1 => *rng.pick(&[7u16, 8, 9, 100, 65280, 65534, 65535]),
            _ => rng.below(7) as u16,
        })
        .collect();
    keys.sort_unstable();
    keys.dedup();
    // "mandatory" (0) needs to list keys that are present and not itself; keep it simple: drop key 0 unless another key exists
    let mut out = Vec::new();
    for &k in &keys {
        let val: Vec<u8> = match k {
            0 => {
                let others: Vec<u16> = keys.iter().copied().filter(|x| *x != 0).collect();
                if others.is_empty() {
                    continue;
                }
                let mut v = Vec::new();
                for o in others {
                    v.extend_from_slice(&o.to_be_bytes());
                }
                v
            }
            1 => {
                // alpn: one or more non-empty length-prefixed ids
                let mut v = Vec::new();
                for _ in 0..rng.range(1, 3) {
                    let id = *rng.pick(&[&b"h2"[..], b"h3", b"http/1.1", b"a,b", b"a\\b"]);
                    v.push(id.len() as u8);
                    v.extend_from_slice(id);
                }
                v
            }
            2 => vec![],
            3 => rng.u16().to_be_bytes().to_vec(),
            4 => rng.bytes(4 * rng.clone().range(1, 3)),
            5 => opaque(rng, 1, 60),
            6 => rng.bytes(16 * rng.clone().range(1, 2)),
            // dohpath (RFC 9461): a UTF-8 URI template
            7 => rng.pick(&[&b"/dns-query{?dns}"[..], b"/q{?dns}", b"/dns-query{?dns}&x=%20y"]).to_vec(),
            // ohttp (RFC 9540): no value
            8 => vec![],
            // tls-supported-groups: distinct 16-bit identifiers
            9 => {
                let n = rng.range(1, 4);
                let mut ids: Vec<u16> = (0..n).map(|_| rng.u16()).collect();
                ids.sort_unstable();
                ids.dedup();
                ids.iter().flat_map(|x| x.to_be_bytes()).collect()
            }
            _ => opaque(rng, 0, 60),
        };
        out.extend_from_slice(&k.to_be_bytes());
        out.extend_from_slice(&(val.len() as u16).to_be_bytes());
        out.extend_from_slice(&val);
    }
    out
}

pub fn options(rng: &mut Rng) -> Vec<u8> {
    let mut out = Vec::new();
    for _ in 0..rng.range(0, 4) {
        let (code, val): (u16, Vec<u8>) = match rng.below(12) {
            0 => (3, opaque(rng, 0, 30)),                       // NSID
            1 => (5, rng.bytes(rng.clone().range(0, 4))),       // DAU
            2 => (6, rng.bytes(rng.clone().range(0, 4))),       // DHU
            3 => (7, rng.bytes(rng.clone().range(0, 4))),       // N3U
            4 => {
                // client subnet: family, source prefix, scope prefix, address (ceil(source/8) octets)
                let v4 = rng.bool();
                let maxp = if v4 { 32 } else { 128 };
                let sp = rng.range(0, maxp);
                let n = (sp + 7) / 8;
                let mut addr = rng.bytes(n);
                if sp % 8 != 0 {
                    let keep = 0xffu8 << (8 - sp % 8);
                    addr[n - 1] &= keep;
                }
                let mut v = vec![0, if v4 { 1 } else { 2 }, sp as u8, 0];
                v.extend_from_slice(&addr);
                (8, v)
            }
            5 => (9, rng.u32().to_be_bytes().to_vec()),          // expire
            6 => {
                // cookie: 8 client + (0 or 8..32 server)
                let mut v = rng.bytes(8);
                if rng.bool() {
                    let l = match rng.below(4) { 0 => 8, 1 => 32, _ => rng.range(8, 32) };
                    v.extend(rng.bytes(l));
                }
                (10, v)
            }
            7 => (11, rng.u16().to_be_bytes().to_vec()),         // tcp keepalive
            8 => (12, vec![0; rng.range(0, 40)]),                // padding
            9 => (14, rng.bytes(2 * rng.clone().range(0, 3))),   // key tag
            10 => {
                let mut v = rng.u16().to_be_bytes().to_vec();    // extended error
                match rng.below(4) {
                    0 => {}
                    1 => v.extend_from_slice(b"some text"),
                    2 => v.extend_from_slice("gr\u{fc}\u{df}e \u{2713}".as_bytes()),
                    // RFC 8914 wants UTF-8; the parser deliberately keeps anything else as raw octets
                    _ => v.extend(rng.bytes(rng.clone().range(1, 12))),
                }
                (15, v)
            }
            _ => (rng.range(20, 65000) as u16, opaque(rng, 0, 30)),
        };
        out.extend_from_slice(&code.to_be_bytes());
        out.extend_from_slice(&(val.len() as u16).to_be_bytes());
        out.extend_from_slice(&val);
    }
    out
}

const HOSTILE_LENS: [usize; 20] = [0, 1, 2, 3, 4, 5, 6, 7, 8, 9, 12, 15, 16, 17, 20, 24, 31, 32, 33, 48];

/// SVCB parameters whose framing is intact but whose values need not satisfy
/// what their keys demand (wrong widths for port, hints, mandatory, alpn ...),
/// with keys mostly, not always, in ascending order.
pub fn hostile_svcparams(rng: &mut Rng) -> Vec<u8> {
    let n = rng.range(1, 5);
    let mut keys: Vec<u16> = (0..n).map(|_| if rng.chance(1, 8) { rng.u16() } else { rng.below(11) as u16 }).collect();
    if !rng.chance(1, 6) {
        keys.sort_unstable();
        if !rng.chance(1, 6) {
            keys.dedup();
        }
    }
    let mut out = Vec::new();
    for k in keys {
        let val: Vec<u8> = match rng.below(6) {
            // well-formed for the key now and then, so that later values are reached
            0 => match k {
                1 => vec![2, b'h', b'2'],
                3 => vec![1, 187],
                4 => rng.bytes(4),
                6 => rng.bytes(16),
                _ => vec![],
            },
            // length-prefixed pieces (alpn-like) that may overrun
            1 => {
                let mut v = Vec::new();
                for _ in 0..rng.range(1, 3) {
                    let l = rng.range(0, 6);
                    v.push(if rng.chance(1, 4) { (l + rng.range(1, 200)) as u8 } else { l as u8 });
                    v.extend(rng.bytes(l));
                }
                v
            }
            _ => rng.bytes(*rng.clone().pick(&HOSTILE_LENS)),
        };
        out.extend_from_slice(&k.to_be_bytes());
        out.extend_from_slice(&(val.len() as u16).to_be_bytes());
        out.extend_from_slice(&val);
    }
    out
}

/// EDNS options whose framing is intact but whose data lengths need not suit their codes.
pub fn hostile_options(rng: &mut Rng) -> Vec<u8> {
    let mut out = Vec::new();
    for _ in 0..rng.range(1, 4) {
        let code: u16 = if rng.chance(1, 8) { rng.u16() } else { *rng.pick(&[3u16, 5, 6, 7, 8, 9, 10, 11, 12, 13, 14, 15, 16, 17]) };
        let mut val = rng.bytes(*rng.clone().pick(&HOSTILE_LENS));
        if code == 8 && !val.is_empty() && rng.bool() {
            // client subnet: plausible family, arbitrary prefix lengths
            val[0] = 0;
            if val.len() > 1 {
                val[1] = *rng.pick(&[0u8, 1, 2, 3]);
            }
            if val.len() > 2 {
                val[2] = *rng.pick(&[0u8, 1, 7, 8, 24, 32, 33, 64, 128, 129, 255]);
            }
        }
        out.extend_from_slice(&code.to_be_bytes());
        out.extend_from_slice(&(val.len() as u16).to_be_bytes());
        out.extend_from_slice(&val);
    }
    out
}

/// Generate the decoded fields of one RDATA value of type `t`; for unknown
/// types an opaque blob.
pub fn fields(rng: &mut Rng, t: u16, name_pool: &mut dyn FnMut(&mut Rng) -> Vec<u8>) -> Vec<Fv> {
    let lay = match layout(t) {
        Some(l) => l,
        None => return vec![Fv::Raw(opaque(rng, 0, 500))],
    };
    let mut out = Vec::new();
    let mut gw = 0u8;
    for (i, f) in lay.iter().enumerate() {
        match *f {
            F::U8 => {
                let mut v = match rng.below(4) {
                    0 => 0,
                    1 => 255,
                    _ => rng.u8(),
                };
                if t == T_IPSECKEY && i == 1 {
                    v = rng.below(4) as u8;
                    gw = v;
                }
                out.push(Fv::Raw(vec![v]));
            }
            F::U16 => out.push(Fv::Raw(match rng.below(4) {
                0 => vec![0, 0],
                1 => vec![0xff, 0xff],
                _ => rng.u16().to_be_bytes().to_vec(),
            })),
            F::U32 => out.push(Fv::Raw(match rng.below(4) {
                0 => vec![0; 4],
                1 => vec![0xff; 4],
                _ => rng.u32().to_be_bytes().to_vec(),
            })),
            F::U48 => out.push(Fv::Raw(rng.bytes(6))),
            F::Ipv4 => out.push(Fv::Raw(rng.bytes(4))),
            F::Ipv6 => out.push(Fv::Raw(match rng.below(4) {
                0 => vec![0; 16],
                1 => {
                    let mut v = vec![0; 10];
                    v.extend_from_slice(&[0xff, 0xff]);
                    v.extend(rng.bytes(4));
                    v
                }
                _ => rng.bytes(16),
            })),
            F::Name { compress, lc } => out.push(Fv::Name { wire: name_pool(rng), lc, compress }),
            F::CharStr => {
                if t == T_CAA {
                    // RFC 8659: tag = 1*(ALPHA / DIGIT)
                    let l = rng.range(1, 15);
                    let mut v = vec![l as u8];
                    for _ in 0..l {
                        v.push(*rng.pick(b"abcdefghijklmnopqrstuvwxyz0123456789"));
                    }
                    out.push(Fv::Raw(v));
                } else {
                    out.push(Fv::Raw(charstr(rng)));
                }
            }
            F::Len8 => {
                let l = if t == T_NSEC3 && i == 4 {
                    // next hashed owner: 1..255, mostly SHA-1 sized
                    if rng.chance(3, 4) { 20 } else { rng.range(1, 255) }
                } else {
                    match rng.below(6) { 0 => 0, 1 => 255, _ => rng.range(0, 16) }
                };
                let mut v = vec![l as u8];
                v.extend(rng.bytes(l));
                out.push(Fv::Raw(v));
            }
            F::CharStrList => {
                let n = match rng.below(8) { 0 => rng.range(5, 30), _ => rng.range(1, 3) };
                let mut v = Vec::new();
                for _ in 0..n {
                    v.extend(charstr(rng));
                }
                out.push(Fv::Raw(v));
            }
            F::Len16 => {
                let l = match rng.below(6) { 0 => 0, 1 => rng.range(64, 600), _ => rng.range(0, 64) };
                let mut v = (l as u16).to_be_bytes().to_vec();
                v.extend(rng.bytes(l));
                out.push(Fv::Raw(v));
            }
            F::Bitmap => {
                let mut b = bitmap(rng);
                if t == T_NSEC && b.is_empty() {
                    // an NSEC lists at least NSEC and RRSIG
                    b = bitmap_of(&[T_RRSIG, T_NSEC]);
                }
                out.push(Fv::Raw(b));
            }
            F::Rest => {
                let min = match t {
                    T_ZONEMD => 12,
                    // RFC 4025 2.4/2.6: algorithm 0 means "no key"; any other
                    // algorithm comes with a key
                    T_IPSECKEY => {
                        let alg = match &out[2] { Fv::Raw(b) => b[0], _ => 0 };
                        if alg == 0 { 0 } else { 1 }
                    }
                    _ => 0,
                };
                out.push(Fv::Raw(opaque(rng, min, 4000)));
            }
            F::IpsecGateway => match gw {
                0 => out.push(Fv::Raw(vec![])),
                1 => out.push(Fv::Raw(rng.bytes(4))),
                2 => out.push(Fv::Raw(rng.bytes(16))),
                _ => out.push(Fv::Name { wire: name_pool(rng), lc: false, compress: false }),
            },
            F::SvcParams => out.push(Fv::Raw(svcparams(rng))),
            F::Options => out.push(Fv::Raw(options(rng))),
        }
    }
    out
}

/// A name pool that makes sharing and case collisions frequent.
pub struct NamePool {
    pub names: Vec<Vec<u8>>,
}

impl NamePool {
    pub fn new(rng: &mut Rng, size: usize) -> Self {
        let mut names_v: Vec<Vec<u8>> = Vec::new();
        let bases: Vec<Vec<u8>> = (0..3).map(|_| names::abs_name(rng)).collect();
        while names_v.len() < size {
            let n = match rng.below(10) {
                0 => names::abs_name(rng),
                1 => {
                    let b = rng.pick(&bases).clone();
                    names::case_variant(rng, &b)
                }
                2 | 3 => rng.pick(&bases).clone(),
                _ => {
                    // child of a base (shared suffix)
                    let b = rng.pick(&bases).clone();
                    let l = if rng.chance(1, 10) { names::label(rng, 63) } else { names::small_label(rng) };
                    if l.len() + 1 + b.len() <= 255 {
                        let mut v = vec![l.len() as u8];
                        v.extend_from_slice(&l);
                        v.extend_from_slice(&b);
                        v
                    } else {
                        b
                    }
                }
            };
            names_v.push(n);
        }
        NamePool { names: names_v }
    }
    pub fn pick(&self, rng: &mut Rng) -> Vec<u8> {
        rng.pick(&self.names).clone()
    }
}

/// Pick a record type, weighting name-bearing (compressible) types up.
pub fn pick_type(rng: &mut Rng, allow_pseudo: bool) -> u16 {
    loop {
        let t = match rng.below(10) {
            0..=2 => *rng.pick(&[T_NS, T_CNAME, T_SOA, T_MX, T_PTR, T_MINFO, T_MB, T_MG, T_MR, T_MD, T_MF]),
            3 => *rng.pick(&[T_SRV, T_NAPTR, T_RP, T_DNAME, T_RRSIG, T_NSEC, T_SVCB, T_HTTPS, T_IPSECKEY]),
            4 => match rng.below(3) { 0 => rng.u16(), _ => *rng.pick(&[99u16, 255, 256, 1234, 65280, 65534]) },
            _ => *rng.pick(KNOWN_TYPES),
        };
        if !allow_pseudo && matches!(t, T_OPT | T_TSIG) {
            continue;
        }
        // meta/question-only types never carry data
        if matches!(t, 0 | 251..=255) {
            continue;
        }
        return t;
    }
}
