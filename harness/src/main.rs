//! dverif — runtime-monitoring harness for NLnetLabs/domain (see /verif/DESIGN.md).
#![allow(clippy::type_complexity, clippy::too_many_arguments, dead_code)]

mod ctx;
mod rng;
mod sd;
mod refimpl;
mod gen;
mod p01;
mod p02;
mod p03;
mod p04;
mod p05;
mod p06;
mod p07;
mod p08;
mod p09;
mod p10;
#[cfg(feature = "crypto")]
mod p11;
#[cfg(feature = "crypto")]
mod p12;
#[cfg(feature = "crypto")]
mod p13;
#[cfg(feature = "crypto")]
mod p14;
mod p15;
mod p16;
mod zlib;
mod zmodel;
mod p17;
mod p18;
mod p19;
mod p20;

use ctx::{Ctx, Tier};
use std::path::PathBuf;

fn usage() -> ! {
    eprintln!("usage: dverif <C01..C20> [--tier quick|thorough] [--seed N] [--shard i/n] [--scale F] [--mode M] [--time-limit S] [--cpu-budget S] [--replay FILE] --out FILE");
    std::process::exit(2)
}

fn main() {
    let args: Vec<String> = std::env::args().collect();
    if args.len() < 2 {
        usage();
    }
    let prop = args[1].clone();
    if prop == "ZF" {
        // debugging aid: dverif ZF <file> [origin-text]
        let t = std::fs::read(&args[2]).expect("read");
        let origin = args.get(3).map(|o| { use std::str::FromStr; domain::base::Name::<Vec<u8>>::from_str(o).unwrap().as_slice().to_vec() });
        match p06::read_zonefile(&t, origin.as_deref(), true) {
            Ok(v) => for r in v { println!("{} class {} ttl {} type {} rdata {}", refimpl::wire::name_text(&r.0), r.1, r.2, r.3, ctx::hex(&r.4)); },
            Err(e) => println!("ERR {}", e),
        }
        return;
    }
    #[cfg(feature = "crypto")]
    if prop == "TSIGDBG" {
        // debugging aid: dverif TSIGDBG <hex message>
        let m = ctx::unhex(&args[2]);
        println!("ref parse: {:?}", refimpl::wire::parse_message(&m).map(|p| p.records.iter().map(|r| (refimpl::wire::name_text(&r.owner), r.rtype, r.section, r.raw_rdlen)).collect::<Vec<_>>()));
        println!("ref find: {:?}", refimpl::tsig::find(&m));
        println!("read_name@53: {:?}", refimpl::wire::read_name(&m, 53).map(|x| (x.0.len(), x.1, x.2)));
        println!("prefix: {:?}", refimpl::wire::parse_message_prefix(&m).1);
        let msg = domain::base::Message::from_octets(m.clone()).unwrap();
        for r in msg.additional().unwrap() {
            println!("lib additional: {:?}", r.map(|r| (format!("{}", r.owner()), r.rtype(), r.class())));
        }
        return;
    }
    let mut tier = Tier::Quick;
    let mut seed = 1u64;
    let mut shard = 0u64;
    let mut nshards = 1u64;
    let mut scale = 1.0f64;
    let mut mode = "native".to_string();
    let mut time_limit = 0.0f64;
    let mut cpu_budget = 20.0f64;
    let mut replay = None;
    let mut out: Option<PathBuf> = None;
    let mut i = 2;
    while i < args.len() {
        let v = args.get(i + 1).cloned().unwrap_or_default();
        match args[i].as_str() {
            "--tier" => tier = if v == "thorough" { Tier::Thorough } else { Tier::Quick },
            "--seed" => seed = v.parse().unwrap_or(1),
            "--shard" => {
                let mut it = v.split('/');
                shard = it.next().and_then(|x| x.parse().ok()).unwrap_or(0);
                nshards = it.next().and_then(|x| x.parse().ok()).unwrap_or(1);
            }
            "--scale" => scale = v.parse().unwrap_or(1.0),
            "--mode" => mode = v.clone(),
            "--time-limit" => time_limit = v.parse().unwrap_or(0.0),
            "--cpu-budget" => cpu_budget = v.parse().unwrap_or(20.0),
            "--replay" => {
                let s = std::fs::read_to_string(&v).expect("read replay file");
                let j: serde_json::Value = serde_json::from_str(&s).expect("parse replay file");
                if let Some(s) = j.get("seed").and_then(|s| s.as_u64()) {
                    seed = s;
                }
                if j.get("tier").and_then(|t| t.as_str()) == Some("thorough") {
                    tier = Tier::Thorough;
                }
                replay = Some(j);
            }
            "--out" => out = Some(PathBuf::from(&v)),
            _ => usage(),
        }
        i += 2;
    }
    let out = out.unwrap_or_else(|| usage());
    ctx::install_panic_hook();
    ctx::start_watchdog(out.clone(), cpu_budget);
    let mut c = Ctx::new(&prop, tier, seed, shard, nshards, scale, &mode, time_limit, replay, out);
    match prop.as_str() {
        "C01" => p01::run(&mut c),
        "C02" => p02::run(&mut c),
        "C03" => p03::run(&mut c),
        "C04" => p04::run(&mut c),
        "C05" => p05::run(&mut c),
        "C06" => p06::run(&mut c),
        "C07" => p07::run(&mut c),
        "C08" => p08::run(&mut c),
        "C09" => p09::run(&mut c),
        "C10" => p10::run(&mut c),
        #[cfg(feature = "crypto")]
        "C11" => p11::run(&mut c),
        #[cfg(feature = "crypto")]
        "C12" => p12::run(&mut c),
        #[cfg(feature = "crypto")]
        "C13" => p13::run(&mut c),
        #[cfg(feature = "crypto")]
        "C14" => p14::run(&mut c),
        "C15" => p15::run(&mut c),
        "C16" => p16::run(&mut c),
        "C17" => p17::run(&mut c),
        "C18" => p18::run(&mut c),
        "C19" => p19::run(&mut c),
        "C20" => p20::run(&mut c),
        _ => {
            eprintln!("unknown property {}", prop);
            std::process::exit(2)
        }
    }
    c.finish();
}
