//! C01 — reading any octet string as a DNS message is total: no panic,
//! hang or overrun; traversals are deterministic; returned names/records are
//! closed under iteration, comparison, display and flattening.
use crate::ctx::{self, hash64, hex, step, unhex, Ctx};
use crate::gen::msg as gm;
use crate::refimpl::wire as w;
use crate::rng::Rng;
use bytes::Bytes;
use domain::base::iana::Rtype;
use domain::base::message::Message;
use domain::base::message_builder::MessageBuilder;
use domain::base::name::{FlattenInto, Label, Name, ParsedName, ToLabelIter, ToName};
use domain::base::opt::{AllOptData, Opt};
use domain::base::rdata::ComposeRecordData;
use domain::base::record::ParsedRecord;
use domain::base::zonefile_fmt::{DisplayKind, ZonefileFmt};
use domain::net::xfr::protocol::XfrResponseInterpreter;
use domain::rdata::{AllRecordData, Cname, Soa, Tsig, A};
use octseq::parse::Parser;
use serde_json::json;
use std::fmt::Write;

/// Transcript of one traversal: a running hash plus the first entries.
pub struct Transcript {
    h: u64,
    n: u64,
    head: Vec<String>,
    /// structural facts used for signatures
    pub accepted_records: u32,
    pub rejected_records: u32,
    pub names_seen: u32,
    pub compressed_names: u32,
    pub rtypes: u64,
    pub closure_fail: Option<(String, String)>,
    pub cap_fail: Option<(String, String)>,
}

impl Transcript {
    fn new() -> Self {
        Transcript { h: 0xcbf29ce484222325, n: 0, head: vec![], accepted_records: 0, rejected_records: 0, names_seen: 0, compressed_names: 0, rtypes: 0, closure_fail: None, cap_fail: None }
    }
    fn add(&mut self, s: &str) {
        // text the library hands out is text: a Display impl that writes octets of the message through
        // from_utf8_unchecked produces a String that is not UTF-8 (undefined behaviour for whoever uses it next)
        if std::str::from_utf8(s.as_bytes()).is_err() && self.closure_fail.is_none() {
            let at = std::str::from_utf8(s.as_bytes()).err().map(|e| e.valid_up_to()).unwrap_or(0);
            self.closure_fail = Some(("closure:displayed-text-is-not-utf8".into(), format!("a displayed value is not valid UTF-8: {:?}... followed by octets {}", String::from_utf8_lossy(&s.as_bytes()[at.saturating_sub(30)..at]), crate::ctx::hex(&s.as_bytes()[at..s.len().min(at + 8)]))));
            return;
        }
        self.h = (self.h ^ hash64(s)).wrapping_mul(0x100000001b3);
        self.n += 1;
        if self.head.len() < 60 {
            let t: String = s.chars().take(120).collect();
            self.head.push(t);
        }
    }
    fn addf(&mut self, label: &str, v: impl std::fmt::Debug) {
        self.add(&format!("{}={:?}", label, v));
    }
}

const NAME_LABEL_CAP: usize = 128;

/// Everything that can be done with a returned name.
fn exercise_name<O: octseq::octets::Octets + Clone>(t: &mut Transcript, api: &str, n: &ParsedName<O>)
where
    ParsedName<O>: ToName,
{
    t.names_seen += 1;
    if n.is_compressed() {
        t.compressed_names += 1;
    }
    step("ParsedName::iter");
    let mut cnt = 0usize;
    let mut total = 0usize;
    for l in n.iter() {
        cnt += 1;
        total += l.len() + 1;
        if cnt > NAME_LABEL_CAP {
            t.cap_fail = Some((format!("cap:ParsedName::iter:{}", api), format!("name iterator yielded more than {} labels", NAME_LABEL_CAP)));
            return;
        }
    }
    step("ParsedName::iter.rev");
    let mut cntb = 0usize;
    let mut it = n.iter();
    while it.next_back().is_some() {
        cntb += 1;
        if cntb > NAME_LABEL_CAP {
            t.cap_fail = Some((format!("cap:ParsedName::next_back:{}", api), "backward name iterator does not end".into()));
            return;
        }
    }
    if cnt != cntb {
        t.closure_fail = Some((format!("closure:iter-vs-next_back:{}", api), format!("{} labels forwards, {} backwards", cnt, cntb)));
    }
    step("ParsedName::label_count");
    let lc = n.label_count();
    if lc != cnt {
        t.closure_fail = Some((format!("closure:label_count:{}", api), format!("label_count {} but iter yields {}", lc, cnt)));
    }
    // the name's own octets as the label iterator gives them: every suffix is a tail of these
    let mut by_iter: Vec<u8> = Vec::new();
    let mut tails: Vec<usize> = Vec::new();
    for l in n.iter() {
        tails.push(by_iter.len());
        by_iter.push(l.len() as u8);
        by_iter.extend_from_slice(l.as_slice());
    }
    // a suffix handed out by iter_suffixes / parent / split_first is a name like any other: flattened, composed and
    // compared it is the tail of the name it came from
    fn suffix_check<P: ToName + std::hash::Hash>(s: &P, k: usize, tails: &[usize], by_iter: &[u8]) -> Result<(), String> {
        use domain::base::name::ToLabelIter;
        let want = match tails.get(k) { Some(p) => &by_iter[*p..], None => return Err(format!("suffix {} of a name with {} labels", k, tails.len())) };
        let f: Name<Vec<u8>> = s.to_vec();
        if f.as_slice() != want {
            return Err(format!("suffix {} flattens to {}, the name's tail is {}", k, hex(f.as_slice()), hex(want)));
        }
        let mut b = Vec::new();
        let _ = s.compose(&mut b);
        if b != want {
            return Err(format!("suffix {} composes to {}, the name's tail is {}", k, hex(&b), hex(want)));
        }
        let wn = Name::from_octets(want.to_vec()).map_err(|_| format!("tail {} is not a name", k))?;
        if !s.name_eq(&wn) || s.name_cmp(&wn) != std::cmp::Ordering::Equal || hash64(s) != hash64(&wn) || s.compose_len() as usize != want.len() || s.iter_labels().count() != tails.len() - k {
            return Err(format!("suffix {} ({}) does not compare equal to / count like the name's tail {}", k, hex(f.as_slice()), hex(want)));
        }
        Ok(())
    }
    step("ParsedName::iter_suffixes");
    let mut ns = 0;
    for s in n.iter_suffixes() {
        if ns < NAME_LABEL_CAP {
            if let Err(e) = suffix_check(&s, ns, &tails, &by_iter) {
                t.closure_fail = Some((format!("closure:suffix:iter_suffixes:{}", api), e));
            }
        }
        ns += 1;
        let _ = s.label_count();
        if ns > NAME_LABEL_CAP {
            t.cap_fail = Some((format!("cap:ParsedName::iter_suffixes:{}", api), "suffix iterator does not end".into()));
            return;
        }
    }
    step("ParsedName::split_first/parent");
    let mut c = n.clone();
    let mut guard = 0;
    while c.split_first().is_some() {
        guard += 1;
        if guard > NAME_LABEL_CAP {
            t.cap_fail = Some((format!("cap:ParsedName::split_first:{}", api), "split_first does not reach the root".into()));
            return;
        }
        if guard < tails.len() {
            if let Err(e) = suffix_check(&c, guard, &tails, &by_iter) {
                t.closure_fail = Some((format!("closure:suffix:split_first:{}", api), e));
            }
        }
    }
    let mut c = n.clone();
    let mut guard = 0;
    while c.parent() {
        guard += 1;
        if guard > NAME_LABEL_CAP {
            t.cap_fail = Some((format!("cap:ParsedName::parent:{}", api), "parent does not reach the root".into()));
            return;
        }
        if guard < tails.len() {
            if let Err(e) = suffix_check(&c, guard, &tails, &by_iter) {
                t.closure_fail = Some((format!("closure:suffix:parent:{}", api), e));
            }
        }
    }
    step("ParsedName::to_vec");
    let flat: Name<Vec<u8>> = n.to_vec();
    // closure: flattened name is a valid name and Name::from_octets accepts it
    if let Err(e) = w::validate_abs_name(flat.as_slice()) {
        t.closure_fail = Some((format!("closure:flatten-invalid:{}", api), format!("flattened name {} is invalid: {:?}", hex(flat.as_slice()), e)));
    }
    if total != flat.len() || n.compose_len() as usize != flat.len() {
        t.closure_fail = Some((format!("closure:length:{}", api), format!("iter total {} compose_len {} flattened {}", total, n.compose_len(), flat.len())));
    }
    step("Name::from_octets(flattened)");
    if Name::from_octets(flat.as_slice().to_vec()).is_err() {
        t.closure_fail = Some((format!("closure:from_octets:{}", api), "Name::from_octets rejects the flattened name".into()));
    }
    step("ParsedName::cmp/eq/hash");
    if !(*n == flat) || n.name_cmp(&flat) != std::cmp::Ordering::Equal || hash64(n) != hash64(&flat) || !(*n == *n) {
        t.closure_fail = Some((format!("closure:eq-flattened:{}", api), "name is not equal / same-hash to its flattened copy".into()));
    }
    step("ParsedName::compose");
    let mut buf = Vec::new();
    let _ = n.compose(&mut buf);
    if buf != flat.as_slice() {
        t.closure_fail = Some((format!("closure:compose:{}", api), "compose() differs from the flattened name".into()));
    }
    step("ParsedName::Display");
    let s = format!("{}", n);
    let _ = format!("{:?}", n);
    t.add(&format!("{}:name={}", api, s));
}

fn exercise_record<'a>(t: &mut Transcript, api: &str, r: &ParsedRecord<'a, &'a [u8]>) {
    step("ParsedRecord::accessors");
    t.addf("rtype", r.rtype());
    t.addf("class", r.class());
    t.addf("ttl", r.ttl());
    t.addf("rdlen", r.rdlen());
    exercise_name(t, api, &r.owner());
    let rt = r.rtype().to_int();
    t.rtypes |= 1u64 << (rt % 64);
    step("ParsedRecord::to_any_record<AllRecordData>");
    match r.to_any_record::<AllRecordData<_, _>>() {
        Ok(rec) => {
            t.accepted_records += 1;
            step("Record::Display");
            let mut s = String::new();
            let _ = write!(s, "{}", rec);
            t.add(&s);
            let _ = format!("{:?}", rec);
            step("Record::display_zonefile");
            for kind in [DisplayKind::Simple, DisplayKind::Tabbed, DisplayKind::Multiline] {
                let z = format!("{}", rec.display_zonefile(kind));
                t.add(&z);
            }
            // the accessors of the typed data that look into the RDATA again (lookups in type bitmaps, key tags ...):
            // their answers agree with what iteration / the composed octets say
            step("RecordData::accessors");
            {
                use domain::base::iana::Rtype as RT;
                let probe = |t: &mut Transcript, bm: &domain::rdata::dnssec::RtypeBitmap<_>, what: &str| {
                    let listed: Vec<u16> = bm.iter().map(|x| x.to_int()).collect();
                    // (a bitmap with a window number twice or out of order is accepted by the reader; lookups then go by
                    // the first window of that number: the answers are only compared for well-formed bitmaps)
                    let judge = w::valid_bitmap(bm.as_slice());
                    if !judge {
                        for x in [1u16, 47, 255, 65535] {
                            let _ = bm.contains(RT::from_int(x));
                        }
                        return;
                    }
                    for x in [1u16, 2, 6, 28, 46, 47, 48, 50, 255, 256, 257, 1234, 65280, 65534, 65535] {
                        let c = bm.contains(RT::from_int(x));
                        if c != listed.contains(&x) {
                            t.closure_fail = Some((format!("closure:bitmap-contains:{}", what), format!("contains(TYPE{}) says {} but iteration lists {:?}", x, c, listed)));
                        }
                    }
                    for x in listed.iter().take(40) {
                        if !bm.contains(RT::from_int(*x)) {
                            t.closure_fail = Some((format!("closure:bitmap-contains:{}", what), format!("iteration lists TYPE{} but contains() denies it", x)));
                        }
                    }
                };
                match rec.data() {
                    AllRecordData::Nsec(n) => probe(t, n.types(), "NSEC"),
                    AllRecordData::Nsec3(n) => probe(t, n.types(), "NSEC3"),
                    AllRecordData::Dnskey(k) => {
                        // RFC 4034 appendix B over the composed RDATA
                        let mut rd = Vec::new();
                        let _ = k.compose_rdata(&mut rd);
                        let want = if k.algorithm().to_int() == 1 {
                            if rd.len() >= 4 + 3 { u16::from_be_bytes([rd[rd.len() - 3], rd[rd.len() - 2]]) } else { k.key_tag() }
                        } else {
                            let mut ac: u32 = 0;
                            for (i, b) in rd.iter().enumerate() {
                                ac += if i & 1 == 0 { (*b as u32) << 8 } else { *b as u32 };
                            }
                            ac += (ac >> 16) & 0xFFFF;
                            (ac & 0xFFFF) as u16
                        };
                        if k.key_tag() != want {
                            t.closure_fail = Some(("closure:key-tag:DNSKEY".into(), format!("key_tag() gives {} for a key whose RDATA sums to {}", k.key_tag(), want)));
                        }
                        t.addf("keytag", k.key_tag());
                    }
                    _ => {}
                }
            }
            step("RecordData::rdlen/compose");
            let mut b = Vec::new();
            let _ = rec.data().compose_rdata(&mut b);
            let mut cb = Vec::new();
            let _ = rec.data().compose_canonical_rdata(&mut cb);
            if let Some(l) = rec.data().rdlen(false) {
                if l as usize != b.len() {
                    t.closure_fail = Some((format!("closure:rdlen:{}", w::type_name(rt)), format!("rdlen {} but composed {}", l, b.len())));
                }
            }
            t.add(&hex(&b[..b.len().min(64)]));
            step("Record::flatten");
            let flat: Result<AllRecordData<Vec<u8>, Name<Vec<u8>>>, _> = rec.data().clone().try_flatten_into();
            match flat {
                Ok(f) => {
                    step("RecordData::eq/cmp/hash");
                    if !(f == *rec.data()) || hash64(&f) != hash64(rec.data()) {
                        t.closure_fail = Some((format!("closure:flatten-eq:{}", w::type_name(rt)), "flattened record data differs from the parsed one".into()));
                    }
                    let _ = format!("{}", f);
                }
                Err(_) => t.add("flatten-err"),
            }
            // OPT options
            if let AllRecordData::Opt(opt) = rec.data() {
                exercise_opt(t, opt);
            }
        }
        Err(e) => {
            t.rejected_records += 1;
            t.add(&format!("to_any_record-err:{}", e));
        }
    }
    // concrete types
    step("ParsedRecord::to_record<A|Cname|Soa|Tsig>");
    t.addf("as-A", r.to_record::<A>().map(|o| o.is_some()).map_err(|e| e.to_string()));
    t.addf("as-Cname", r.to_record::<Cname<_>>().map(|o| o.is_some()).map_err(|e| e.to_string()));
    t.addf("as-Soa", r.to_record::<Soa<_>>().map(|o| o.is_some()).map_err(|e| e.to_string()));
    t.addf("as-Tsig", r.to_record::<Tsig<_, _>>().map(|o| o.is_some()).map_err(|e| e.to_string()));
}

fn exercise_opt<O: octseq::octets::Octets>(t: &mut Transcript, opt: &Opt<O>) {
    step("Opt::iter<AllOptData>");
    let mut n = 0;
    for o in opt.iter::<AllOptData<_, _>>() {
        n += 1;
        match o {
            Ok(o) => {
                let _ = format!("{:?}", o);
                t.add(&format!("opt:{:?}", o));
            }
            Err(e) => t.add(&format!("opt-err:{}", e)),
        }
        if n > 20000 {
            t.cap_fail = Some(("cap:Opt::iter".into(), "option iterator yields more than 20000 items".into()));
            break;
        }
    }
}

/// Drive the whole read-side API over `octets`. Panics propagate.
pub fn read_all(octets: &[u8], order_seed: u64) -> Transcript {
    let mut t = Transcript::new();
    // the three ways of taking octets as a message agree on what is one; the view that is read below comes from one of them
    step("Message::try_from_octets");
    let by_try = Message::try_from_octets(octets);
    step("Message::from_slice");
    let by_slice = Message::from_slice(octets).map(|m| m.header()).is_ok();
    step("Message::from_octets");
    let msg = match Message::from_octets(octets) {
        Ok(m) => {
            if by_try.is_err() || !by_slice {
                t.closure_fail = Some(("closure:message-constructors-disagree".into(), format!("{} octets are a message for from_octets, try_from_octets says {}, from_slice {}", octets.len(), by_try.is_ok(), by_slice)));
            }
            match by_try {
                Ok(m2) if order_seed % 2 == 1 => m2,
                _ => m,
            }
        }
        Err(_) => {
            t.add("short");
            if by_slice {
                t.closure_fail = Some(("closure:message-constructors-disagree".into(), format!("{} octets are no message for from_octets, from_slice takes them", octets.len())));
            }
            if let Ok(m2) = by_try {
                // what this constructor lets through is used like any other message
                t.closure_fail = Some(("closure:message-constructors-disagree".into(), format!("{} octets are no message for from_octets, try_from_octets takes them", octets.len())));
                step("Message::header_counts[after try_from_octets]");
                let _ = m2.header_counts().qdcount();
                let _ = m2.question().count();
                let _ = format!("{}", m2.display_dig_style());
            }
            return t;
        }
    };
    // the order of the blocks is seeded (the property says "in any order");
    // results are recorded per block so the transcript is order-independent
    let mut blocks: Vec<usize> = (0..9).collect();
    let mut r = Rng::new(&[order_seed]);
    if order_seed != 0 {
        r.shuffle(&mut blocks);
    }
    let mut parts: Vec<(usize, Transcript)> = Vec::new();
    for b in blocks {
        let mut p = Transcript::new();
        match b {
            0 => {
                step("Message::header");
                let h = msg.header();
                p.addf("id", h.id());
                p.addf("flags", (h.qr(), h.opcode(), h.aa(), h.tc(), h.rd(), h.ra(), h.z(), h.ad(), h.cd(), h.rcode()));
                let c = msg.header_counts();
                p.addf("counts", (c.qdcount(), c.ancount(), c.nscount(), c.arcount()));
                p.addf("noerr", (msg.no_error(), msg.is_error()));
                let _ = format!("{}", h.flags());
                let _ = msg.header_section();
            }
            1 => {
                step("Message::question");
                let mut n = 0u32;
                for q in msg.question() {
                    n += 1;
                    match q {
                        Ok(q) => {
                            exercise_name(&mut p, "question", q.qname());
                            p.addf("q", (q.qtype(), q.qclass()));
                            let _ = format!("{} {:?}", q, q);
                        }
                        Err(e) => p.add(&format!("q-err:{}", e)),
                    }
                    if n > 65535 {
                        p.cap_fail = Some(("cap:QuestionSection".into(), "question iterator yields more than QDCOUNT items".into()));
                        break;
                    }
                }
                step("Message::first_question/sole_question/qtype/is_xfr");
                p.addf("first", msg.first_question().map(|q| q.qtype()));
                p.addf("sole", msg.sole_question().map(|q| q.qtype()).map_err(|e| e.to_string()));
                p.addf("qtype", msg.qtype());
                p.addf("is_xfr", msg.is_xfr());
                let _ = msg.zone().count();
            }
            2 => {
                step("Message::sections");
                match msg.sections() {
                    Ok((q, an, au, ad)) => {
                        p.addf("sections", (q.count(), an.count(), au.count(), ad.count()));
                    }
                    Err(e) => p.add(&format!("sections-err:{}", e)),
                }
                for (name, sec) in [("answer", msg.answer()), ("authority", msg.authority()), ("additional", msg.additional())] {
                    step("RecordSection::next");
                    match sec {
                        Ok(sec) => {
                            let mut n = 0u32;
                            let mut after_err = 0;
                            for r in sec {
                                n += 1;
                                match r {
                                    Ok(r) => exercise_record(&mut p, name, &r),
                                    Err(e) => {
                                        p.add(&format!("{}-rec-err:{}", name, e));
                                        after_err += 1;
                                    }
                                }
                                if n > 65535 || after_err > 1 {
                                    p.cap_fail = Some((format!("cap:RecordSection:{}", name), "section iterator exceeds its count or continues after an error".into()));
                                    break;
                                }
                            }
                            p.addf(name, n);
                        }
                        Err(e) => p.add(&format!("{}-err:{}", name, e)),
                    }
                }
                let _ = msg.prerequisite().map(|s| s.count());
                let _ = msg.update().map(|s| s.count());
            }
            3 => {
                step("Message::iter");
                let mut n = 0u32;
                for item in msg.iter() {
                    n += 1;
                    match item {
                        Ok((r, sec)) => p.addf("it", (r.rtype(), sec as u8)),
                        Err(e) => p.add(&format!("iter-err:{}", e)),
                    }
                    if n > 200_000 {
                        p.cap_fail = Some(("cap:MessageIter".into(), "message iterator does not end".into()));
                        break;
                    }
                }
                step("RecordSection::limit_to/limit_to_in/into_records");
                if let Ok(an) = msg.answer() {
                    p.addf("limit_to<A>", an.limit_to::<A>().map(|r| r.is_ok()).take(70000).count());
                    p.addf("limit_to_in<Cname>", an.limit_to_in::<Cname<_>>().map(|r| r.is_ok()).take(70000).count());
                    p.addf("limit_to<All>", an.limit_to::<AllRecordData<_, _>>().map(|r| r.is_ok()).take(70000).count());
                    p.addf("into_records<All>", an.into_records::<AllRecordData<_, _>>().map(|r| r.is_ok()).take(70000).count());
                    let mut s = an;
                    let mut hops = 0;
                    while let Ok(Some(nx)) = s.next_section() {
                        s = nx;
                        hops += 1;
                        if hops > 4 {
                            p.cap_fail = Some(("cap:next_section".into(), "more than three record sections".into()));
                            break;
                        }
                    }
                }
            }
            4 => {
                step("Message::opt");
                if let Some(o) = msg.opt() {
                    p.addf("opt", (o.udp_payload_size(), o.version(), o.dnssec_ok()));
                    exercise_opt(&mut p, o.opt());
                    let _ = format!("{:?}", o.rcode(msg.header()));
                }
                step("Message::opt_rcode");
                p.addf("opt_rcode", msg.opt_rcode());
                step("Message::get_last_additional");
                p.addf("last-tsig", msg.get_last_additional::<Tsig<_, _>>().is_some());
                p.addf("last-opt", msg.get_last_additional::<Opt<_>>().is_some());
                p.addf("last-all", msg.get_last_additional::<AllRecordData<_, _>>().map(|r| r.rtype()));
            }
            5 => {
                step("Message::canonical_name");
                if let Some(n) = msg.canonical_name() {
                    exercise_name(&mut p, "canonical_name", &n);
                } else {
                    p.add("canonical_name=None");
                }
                step("Message::contains_answer");
                p.addf("contains<A>", msg.contains_answer::<A>());
                p.addf("contains<Cname>", msg.contains_answer::<Cname<_>>());
            }
            6 => {
                step("Message::is_answer");
                p.addf("is_answer(self)", msg.is_answer(&msg));
                let mut other = octets.to_vec();
                if other.len() > 14 {
                    let i = 12 + ((other.len() * 7 + other[other.len() - 1] as usize) % (other.len() - 12));
                    other[i] ^= 0x20;
                }
                other[2] &= 0x7f;
                if let Ok(o) = Message::from_octets(&other[..]) {
                    p.addf("is_answer(mut)", msg.is_answer(&o));
                    p.addf("mut.is_answer", o.is_answer(&msg));
                }
            }
            7 => {
                step("Message::copy_records");
                let target = MessageBuilder::new_vec().answer();
                match msg.copy_records(target, |r| r.to_any_record::<AllRecordData<_, _>>().ok()) {
                    Ok(b) => p.addf("copied", b.counts().arcount() as u32 + b.counts().ancount() as u32 + b.counts().nscount() as u32),
                    Err(e) => p.add(&format!("copy-err:{}", e)),
                }
            }
            _ => {
                step("Message::display_dig_style");
                let mut s = String::new();
                let _ = write!(s, "{}", msg.display_dig_style());
                p.add(&s);
                step("Message::Debug");
                let _ = format!("{:?}", msg);
            }
        }
        parts.push((b, p));
    }
    parts.sort_by_key(|x| x.0);
    for (_, p) in parts {
        t.h = (t.h ^ p.h).wrapping_mul(0x100000001b3);
        t.n += p.n;
        for s in p.head {
            if t.head.len() < 60 {
                t.head.push(s);
            }
        }
        t.accepted_records += p.accepted_records;
        t.rejected_records += p.rejected_records;
        t.names_seen += p.names_seen;
        t.compressed_names += p.compressed_names;
        t.rtypes |= p.rtypes;
        if t.closure_fail.is_none() {
            t.closure_fail = p.closure_fail;
        }
        if t.cap_fail.is_none() {
            t.cap_fail = p.cap_fail;
        }
    }
    // name-level entry points at a handful of offsets
    let lim = octets.len().min(48);
    for off in (0..lim).step_by(if octets.len() > 200 { 5 } else { 1 }) {
        step("ParsedName::parse@offset");
        let mut ps = Parser::from_ref(octets);
        if ps.advance(off).is_ok() {
            match ParsedName::parse(&mut ps) {
                Ok(n) => exercise_name(&mut t, "parse@off", &n),
                Err(_) => t.add("pn-err"),
            }
        }
        step("ParsedName::skip@offset");
        let mut ps = Parser::from_ref(octets);
        if ps.advance(off).is_ok() {
            t.addf("skip", ParsedName::skip(&mut ps).is_ok());
        }
        step("ParsedRecord::parse@offset");
        let mut ps = Parser::from_ref(octets);
        if ps.advance(off).is_ok() {
            t.addf("rec@", ParsedRecord::parse(&mut ps).map(|r| r.rtype()).map_err(|e| e.to_string()));
        }
        step("Label::iter_slice@offset");
        let mut n = 0usize;
        for l in Label::iter_slice(octets, off) {
            n += 1;
            let _ = l.len();
            if n > 32768 {
                t.cap_fail = Some(("cap:Label::iter_slice".into(), format!("Label::iter_slice yields more than 32768 labels from a {}-octet buffer", octets.len())));
                break;
            }
        }
        t.addf("slice-labels", n.min(40000));
    }
    // XFR interpreter
    step("XfrResponseInterpreter::interpret_response");
    if let Ok(m) = Message::from_octets(Bytes::copy_from_slice(octets)) {
        let mut it = XfrResponseInterpreter::new();
        match it.interpret_response(m) {
            Ok(iter) => {
                let mut n = 0;
                for u in iter {
                    n += 1;
                    match u {
                        Ok(u) => {
                            let _ = format!("{:?}", u);
                        }
                        Err(e) => {
                            t.add(&format!("xfr-iter-err:{:?}", e));
                            break;
                        }
                    }
                    if n > 70000 {
                        t.cap_fail = Some(("cap:XfrZoneUpdateIterator".into(), "XFR update iterator does not end".into()));
                        break;
                    }
                }
                t.addf("xfr-updates", n);
            }
            Err(e) => t.add(&format!("xfr-err:{:?}", e)),
        }
    }
    #[cfg(feature = "crypto")]
    {
        use domain::tsig::{Algorithm, Key, KeyName, ServerTransaction};
        step("tsig::ServerTransaction::request");
        let key = std::sync::Arc::new(Key::new(Algorithm::Sha256, &[7u8; 32], "key".parse::<KeyName>().unwrap(), None, None).unwrap());
        if let Ok(mut m) = Message::from_octets(octets.to_vec()) {
            match ServerTransaction::request(&key, &mut m, domain::rdata::tsig::Time48::from_u64(1_000_000)) {
                Ok(Some(_)) => t.add("tsig-ok"),
                Ok(None) => t.add("tsig-none"),
                Err(e) => {
                    // a server builds the error response
                    step("tsig::ServerError::build_message");
                    let b = MessageBuilder::new_vec();
                    if let Ok(m2) = Message::from_octets(octets.to_vec()) {
                        let r = e.build_message(&m2, b);
                        t.addf("tsig-err-build", r.is_ok());
                    }
                }
            }
        }
    }
    t
}

/// Agreement with the reference walker where both accept.
fn differential(octets: &[u8]) -> Option<(String, String)> {
    let rm = w::parse_message(octets).ok()?;
    let msg = Message::from_octets(octets).ok()?;
    // questions
    let mut qi = 0;
    for q in msg.question() {
        let q = q.ok()?;
        let rq = rm.questions.get(qi)?;
        if q.qname().to_vec().as_slice() != &rq.name[..] || q.qtype().to_int() != rq.qtype || q.qclass().to_int() != rq.qclass {
            return Some(("diff:question".into(), format!("question {} differs: library {} {:?}, reference {} {}", qi, q.qname(), q.qtype(), w::name_text(&rq.name), rq.qtype)));
        }
        qi += 1;
    }
    let mut ri = 0;
    for item in msg.iter() {
        let (r, _sec) = item.ok()?;
        let rr = rm.records.get(ri)?;
        if r.owner().to_vec().as_slice() != &rr.owner[..] || r.rtype().to_int() != rr.rtype || r.class().to_int() != rr.class || r.ttl().as_secs() != rr.ttl || r.rdlen() as usize != rr.raw_rdlen {
            return Some(("diff:record-header".into(), format!("record {} header differs: library owner {} type {:?} rdlen {}, reference owner {} type {} rdlen {}", ri, r.owner(), r.rtype(), r.rdlen(), w::name_text(&rr.owner), rr.rtype, rr.raw_rdlen)));
        }
        if let (Ok(rec), Some(rd)) = (r.to_any_record::<AllRecordData<_, _>>(), &rr.rdata) {
            let mut b = Vec::new();
            if rec.data().compose_rdata(&mut b).is_ok() && &b != rd {
                return Some((format!("diff:rdata:{}", if w::layout(rr.rtype).is_some() { w::type_name(rr.rtype) } else { "UNKNOWN" }), format!("record {} (type {}): library recomposes RDATA to {}, reference reads {}", ri, rr.rtype, hex(&b[..b.len().min(60)]), hex(&rd[..rd.len().min(60)]))));
            }
        }
        ri += 1;
    }
    None
}

fn one_input(c: &mut Ctx, fam: &str, idx: u64, octets: &[u8], kind: &str) {
    ctx::slot_write(idx, &format!("{}|{}", fam, kind), octets);
    // (an allocation of exactly the message's size: reading past the message leaves it)
    let exact = ctx::exact(octets);
    let octets: &[u8] = &exact;
    let ex = || json!({"input_hex": hex(octets), "kind": kind});
    let r1 = ctx::catch(|| read_all(octets, 0));
    let t1 = match r1 {
        Ok(t) => t,
        Err(pi) => {
            let sig = format!("panic:{}", pi.site());
            let rp = c.replay_of(fam, idx, ex());
            c.violation(&sig, &format!("panic reading a {}-octet message ({}): {} at {}:{}", octets.len(), kind, pi.msg, pi.file, pi.line), rp);
            c.eval_trivial();
            return;
        }
    };
    let r2 = ctx::catch(|| read_all(octets, idx.wrapping_mul(0x9E3779B97F4A7C15) | 1));
    match r2 {
        Ok(t2) => {
            if t2.h != t1.h || t2.n != t1.n {
                let first = t1.head.iter().zip(&t2.head).position(|(a, b)| a != b);
                let rp = c.replay_of(fam, idx, ex());
                c.violation("nondet:read_all", &format!("two traversals of the same {} octets differ ({} vs {} entries; first difference at {:?}: {:?} / {:?})", octets.len(), t1.n, t2.n, first, first.map(|i| &t1.head[i]), first.map(|i| &t2.head[i])), rp);
            }
        }
        Err(pi) => {
            let sig = format!("panic:{}", pi.site());
            let rp = c.replay_of(fam, idx, ex());
            c.violation(&sig, &format!("panic on the second traversal: {} at {}:{}", pi.msg, pi.file, pi.line), rp);
        }
    }
    if let Some((sig, what)) = &t1.closure_fail {
        let rp = c.replay_of(fam, idx, ex());
        c.violation(sig, what, rp);
    }
    if let Some((sig, what)) = &t1.cap_fail {
        let rp = c.replay_of(fam, idx, ex());
        c.violation(sig, what, rp);
    }
    match ctx::catch(|| differential(octets)) {
        Ok(Some((sig, what))) => {
            let rp = c.replay_of(fam, idx, ex());
            c.violation(&sig, &what, rp);
        }
        Ok(None) => {}
        Err(pi) => {
            let rp = c.replay_of(fam, idx, ex());
            c.violation(&format!("panic:{}", pi.site()), &pi.msg, rp);
        }
    }
    c.count(&format!("inputs_{}", kind), 1);
    c.count("records_accepted", t1.accepted_records as u64);
    c.count("records_rejected", t1.rejected_records as u64);
    c.count("names_exercised", t1.names_seen as u64);
    c.count("compressed_names", t1.compressed_names as u64);
    if octets.len() >= 12 {
        c.eval(&(kind, t1.accepted_records.min(6), t1.rejected_records.min(3), t1.compressed_names.min(4), t1.rtypes, t1.n.min(400) / 20));
    } else {
        c.eval_trivial();
    }
    if c.want_sample() && idx % 29 == 3 {
        c.sample(json!({"kind": kind, "octets": hex(&octets[..octets.len().min(64)]), "len": octets.len(), "transcript_entries": t1.n, "records_accepted": t1.accepted_records, "transcript_head": t1.head.iter().take(4).collect::<Vec<_>>()}));
    }
}

pub fn run(c: &mut Ctx) {
    c.families(3);
    // replay with explicit input
    if let Some(r) = c.replay.clone() {
        if let Some(h) = r.get("extra").and_then(|e| e.get("input_hex")).and_then(|h| h.as_str()) {
            let oct = unhex(h);
            one_input(c, r.get("family").and_then(|f| f.as_str()).unwrap_or("replay"), r.get("case").and_then(|x| x.as_u64()).unwrap_or(0), &oct, "replay");
            return;
        }
    }
    let miri = c.mode == "miri";
    // (a) structure-aware: valid, then mutated
    let fam = "mut";
    let total = c.total(300_000, 6_000_000);
    for idx in c.cases(fam, total) {
        if c.out_of_time() {
            break;
        }
        let mut rng = c.case_rng(fam, idx);
        let big = !miri && rng.chance(1, 40);
        let g = gm::valid_message(&mut rng, if big { 400 } else if miri { 3 } else { 8 }, !big);
        if idx % 8 == 0 {
            one_input(c, fam, idx, &g.octets, "valid");
        } else if idx % 8 == 1 {
            if idx % 16 == 1 && !miri {
                let m = gm::late_pointer_message(&mut rng);
                one_input(c, fam, idx, &m, "late-pointers");
            } else {
                let m = gm::typed_hostile_message(&mut rng);
                one_input(c, fam, idx, &m, "typed-hostile");
            }
        } else {
            let (m, kind) = gm::mutate(&mut rng, &g);
            // sometimes stack a second mutation
            let (m, kind) = if rng.chance(1, 4) {
                let g2 = gm::GenMsg { octets: m, name_offsets: g.name_offsets.clone(), pointer_offsets: g.pointer_offsets.clone(), rdlen_offsets: g.rdlen_offsets.clone() };
                let (m2, _) = gm::mutate(&mut rng, &g2);
                (m2, "stacked")
            } else {
                (m, kind)
            };
            one_input(c, fam, idx, &m, kind);
        }
    }
    // (a2) record data of every length from nothing to a dozen octets, for every type the library reads structurally: the
    // accessors' arithmetic at the smallest sizes (a key of two octets, a bitmap of one, a salt length without salt)
    // is reached by a length, not by chance
    let fam = "small-rdata";
    let types: Vec<u16> = (1..=110u16).chain([249, 250, 255, 256, 257, 32768, 32769, 65280]).filter(|t| w::layout(*t).is_some() || *t == 41).collect();
    let per_type = 14 * 5;
    // ... and well-formed records whose type bitmap is the last thing in the message, with windows of one to three octets: a
    // lookup for a type beyond the window's last octet must not read on (behind the window the allocation ends)
    let mut tails: Vec<(u16, Vec<u8>)> = Vec::new();
    for bm in [vec![0u8, 1, 0x40], vec![0, 2, 0x40, 0x01], vec![0, 3, 0, 0, 0x08], vec![0, 1, 0x40, 1, 1, 0x40], vec![255, 1, 0x01]] {
        let mut nsec = vec![0u8];
        nsec.extend_from_slice(&bm);
        tails.push((47, nsec));
        let mut nsec3 = vec![1u8, 0, 0, 0, 0, 1, 0xAA];
        nsec3.extend_from_slice(&bm);
        tails.push((50, nsec3));
        let mut csync = vec![0u8, 0, 0, 7, 0, 3];
        csync.extend_from_slice(&bm);
        tails.push((62, csync));
    }
    let total = (types.len() * per_type + tails.len()) as u64;
    for idx in c.cases(fam, total) {
        if c.out_of_time() {
            break;
        }
        let mut rng = c.case_rng(fam, idx);
        let tail = (idx as usize).checked_sub(types.len() * per_type);
        let t = match tail { Some(k) => tails[k].0, None => types[idx as usize / per_type] };
        let len = (idx as usize % per_type) / 5;
        let rd: Vec<u8> = match idx % 5 {
            _ if tail.is_some() => tails[tail.unwrap()].1.clone(),
            0 => vec![0; len],
            1 => vec![0xff; len],
            2 => vec![1; len],
            3 => (0..len).map(|i| i as u8).collect(),
            _ => rng.bytes(len),
        };
        let mut m = w::header(rng.u16(), 0x8180, [1, 1, 0, if t == 41 { 1 } else { 0 }]);
        m.extend_from_slice(b"\x01a\x07example\x00");
        m.extend_from_slice(&t.to_be_bytes());
        m.extend_from_slice(&[0, 1]);
        // one record of the type in the answer section, owner by pointer; an OPT record goes to the additional section as well
        for sec in 0..(if t == 41 { 2 } else { 1 }) {
            if t == 41 && sec == 1 {
                m.push(0);
            } else {
                m.extend_from_slice(&[0xC0, 12]);
            }
            m.extend_from_slice(&t.to_be_bytes());
            m.extend_from_slice(&[0, 1, 0, 0, 0, 60]);
            m.extend_from_slice(&(rd.len() as u16).to_be_bytes());
            m.extend_from_slice(&rd);
        }
        one_input(c, fam, idx, &m, "small-rdata");
    }
    // (b) exhaustive families on small messages: every pointer target at every name position
    let fam = "ptr-exh";
    let total = c.total(200, 4000);
    for idx in c.cases(fam, total) {
        if c.out_of_time() {
            break;
        }
        let mut rng = c.case_rng(fam, idx);
        let g = gm::valid_message(&mut rng, 3, true);
        if g.octets.len() > 160 {
            continue;
        }
        for &p in &g.name_offsets {
            if p + 2 > g.octets.len() {
                continue;
            }
            for tgt in 0..g.octets.len() + 2 {
                if c.out_of_time() {
                    break;
                }
                let mut m = g.octets.clone();
                m[p] = 0xC0 | (tgt >> 8) as u8;
                m[p + 1] = tgt as u8;
                one_input(c, fam, idx, &m, "ptr-exhaustive");
            }
        }
        // every boundary octet at every offset
        for off in 0..g.octets.len() {
            if c.out_of_time() {
                break;
            }
            for v in [0x00u8, 0x01, 0x3F, 0x40, 0x7F, 0x80, 0xBF, 0xC0, 0xC1, 0xFF] {
                let mut m = g.octets.clone();
                m[off] = v;
                one_input(c, fam, idx, &m, "boundary-exhaustive");
            }
        }
        // truncation at every offset
        for l in 0..g.octets.len() {
            one_input(c, fam, idx, &g.octets[..l], "truncate-exhaustive");
        }
    }
    // (c) random octets with a valid-looking header
    let fam = "rand";
    let total = c.total(150_000, 3_000_000);
    for idx in c.cases(fam, total) {
        if c.out_of_time() {
            break;
        }
        let mut rng = c.case_rng(fam, idx);
        let m = gm::random_message(&mut rng);
        one_input(c, fam, idx, &m, "random");
    }
    // (d) hand-made corpus of known hard cases
    if c.shard == 0 || c.replaying() {
        let corpus: Vec<(&str, Vec<u8>)> = vec![
            ("ancount-ffff", {
                let mut m = w::header(1, 0x8180, [1, 0xFFFF, 0, 0]);
                m.extend_from_slice(b"\x07example\x03com\x00\x00\x01\x00\x01");
                m
            }),
            ("self-pointer", {
                let mut m = w::header(1, 0x0100, [1, 0, 0, 0]);
                m.extend_from_slice(&[0xC0, 12, 0, 1, 0, 1]);
                m
            }),
            ("back-cycle", {
                let mut m = w::header(1, 0x0100, [1, 0, 0, 0]);
                m.extend_from_slice(&[1, b'a', 0xC0, 12, 0, 1, 0, 1]);
                m
            }),
            ("iter_slice-at-0", vec![0xC0, 0x00, 0, 0, 0, 0, 0, 0, 0, 0, 0, 0]),
            ("iter_slice-backcycle-at-0", vec![1, b'a', 0xC0, 0x00, 0, 0, 0, 0, 0, 0, 0, 0]),
            ("xfr-wrong-question", {
                let mut m = w::header(1, 0x8400, [1, 1, 0, 0]);
                m.extend_from_slice(b"\x07example\x00\x00\x01\x00\x01");
                m.extend_from_slice(b"\x07example\x00\x00\x06\x00\x01\x00\x00\x0e\x10\x00\x16\x02ns\x00\x04mail\x00\x00\x00\x00\x01\x00\x00\x00\x02\x00\x00\x00\x03\x00\x00\x00\x04\x00\x00\x00\x05");
                m
            }),
            ("tsig-twice", {
                let mut m = w::header(1, 0x0100, [1, 0, 0, 2]);
                m.extend_from_slice(b"\x07example\x00\x00\x01\x00\x01");
                for _ in 0..2 {
                    m.extend_from_slice(b"\x03key\x00\x00\xfa\x00\xff\x00\x00\x00\x00\x00\x3d");
                    m.extend_from_slice(b"\x0bhmac-sha256\x00\x00\x00\x00\x0f\x42\x40\x01\x2c\x00\x20");
                    m.extend_from_slice(&[0u8; 32]);
                    m.extend_from_slice(&[0, 1, 0, 0, 0, 0]);
                }
                m
            }),
        ];
        for (i, (name, m)) in corpus.iter().enumerate() {
            let idx = i as u64;
            if c.replaying() && !c.cases("corpus", corpus.len() as u64).contains(&idx) {
                continue;
            }
            if miri && *name == "ancount-ffff" {
                continue; // 65535 announced records: hours under the interpreter, and nothing in it that the other inputs lack
            }
            one_input(c, "corpus", idx, m, name);
        }
    }
    if !c.replaying() && !miri {
        c.floor("records_accepted", 1000);
        c.floor("records_rejected", 100);
        c.floor("compressed_names", 1000);
        for k in ["valid", "small-rdata", "typed-hostile", "late-pointers", "count", "pointer-retarget", "pointer-inject", "pointer-cycle", "label-type", "rdlen", "truncate", "rdata-inner", "long-name", "pointer-chain", "random", "ptr-exhaustive"] {
            c.floor(&format!("inputs_{}", k), 1);
        }
    }
}
