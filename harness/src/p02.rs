//! C02 — built messages parse back to exactly what was pushed, under every
//! target and compressor; failed pushes are the identity; stream prefix.
use crate::ctx::{hex, Ctx};
use crate::gen::names;
use crate::gen::rdata as g;
use crate::refimpl::wire::{self as w, Fv};
use crate::rng::Rng;
use bytes::BytesMut;
use domain::base::iana::{Class, OptionCode, Rtype};
use domain::base::message::Message;
use domain::base::message_builder::{
    AdditionalBuilder, AnswerBuilder, AuthorityBuilder, HashCompressor, MessageBuilder, QuestionBuilder, StaticCompressor, StreamTarget, TreeCompressor,
};
use domain::base::name::{FlattenInto, Name, ParsedName, ToName};
use domain::base::question::Question;
use domain::base::rdata::{ComposeRecordData, ParseAnyRecordData};
use domain::base::record::{Record, Ttl};
use domain::base::wire::Composer;
use domain::rdata::AllRecordData;
use octseq::parse::Parser;
use serde_json::json;

type FlatData = AllRecordData<Vec<u8>, Name<Vec<u8>>>;
type FlatRecord = Record<Name<Vec<u8>>, FlatData>;

// ------------------------------------------------------------ targets --

pub trait TargetKind: Composer + Sized {
    const NAME: &'static str;
    const COMPRESS: bool;
    const STREAM: bool;
    fn make() -> Self;
    /// The full stream form (2-octet prefix + message) if this is a stream target.
    fn stream_octets(&self) -> Option<Vec<u8>>;
}

macro_rules! plain_target {
    ($t:ty, $name:expr, $mk:expr) => {
        impl TargetKind for $t {
            const NAME: &'static str = $name;
            const COMPRESS: bool = false;
            const STREAM: bool = false;
            fn make() -> Self {
                $mk
            }
            fn stream_octets(&self) -> Option<Vec<u8>> {
                None
            }
        }
    };
}
plain_target!(Vec<u8>, "Vec", Vec::new());
plain_target!(BytesMut, "BytesMut", BytesMut::new());
plain_target!(octseq::array::Array<512>, "Array512", octseq::array::Array::new());
plain_target!(octseq::array::Array<2048>, "Array2048", octseq::array::Array::new());

impl TargetKind for StreamTarget<Vec<u8>> {
    const NAME: &'static str = "Stream<Vec>";
    const COMPRESS: bool = false;
    const STREAM: bool = true;
    fn make() -> Self {
        StreamTarget::new_vec()
    }
    fn stream_octets(&self) -> Option<Vec<u8>> {
        Some(self.as_stream_slice().to_vec())
    }
}
impl TargetKind for StreamTarget<BytesMut> {
    const NAME: &'static str = "Stream<BytesMut>";
    const COMPRESS: bool = false;
    const STREAM: bool = true;
    fn make() -> Self {
        StreamTarget::new_bytes()
    }
    fn stream_octets(&self) -> Option<Vec<u8>> {
        Some(self.as_stream_slice().to_vec())
    }
}

macro_rules! comp_target {
    ($c:ident, $name:expr) => {
        impl TargetKind for $c<Vec<u8>> {
            const NAME: &'static str = concat!($name, "<Vec>");
            const COMPRESS: bool = true;
            const STREAM: bool = false;
            fn make() -> Self {
                $c::new(Vec::new())
            }
            fn stream_octets(&self) -> Option<Vec<u8>> {
                None
            }
        }
        impl TargetKind for $c<StreamTarget<Vec<u8>>> {
            const NAME: &'static str = concat!($name, "<Stream<Vec>>");
            const COMPRESS: bool = true;
            const STREAM: bool = true;
            fn make() -> Self {
                $c::new(StreamTarget::new_vec())
            }
            fn stream_octets(&self) -> Option<Vec<u8>> {
                Some(self.as_target().as_stream_slice().to_vec())
            }
        }
        impl TargetKind for $c<octseq::array::Array<512>> {
            const NAME: &'static str = concat!($name, "<Array512>");
            const COMPRESS: bool = true;
            const STREAM: bool = false;
            fn make() -> Self {
                $c::new(octseq::array::Array::new())
            }
            fn stream_octets(&self) -> Option<Vec<u8>> {
                None
            }
        }
    };
}
comp_target!(StaticCompressor, "Static");
comp_target!(TreeCompressor, "Tree");
comp_target!(HashCompressor, "Hash");

// -------------------------------------------------------------- model --

#[derive(Clone, Debug, PartialEq, Eq)]
struct Item {
    section: u8, // 0 question, 1 answer, 2 authority, 3 additional
    owner: Vec<u8>,
    rtype: u16,
    class: u16,
    ttl: u32,
    /// comparison form of the RDATA (uncompressed, all names lower-cased)
    rdata: Vec<u8>,
}

impl Item {
    fn key(&self) -> (u8, Vec<u8>, u16, u16, u32, Vec<u8>) {
        (self.section, w::lower(&self.owner), self.rtype, self.class, self.ttl, self.rdata.clone())
    }
}

enum B<T> {
    Q(QuestionBuilder<T>),
    An(AnswerBuilder<T>),
    Au(AuthorityBuilder<T>),
    Ad(AdditionalBuilder<T>),
    Gone,
}

impl<T: Composer> B<T> {
    fn section(&self) -> u8 {
        match self {
            B::Q(_) => 0,
            B::An(_) => 1,
            B::Au(_) => 2,
            B::Ad(_) => 3,
            B::Gone => 9,
        }
    }
    fn goto(self, s: u8) -> B<T> {
        match (self, s) {
            (B::Q(b), 0) => B::Q(b.question()),
            (B::Q(b), 1) => B::An(b.answer()),
            (B::Q(b), 2) => B::Au(b.authority()),
            (B::Q(b), _) => B::Ad(b.additional()),
            (B::An(b), 0) => B::Q(b.question()),
            (B::An(b), 1) => B::An(b.answer()),
            (B::An(b), 2) => B::Au(b.authority()),
            (B::An(b), _) => B::Ad(b.additional()),
            (B::Au(b), 0) => B::Q(b.question()),
            (B::Au(b), 1) => B::An(b.answer()),
            (B::Au(b), 2) => B::Au(b.authority()),
            (B::Au(b), _) => B::Ad(b.additional()),
            (B::Ad(b), 0) => B::Q(b.question()),
            (B::Ad(b), 1) => B::An(b.answer()),
            (B::Ad(b), 2) => B::Au(b.authority()),
            (B::Ad(b), _) => B::Ad(b.additional()),
            (B::Gone, _) => B::Gone,
        }
    }
    fn to_builder_and_back(self) -> B<T> {
        // `.builder()` drops everything; come back as a question builder
        match self {
            B::Q(b) => B::Q(b.builder().question()),
            B::An(b) => B::Q(b.builder().question()),
            B::Au(b) => B::Q(b.builder().question()),
            B::Ad(b) => B::Q(b.builder().question()),
            B::Gone => B::Gone,
        }
    }
    fn rewind(&mut self) {
        match self {
            B::Q(b) => b.rewind(),
            B::An(b) => b.rewind(),
            B::Au(b) => b.rewind(),
            B::Ad(b) => b.rewind(),
            B::Gone => {}
        }
    }
    fn mb(&self) -> &MessageBuilder<T> {
        match self {
            B::Q(b) => b.as_builder(),
            B::An(b) => b.as_builder(),
            B::Au(b) => b.as_builder(),
            B::Ad(b) => b.as_builder(),
            B::Gone => unreachable!(),
        }
    }
    fn mb_mut(&mut self) -> &mut MessageBuilder<T> {
        match self {
            B::Q(b) => b.as_builder_mut(),
            B::An(b) => b.as_builder_mut(),
            B::Au(b) => b.as_builder_mut(),
            B::Ad(b) => b.as_builder_mut(),
            B::Gone => unreachable!(),
        }
    }
    fn finish(self) -> T {
        match self {
            B::Q(b) => b.finish(),
            B::An(b) => b.finish(),
            B::Au(b) => b.finish(),
            B::Ad(b) => b.finish(),
            B::Gone => unreachable!(),
        }
    }
}

fn counts_of(items: &[Item]) -> [u16; 4] {
    let mut c = [0u16; 4];
    for i in items {
        c[i.section as usize] += 1;
    }
    c
}

/// Library value for (owner, type, class, ttl, fields).
fn lib_record(owner: &[u8], t: u16, class: u16, ttl: u32, fs: &[Fv]) -> Option<FlatRecord> {
    let wire = w::compose_fields(fs);
    let mut buf = vec![0u8; 12];
    buf.extend_from_slice(&wire);
    let mut p = Parser::from_ref(&buf[..]);
    p.advance(12).ok()?;
    let mut sub = p.parse_parser(wire.len()).ok()?;
    let d = AllRecordData::<&[u8], ParsedName<&[u8]>>::parse_any_rdata(Rtype::from_int(t), &mut sub).ok()?;
    if sub.remaining() != 0 {
        return None;
    }
    let d: FlatData = d.try_flatten_into().ok()?;
    Some(Record::new(Name::from_octets(owner.to_vec()).ok()?, Class::from_int(class), Ttl::from_secs(ttl), d))
}

/// The same value behind the other enum of record data (zone file types): its own dispatch code.
fn lib_zone_record(owner: &[u8], t: u16, class: u16, ttl: u32, fs: &[Fv]) -> Option<Record<Name<Vec<u8>>, domain::rdata::ZoneRecordData<Vec<u8>, Name<Vec<u8>>>>> {
    use domain::base::rdata::ParseRecordData;
    let wire = w::compose_fields(fs);
    let mut buf = vec![0u8; 12];
    buf.extend_from_slice(&wire);
    let mut p = Parser::from_ref(&buf[..]);
    p.advance(12).ok()?;
    let mut sub = p.parse_parser(wire.len()).ok()?;
    let d = domain::rdata::ZoneRecordData::<&[u8], ParsedName<&[u8]>>::parse_rdata(Rtype::from_int(t), &mut sub).ok()??;
    if sub.remaining() != 0 {
        return None;
    }
    let d: domain::rdata::ZoneRecordData<Vec<u8>, Name<Vec<u8>>> = d.try_flatten_into().ok()?;
    Some(Record::new(Name::from_octets(owner.to_vec()).ok()?, Class::from_int(class), Ttl::from_secs(ttl), d))
}

struct Obs {
    pointers: u64,
    failed_pushes: u64,
    ok_pushes: u64,
    max_len: usize,
    case_changed_by_compression: u64,
    zone_record_pushes: u64,
}

/// Full verification of the octets against the model.
fn verify(c: &mut Ctx, fam: &str, idx: u64, tname: &str, octets: &[u8], items: &[Item], hdr: (u16, u16), trace: &[String], obs: &mut Obs) -> bool {
    let rp = |c: &Ctx| c.replay_of(fam, idx, json!({"target": tname, "ops": trace, "octets_len": octets.len(), "octets_head": hex(&octets[..octets.len().min(200)])}));
    let v = |c: &mut Ctx, kind: &str, what: String| {
        let sig = format!("{}:{}", kind, tname);
        let r = rp(c);
        c.violation(&sig, &what, r);
    };
    // (ii) independent reader
    let (parsed, tr) = w::with_trace(|| w::parse_message(octets));
    let m = match parsed {
        Ok(m) => m,
        Err(e) => {
            v(c, "ref-unparseable", format!("the reference reader cannot parse the built message: {:?} ({} octets)", e, octets.len()));
            return false;
        }
    };
    if m.end != octets.len() {
        v(c, "trailing-octets", format!("message has {} octets but its sections end at {}", octets.len(), m.end));
        return false;
    }
    let want_counts = counts_of(items);
    if m.counts != want_counts {
        v(c, "counts", format!("header counts {:?} but {:?} pushes succeeded", m.counts, want_counts));
        return false;
    }
    if m.id != hdr.0 || m.flags != hdr.1 {
        v(c, "header", format!("header id/flags {:04x}/{:04x}, set {:04x}/{:04x}", m.id, m.flags, hdr.0, hdr.1));
    }
    // items in order
    let mut got: Vec<Item> = Vec::new();
    for q in &m.questions {
        got.push(Item { section: 0, owner: q.name.clone(), rtype: q.qtype, class: q.qclass, ttl: 0, rdata: vec![] });
    }
    for r in &m.records {
        match &r.rdata_cmpform {
            Some(rd) => got.push(Item { section: r.section, owner: r.owner.clone(), rtype: r.rtype, class: r.class, ttl: r.ttl, rdata: rd.clone() }),
            None => {
                v(c, "ref-bad-rdata", format!("record {} (type {}) has RDATA the reference decoder rejects", got.len(), r.rtype));
                return false;
            }
        }
    }
    for (k, (g, want)) in got.iter().zip(items).enumerate() {
        if g.key() != want.key() {
            let what = if w::lower(&g.owner) != w::lower(&want.owner) {
                "owner"
            } else if g.rdata != want.rdata {
                "rdata"
            } else {
                "header-fields"
            };
            v(c, &format!("item-differs:{}", what), format!("item {} reads back as {:?} but {:?} was pushed", k, (g.section, w::name_text(&g.owner), g.rtype, g.class, g.ttl, hex(&g.rdata[..g.rdata.len().min(40)])), (want.section, w::name_text(&want.owner), want.rtype, want.class, want.ttl, hex(&want.rdata[..want.rdata.len().min(40)]))));
            return false;
        }
        if g.owner != want.owner {
            obs.case_changed_by_compression += 1;
        }
    }
    // (iii) pointer well-formedness
    for (p, t, known) in &tr.pointers {
        if t >= p {
            v(c, "pointer-not-backwards", format!("pointer at {} targets {}", p, t));
            return false;
        }
        if !known {
            v(c, "pointer-not-at-label", format!("pointer at {} targets {} which is not the start of a label of an earlier name", p, t));
            return false;
        }
    }
    obs.pointers += tr.pointers.len() as u64;
    // (i) the library's own reader
    let res = crate::ctx::catch(|| -> Result<Vec<Item>, String> {
        // (read from an allocation of exactly the message's size)
        let exact = crate::ctx::exact(octets.as_ref());
        let msg = Message::from_octets(&exact[..]).map_err(|e| e.to_string())?;
        let mut out = Vec::new();
        for q in msg.question() {
            let q = q.map_err(|e| format!("question: {}", e))?;
            out.push(Item { section: 0, owner: q.qname().to_vec().as_slice().to_vec(), rtype: q.qtype().to_int(), class: q.qclass().to_int(), ttl: 0, rdata: vec![] });
        }
        let secs = [msg.answer().map_err(|e| e.to_string())?, msg.authority().map_err(|e| e.to_string())?, msg.additional().map_err(|e| e.to_string())?];
        for (si, sec) in secs.into_iter().enumerate() {
            for r in sec {
                let r = r.map_err(|e| format!("record header: {}", e))?;
                let rec = r.into_any_record::<AllRecordData<_, _>>().map_err(|e| format!("record data: {}", e))?;
                let data: FlatData = rec.data().clone().try_flatten_into().map_err(|_| "flatten".to_string())?;
                let mut plain = Vec::new();
                data.compose_rdata(&mut plain).unwrap();
                let mut b = vec![0u8; 12];
                b.extend_from_slice(&plain);
                let fs = w::decode_rdata(&b, 12, plain.len(), rec.rtype().to_int()).map_err(|e| format!("reference cannot decode recomposed rdata: {}", e.0))?;
                out.push(Item { section: si as u8 + 1, owner: rec.owner().to_vec().as_slice().to_vec(), rtype: rec.rtype().to_int(), class: rec.class().to_int(), ttl: rec.ttl().as_secs(), rdata: w::compose_fields_lower_all(&fs) });
            }
        }
        Ok(out)
    });
    match res {
        Ok(Ok(lib_items)) => {
            if lib_items.len() != items.len() || lib_items.iter().zip(items).any(|(a, b)| a.key() != b.key()) {
                v(c, "lib-reads-differently", format!("the library's reader yields {} items that differ from the {} pushed", lib_items.len(), items.len()));
                return false;
            }
        }
        Ok(Err(e)) => {
            v(c, "lib-unparseable", format!("the library's reader fails on the built message: {}", e));
            return false;
        }
        Err(pi) => {
            let sig = format!("panic:{}", pi.site());
            let r = rp(c);
            c.violation(&sig, &format!("panic reading the built message: {}", pi.msg), r);
            return false;
        }
    }
    true
}

fn run_seq<T: TargetKind>(c: &mut Ctx, fam: &str, idx: u64, rng: &mut Rng, size_class: u8, obs: &mut Obs) {
    let tname = T::NAME;
    let mut trace: Vec<String> = Vec::new();
    let pool = g::NamePool::new(rng, 8);
    let mb = match MessageBuilder::from_target(T::make()) {
        Ok(m) => m,
        Err(_) => return,
    };
    let mut b = B::Q(mb.question());
    let mut items: Vec<Item> = Vec::new();
    // header
    let id = rng.u16();
    let flags = rng.u16();
    {
        let h = b.mb_mut().header_mut();
        h.set_id(id);
        let fl = flags.to_be_bytes();
        // set the two flag octets through the public setters
        h.set_qr(fl[0] & 0x80 != 0);
        h.set_opcode(domain::base::iana::Opcode::from_int((fl[0] >> 3) & 0x0f));
        h.set_aa(fl[0] & 0x04 != 0);
        h.set_tc(fl[0] & 0x02 != 0);
        h.set_rd(fl[0] & 0x01 != 0);
        h.set_ra(fl[1] & 0x80 != 0);
        h.set_z(fl[1] & 0x40 != 0);
        h.set_ad(fl[1] & 0x20 != 0);
        h.set_cd(fl[1] & 0x10 != 0);
        h.set_rcode(domain::base::iana::Rcode::masked_from_int(fl[1] & 0x0f));
    }
    let mut hdr = (id, flags);
    let nops = match size_class {
        0 => rng.range(3, 25),
        1 => rng.range(10, 60),
        _ => rng.range(8, 30),
    };
    // boundary classes: prefill so that the next name lands near the boundary
    if size_class >= 2 {
        let boundary: usize = if size_class == 2 { 0x4000 } else { 0xFFFF };
        let delta = rng.range(0, 80) as isize - 40;
        let target_off = (boundary as isize + delta - if size_class == 3 { 60 } else { 0 }) as usize;
        b = b.goto(1);
        loop {
            let cur = b.mb().as_slice().len();
            if cur + 11 >= target_off {
                break;
            }
            let room = target_off - cur - 11;
            let rdl = room.min(4000);
            let fs = vec![Fv::Raw(vec![0x55u8; rdl])];
            let rec = match lib_record(&[0], 65280, 1, 1, &fs) {
                Some(r) => r,
                None => break,
            };
            let ok = if let B::An(ab) = &mut b { ab.push(&rec).is_ok() } else { false };
            if !ok {
                break;
            }
            items.push(Item { section: 1, owner: vec![0], rtype: 65280, class: 1, ttl: 1, rdata: vec![0x55u8; rdl] });
            trace.push(format!("filler({})", rdl));
        }
    }
    if rng.chance(1, 6) && T::NAME.starts_with("Vec") {
        // keep Vec targets inside the 65535-octet scope of the property
        b.mb_mut().set_push_limit(65535);
    } else if size_class == 3 {
        b.mb_mut().set_push_limit(65536);
    }
    let small = size_class < 2;
    for opi in 0..nops {
        let cur = b.section();
        let before = b.mb().as_slice().to_vec();
        let before_counts = counts_of(&items);
        let choice = rng.below(100);
        if choice < 62 {
            // push into the current section
            if cur == 0 {
                let qn = pool.pick(rng);
                let qt = g::pick_type(rng, false);
                let qc = *rng.pick(&[1u16, 1, 1, 3, 255]);
                let q = Question::new(Name::<Vec<u8>>::from_octets(qn.clone()).unwrap(), Rtype::from_int(qt), Class::from_int(qc));
                let r = if let B::Q(qb) = &mut b { qb.push(&q) } else { unreachable!() };
                trace.push(format!("push_question({}, {}) -> {}", w::name_text(&qn), qt, if r.is_ok() { "ok" } else { "err" }));
                if r.is_ok() {
                    items.push(Item { section: 0, owner: qn, rtype: qt, class: qc, ttl: 0, rdata: vec![] });
                    obs.ok_pushes += 1;
                } else {
                    obs.failed_pushes += 1;
                }
            } else if cur == 3 && rng.chance(1, 4) {
                // OPT through the opt builder
                let udp = rng.u16();
                let ver = rng.u8();
                let dok = rng.bool();
                let optrc: u16 = rng.u16() & 0x0FFF;
                let ext = (optrc >> 4) as u8;
                let nopt = rng.range(0, 3);
                let mut optdata: Vec<(u16, Vec<u8>)> = Vec::new();
                for _ in 0..nopt {
                    optdata.push((rng.range(16, 60000) as u16, rng.bytes(rng.clone().range(0, if small { 20 } else { 300 }))));
                }
                let od = optdata.clone();
                let r = if let B::Ad(ab) = &mut b {
                    ab.opt(|o| {
                        o.set_udp_payload_size(udp);
                        o.set_version(ver);
                        o.set_dnssec_ok(dok);
                        o.set_rcode(domain::base::iana::OptRcode::masked_from_int(optrc));
                        for (code, data) in &od {
                            o.push_raw_option(OptionCode::from_int(*code), data.len() as u16, |t| t.append_slice(data))?;
                        }
                        Ok(())
                    })
                } else {
                    unreachable!()
                };
                trace.push(format!("opt(udp={}, {} options) -> {}", udp, nopt, if r.is_ok() { "ok" } else { "err" }));
                if r.is_ok() {
                    let mut rd = Vec::new();
                    for (code, data) in &optdata {
                        rd.extend_from_slice(&code.to_be_bytes());
                        rd.extend_from_slice(&(data.len() as u16).to_be_bytes());
                        rd.extend_from_slice(data);
                    }
                    let ttl = ((ext as u32) << 24) | ((ver as u32) << 16) | if dok { 0x8000 } else { 0 };
                    items.push(Item { section: 3, owner: vec![0], rtype: 41, class: udp, ttl, rdata: rd });
                    // set_rcode stores the low four bits in the message header
                    hdr.1 = (hdr.1 & 0xFFF0) | (optrc & 0x000F);
                    obs.ok_pushes += 1;
                } else {
                    obs.failed_pushes += 1;
                }
            } else {
                let t = g::pick_type(rng, false);
                let owner = pool.pick(rng);
                let mut np = |r: &mut Rng| if r.chance(1, 8) { names::abs_name(r) } else { pool.pick(r) };
                let mut fs = g::fields(rng, t, &mut np);
                if small {
                    // keep tiny messages tiny: cap opaque blobs
                    for f in fs.iter_mut() {
                        if let Fv::Raw(bv) = f {
                            if bv.len() > 300 && w::layout(t).map_or(true, |l| l.len() == 1 || matches!(l.last(), Some(w::F::Rest))) {
                                // only safe to cut pure opaque tails
                            }
                        }
                    }
                }
                let class = *rng.pick(&[1u16, 1, 1, 3, 4]);
                let ttl = match rng.below(4) { 0 => 0, 1 => u32::MAX >> 1, _ => rng.u32() >> 1 };
                let Some(rec) = lib_record(&owner, t, class, ttl, &fs) else { continue };
                // one push in four goes through ZoneRecordData instead of AllRecordData
                let zrec = if rng.chance(1, 4) { lib_zone_record(&owner, t, class, ttl, &fs) } else { None };
                let r = match (&mut b, &zrec) {
                    (B::An(x), Some(z)) => x.push(z),
                    (B::Au(x), Some(z)) => x.push(z),
                    (B::Ad(x), Some(z)) => x.push(z),
                    (B::An(x), None) => { if rng.bool() { x.push(&rec) } else { x.push_ref(&rec) } }
                    (B::Au(x), None) => x.push(&rec),
                    (B::Ad(x), None) => x.push(&rec),
                    _ => unreachable!(),
                };
                if zrec.is_some() {
                    obs.zone_record_pushes += 1;
                }
                trace.push(format!("push({}, {} {}, rdlen {}) -> {}", w::name_text(&owner), w::type_name(t), t, w::compose_fields(&fs).len(), if r.is_ok() { "ok" } else { "err" }));
                if r.is_ok() {
                    items.push(Item { section: cur, owner, rtype: t, class, ttl, rdata: w::compose_fields_lower_all(&fs) });
                    obs.ok_pushes += 1;
                } else {
                    obs.failed_pushes += 1;
                }
            }
            // a failed push must leave octets and counts exactly as they were
            let after_ok = trace.last().map_or(false, |t| t.ends_with("ok"));
            if !after_ok {
                let now = b.mb().as_slice();
                let cn = b.mb().counts();
                let cnt = [cn.qdcount(), cn.ancount(), cn.nscount(), cn.arcount()];
                if now != &before[..] || cnt != before_counts {
                    let sig = format!("failed-push-not-identity:{}", tname);
                    let rp = c.replay_of(fam, idx, json!({"target": tname, "ops": trace}));
                    let diff: Vec<String> = before.iter().zip(now.iter()).enumerate().filter(|(_, (a, b))| a != b).take(6).map(|(i, (a, b))| format!("@{}:{:02x}->{:02x}", i, a, b)).collect();
                    c.violation(&sig, &format!("a failed push changed the message: {} -> {} octets, counts {:?} -> {:?}, diff {:?}, last op {:?}", before.len(), now.len(), before_counts, cnt, diff, trace.last()), rp);
                    return;
                }
            }
        } else if choice < 80 {
            // forward (or same) section
            let s = rng.range(cur as usize, 3) as u8;
            b = b.goto(s);
            trace.push(format!("goto({})", s));
        } else if choice < 88 {
            // backward: later sections are dropped
            let s = rng.range(0, cur as usize) as u8;
            b = b.goto(s);
            items.retain(|i| i.section <= s);
            trace.push(format!("back({})", s));
        } else if choice < 92 {
            b.rewind();
            items.retain(|i| i.section < cur);
            trace.push("rewind".into());
        } else if choice < 94 {
            b = b.to_builder_and_back();
            items.clear();
            trace.push("builder()".into());
        } else if choice < 98 {
            let cur_len = b.mb().as_slice().len();
            let lim = cur_len + rng.range(0, if small { 120 } else { 5000 });
            b.mb_mut().set_push_limit(lim);
            trace.push(format!("set_push_limit({})", lim));
        } else {
            b.mb_mut().clear_push_limit();
            trace.push("clear_push_limit".into());
        }
        // counts after every op
        let cn = b.mb().counts();
        let cnt = [cn.qdcount(), cn.ancount(), cn.nscount(), cn.arcount()];
        if cnt != counts_of(&items) {
            let sig = format!("counts-after-op:{}", tname);
            let rp = c.replay_of(fam, idx, json!({"target": tname, "ops": trace}));
            c.violation(&sig, &format!("header counts {:?} but the model has {:?} after {:?}", cnt, counts_of(&items), trace.last()), rp);
            return;
        }
        obs.max_len = obs.max_len.max(b.mb().as_slice().len());
        // checkpoint
        if small && opi % 6 == 5 {
            let oct = b.mb().as_slice().to_vec();
            if !verify(c, fam, idx, tname, &oct, &items, hdr, &trace, obs) {
                return;
            }
        }
    }
    let oct_before = b.mb().as_slice().to_vec();
    if oct_before.len() > 65535 {
        // outside the scope of the property (Vec without limit)
        c.count("beyond_65535_skipped", 1);
        return;
    }
    let target = b.finish();
    let oct = target.as_ref().to_vec();
    if oct != oct_before {
        let rp = c.replay_of(fam, idx, json!({"target": tname, "ops": trace}));
        c.violation(&format!("finish-changes-octets:{}", tname), "finish() returned different octets than as_slice()", rp);
        return;
    }
    if let Some(st) = target.stream_octets() {
        let l = u16::from_be_bytes([st[0], st[1]]) as usize;
        if l != st.len() - 2 || st[2..] != oct[..] {
            let rp = c.replay_of(fam, idx, json!({"target": tname, "ops": trace}));
            c.violation(&format!("stream-prefix:{}", tname), &format!("stream length prefix {} but the message has {} octets", l, st.len() - 2), rp);
            return;
        }
        c.count("stream_prefix_checked", 1);
    }
    if oct.len() > 0x4000 {
        c.count("messages_beyond_0x3FFF", 1);
    }
    if oct.len() > 0xFF00 {
        c.count("messages_near_0xFFFF", 1);
    }
    verify(c, fam, idx, tname, &oct, &items, hdr, &trace, obs);
    let nfail = trace.iter().filter(|t| t.ends_with("err")).count();
    c.eval(&(tname, size_class, items.len().min(12), nfail.min(4), counts_of(&items).map(|x| x.min(3)), oct.len() / 2048));
    if c.want_sample() && idx % 23 == 4 {
        c.sample(json!({"target": tname, "size_class": size_class, "ops": trace.iter().take(10).collect::<Vec<_>>(), "octets": oct.len(), "items": items.len()}));
    }
}

/// Land the message exactly on, just below and just above the size boundary of
/// the target (65535 octets for stream targets, the capacity of a fixed array,
/// a push limit elsewhere): the push succeeds exactly when the message still
/// fits, a refused push changes nothing, and a record that fits exactly is
/// still accepted afterwards.
fn run_edge<T: TargetKind>(c: &mut Ctx, fam: &str, idx: u64, rng: &mut Rng, obs: &mut Obs) {
    let tname = T::NAME;
    let mut trace: Vec<String> = Vec::new();
    let mb = match MessageBuilder::from_target(T::make()) {
        Ok(m) => m,
        Err(_) => return,
    };
    let mut b = B::Q(mb.question());
    let mut items: Vec<Item> = Vec::new();
    // hard boundary: the largest message the target can hold; soft: a push limit (a message of
    // exactly `limit` octets is refused by the library, which the documentation leaves open)
    let (boundary, hard): (usize, bool) = if T::STREAM && rng.chance(2, 3) {
        (65535, true)
    } else if tname.contains("Array512") {
        (512, true)
    } else if tname.contains("Array2048") {
        (2048, true)
    } else {
        let l = match rng.below(3) { 0 => rng.range(60, 600), 1 => rng.range(600, 20000), _ => rng.range(20000, 65535) };
        b.mb_mut().set_push_limit(l);
        trace.push(format!("set_push_limit({})", l));
        (l, false)
    };
    let qn = names::abs_name(rng);
    if qn.len() + 4 + 12 + 30 < boundary {
        let q = Question::new(Name::<Vec<u8>>::from_octets(qn.clone()).unwrap(), Rtype::A, Class::IN);
        if let B::Q(qb) = &mut b {
            if qb.push(&q).is_ok() {
                items.push(Item { section: 0, owner: qn.clone(), rtype: 1, class: 1, ttl: 0, rdata: vec![] });
                trace.push("push_question -> ok".into());
            }
        }
    }
    b = b.goto(1);
    let delta = rng.range(0, 6) as isize - 3; // -3..=3
    let total = (boundary as isize + delta) as usize;
    let push_filler = |b: &mut B<T>, rdl: usize| -> bool {
        let fs = vec![Fv::Raw(vec![0xA5u8; rdl])];
        let Some(rec) = lib_record(&[0], 65280, 1, 7, &fs) else { return false };
        if let B::An(ab) = b { ab.push(&rec).is_ok() } else { false }
    };
    // fillers until exactly one more record of 11..=4011 octets is needed to reach `total`
    loop {
        let cur = b.mb().as_slice().len();
        if total < cur + 11 {
            return; // cannot land (tiny limit); nothing to judge
        }
        let need = total - cur;
        if need <= 4011 {
            break;
        }
        let rdl = (need - 11 - 11).min(rng.range(500, 4000));
        if !push_filler(&mut b, rdl) {
            let rp = c.replay_of(fam, idx, json!({"target": tname, "ops": trace}));
            c.violation(&format!("edge-filler-refused:{}", tname), &format!("a record ending at {} octets was refused although the boundary is {}", cur + 11 + rdl, boundary), rp);
            return;
        }
        items.push(Item { section: 1, owner: vec![0], rtype: 65280, class: 1, ttl: 7, rdata: vec![0xA5u8; rdl] });
        trace.push(format!("filler({})", rdl));
    }
    let cur = b.mb().as_slice().len();
    let before = b.mb().as_slice().to_vec();
    let rdl = total - cur - 11;
    let ok = push_filler(&mut b, rdl);
    trace.push(format!("edge push ending at {} (boundary {} {}) -> {}", total, boundary, if hard { "hard" } else { "push limit" }, if ok { "ok" } else { "err" }));
    let must_fit = if hard { total <= boundary } else { total < boundary };
    let must_fail = total > boundary;
    let now = b.mb().as_slice().len();
    if ok {
        items.push(Item { section: 1, owner: vec![0], rtype: 65280, class: 1, ttl: 7, rdata: vec![0xA5u8; rdl] });
        obs.ok_pushes += 1;
    } else {
        obs.failed_pushes += 1;
    }
    if ok && must_fail {
        let rp = c.replay_of(fam, idx, json!({"target": tname, "ops": trace}));
        c.violation(&format!("edge-overlong-accepted:{}", tname), &format!("a push that makes the message {} octets long succeeded; the boundary is {}", total, boundary), rp);
        return;
    }
    if !ok && must_fit {
        let rp = c.replay_of(fam, idx, json!({"target": tname, "ops": trace}));
        c.violation(&format!("edge-fitting-refused:{}", tname), &format!("a push that makes the message {} octets long was refused; the boundary is {}", total, boundary), rp);
        return;
    }
    if ok && now != total || !ok && b.mb().as_slice() != &before[..] {
        let rp = c.replay_of(fam, idx, json!({"target": tname, "ops": trace}));
        c.violation(&format!("failed-push-not-identity:{}", tname), &format!("after the edge push the message has {} octets (before {}, aimed at {})", now, cur, total), rp);
        return;
    }
    if !ok {
        // a record that fits exactly is still accepted after the refusal
        let fit = if hard { boundary } else { boundary - 1 };
        if fit >= cur + 11 {
            let rdl2 = fit - cur - 11;
            let ok2 = push_filler(&mut b, rdl2);
            trace.push(format!("push ending at {} -> {}", fit, if ok2 { "ok" } else { "err" }));
            if !ok2 {
                let rp = c.replay_of(fam, idx, json!({"target": tname, "ops": trace}));
                c.violation(&format!("edge-fitting-refused:{}", tname), &format!("after a refused push, a push that makes the message {} octets long was refused; the boundary is {}", fit, boundary), rp);
                return;
            }
            items.push(Item { section: 1, owner: vec![0], rtype: 65280, class: 1, ttl: 7, rdata: vec![0xA5u8; rdl2] });
        }
    }
    c.count(if hard { "edge_hard_boundary" } else { "edge_push_limit" }, 1);
    if delta == 1 && hard && T::STREAM {
        c.count("edge_stream_65536", 1);
    }
    let hdr = (u16::from_be_bytes([before[0], before[1]]), u16::from_be_bytes([before[2], before[3]]));
    let oct_before = b.mb().as_slice().to_vec();
    let target = b.finish();
    let oct = target.as_ref().to_vec();
    if oct != oct_before {
        let rp = c.replay_of(fam, idx, json!({"target": tname, "ops": trace}));
        c.violation(&format!("finish-changes-octets:{}", tname), "finish() returned different octets than as_slice()", rp);
        return;
    }
    if let Some(st) = target.stream_octets() {
        let l = u16::from_be_bytes([st[0], st[1]]) as usize;
        if l != st.len() - 2 || st[2..] != oct[..] {
            let rp = c.replay_of(fam, idx, json!({"target": tname, "ops": trace}));
            c.violation(&format!("stream-prefix:{}", tname), &format!("stream length prefix {} but the message has {} octets", l, st.len() - 2), rp);
            return;
        }
        c.count("stream_prefix_checked", 1);
    }
    verify(c, fam, idx, tname, &oct, &items, hdr, &trace, obs);
    c.eval(&("edge", tname, hard, delta, boundary / 4096));
}

pub fn run(c: &mut Ctx) {
    c.families(2);
    let mut obs = Obs { pointers: 0, failed_pushes: 0, ok_pushes: 0, max_len: 0, case_changed_by_compression: 0, zone_record_pushes: 0 };
    let fam = "edge";
    let total = c.total(12_000, 1_500_000);
    for idx in c.cases(fam, total) {
        if c.out_of_time() {
            break;
        }
        let mut rng = c.case_rng(fam, idx);
        let tk = idx % 12;
        let r = crate::ctx::catch(|| {
            let c = &mut *c;
            let obs = &mut obs;
            let rng = &mut rng;
            match tk {
                0 => run_edge::<Vec<u8>>(c, fam, idx, rng, obs),
                1 => run_edge::<BytesMut>(c, fam, idx, rng, obs),
                2 => run_edge::<octseq::array::Array<512>>(c, fam, idx, rng, obs),
                3 => run_edge::<octseq::array::Array<2048>>(c, fam, idx, rng, obs),
                4 => run_edge::<StreamTarget<Vec<u8>>>(c, fam, idx, rng, obs),
                5 => run_edge::<StreamTarget<BytesMut>>(c, fam, idx, rng, obs),
                6 => run_edge::<StaticCompressor<StreamTarget<Vec<u8>>>>(c, fam, idx, rng, obs),
                7 => run_edge::<TreeCompressor<StreamTarget<Vec<u8>>>>(c, fam, idx, rng, obs),
                8 => run_edge::<HashCompressor<StreamTarget<Vec<u8>>>>(c, fam, idx, rng, obs),
                9 => run_edge::<StaticCompressor<octseq::array::Array<512>>>(c, fam, idx, rng, obs),
                10 => run_edge::<TreeCompressor<Vec<u8>>>(c, fam, idx, rng, obs),
                _ => run_edge::<HashCompressor<octseq::array::Array<512>>>(c, fam, idx, rng, obs),
            }
        });
        if let Err(pi) = r {
            let sig = format!("panic:{}", pi.site());
            let rp = c.replay_of(fam, idx, json!({"target_kind": tk}));
            c.violation(&sig, &format!("panic while building a message up to its size boundary: {} at {}:{}", pi.msg, pi.file, pi.line), rp);
        }
    }
    let fam = "seq";
    let total = c.total(300_000, 40_000_000);
    for idx in c.cases(fam, total) {
        if c.out_of_time() {
            break;
        }
        let mut rng = c.case_rng(fam, idx);
        // size classes: 0 tiny, 1 medium (fixed arrays overflow), 2 around 0x3FFF, 3 around 0xFFFF
        let sc = match idx % 20 {
            0 | 1 => 2u8,
            2 => 3u8,
            3..=9 => 1u8,
            _ => 0u8,
        };
        let tk = (idx / 20 + idx) % 15;
        let r = crate::ctx::catch(|| {
            let c = &mut *c;
            let obs = &mut obs;
            let rng = &mut rng;
            match (tk, sc) {
                (0, _) => run_seq::<Vec<u8>>(c, fam, idx, rng, sc, obs),
                (1, _) => run_seq::<BytesMut>(c, fam, idx, rng, sc, obs),
                (2, 0 | 1) => run_seq::<octseq::array::Array<512>>(c, fam, idx, rng, sc, obs),
                (3, 0 | 1) => run_seq::<octseq::array::Array<2048>>(c, fam, idx, rng, sc, obs),
                (4, _) => run_seq::<StreamTarget<Vec<u8>>>(c, fam, idx, rng, sc, obs),
                (5, _) => run_seq::<StreamTarget<BytesMut>>(c, fam, idx, rng, sc, obs),
                (6, _) => run_seq::<StaticCompressor<Vec<u8>>>(c, fam, idx, rng, sc, obs),
                (7, _) => run_seq::<TreeCompressor<Vec<u8>>>(c, fam, idx, rng, sc, obs),
                (8, _) => run_seq::<HashCompressor<Vec<u8>>>(c, fam, idx, rng, sc, obs),
                (9, _) => run_seq::<StaticCompressor<StreamTarget<Vec<u8>>>>(c, fam, idx, rng, sc, obs),
                (10, _) => run_seq::<TreeCompressor<StreamTarget<Vec<u8>>>>(c, fam, idx, rng, sc, obs),
                (11, _) => run_seq::<HashCompressor<StreamTarget<Vec<u8>>>>(c, fam, idx, rng, sc, obs),
                (12, 0 | 1) => run_seq::<StaticCompressor<octseq::array::Array<512>>>(c, fam, idx, rng, sc, obs),
                (13, 0 | 1) => run_seq::<TreeCompressor<octseq::array::Array<512>>>(c, fam, idx, rng, sc, obs),
                (14, 0 | 1) => run_seq::<HashCompressor<octseq::array::Array<512>>>(c, fam, idx, rng, sc, obs),
                (2 | 12, _) => run_seq::<TreeCompressor<Vec<u8>>>(c, fam, idx, rng, sc, obs),
                (3 | 13, _) => run_seq::<HashCompressor<StreamTarget<Vec<u8>>>>(c, fam, idx, rng, sc, obs),
                _ => run_seq::<StaticCompressor<StreamTarget<Vec<u8>>>>(c, fam, idx, rng, sc, obs),
            }
        });
        if let Err(pi) = r {
            let sig = format!("panic:{}", pi.site());
            let rp = c.replay_of(fam, idx, json!({"target_kind": tk, "size_class": sc}));
            c.violation(&sig, &format!("panic while building a message: {} at {}:{}", pi.msg, pi.file, pi.line), rp);
        }
    }
    c.count("pointers_emitted", obs.pointers);
    c.count("failed_pushes", obs.failed_pushes);
    c.count("ok_pushes", obs.ok_pushes);
    c.count("owner_case_changed_by_compression", obs.case_changed_by_compression);
    c.count("pushes_through_ZoneRecordData", obs.zone_record_pushes);
    if !c.replaying() {
        c.floor("pointers_emitted", 100);
        c.floor("failed_pushes", 100);
        c.floor("ok_pushes", 1000);
        c.floor("stream_prefix_checked", 100);
        c.floor("messages_beyond_0x3FFF", 10);
        c.floor("messages_near_0xFFFF", 1);
        c.floor("edge_hard_boundary", 100);
        c.floor("edge_push_limit", 100);
        c.floor("edge_stream_65536", 10);
        c.floor("pushes_through_ZoneRecordData", 100);
    }
}
