//! C03 — every domain-name value obtainable through the safe API is valid;
//! limits are enforced at construction; text / wire round trips.
//!
//! Oracles: the reference validators of `refimpl::wire` on every produced
//! value; an abstract (closed_len, open_label_len) model of the name builder
//! that says which steps *would break the limits* (those must return Err);
//! round-trip equality.
use crate::ctx::{hex, Ctx};
use crate::gen::names;
use crate::refimpl::wire::{validate_abs_name, validate_rel_name};
use crate::rng::Rng;
use bytes::{Bytes, BytesMut};
use domain::base::name::{Name, NameBuilder, ParsedName, RelativeName, ToName, ToRelativeName, UncertainName};
use octseq::builder::{EmptyBuilder, FreezeBuilder, OctetsBuilder};
use octseq::parse::Parser;
use serde_json::{json, Value};
use std::str::FromStr;

// ------------------------------------------------------------ helpers --

fn chk_abs(c: &mut Ctx, fam: &str, idx: u64, api: &str, oct: &[u8], extra: &dyn Fn() -> Value) -> bool {
    if let Err(e) = validate_abs_name(oct) {
        let sig = format!("invalid-name:{}:{:?}{}", api, e, if oct.len() > 255 { format!(":len={}", oct.len().min(300)) } else { String::new() });
        let rp = c.replay_of(fam, idx, json!({"api": api, "octets": hex(oct), "ctx": extra()}));
        c.violation(&sig, &format!("{} produced an invalid absolute name ({:?}, {} octets): {}", api, e, oct.len(), hex(&oct[..oct.len().min(80)])), rp);
        return false;
    }
    c.count("names_validated", 1);
    true
}

fn chk_rel(c: &mut Ctx, fam: &str, idx: u64, api: &str, oct: &[u8], extra: &dyn Fn() -> Value) -> bool {
    if let Err(e) = validate_rel_name(oct) {
        let sig = format!("invalid-relname:{}:{:?}{}", api, e, if oct.len() > 254 { format!(":len={}", oct.len().min(300)) } else { String::new() });
        let rp = c.replay_of(fam, idx, json!({"api": api, "octets": hex(oct), "ctx": extra()}));
        c.violation(&sig, &format!("{} produced an invalid relative name ({:?}, {} octets): {}", api, e, oct.len(), hex(&oct[..oct.len().min(80)])), rp);
        return false;
    }
    c.count("names_validated", 1);
    true
}

// ------------------------------------------------------ builder model --

#[derive(Clone, Copy, Debug, PartialEq, Eq)]
struct M {
    closed: usize,
    open: Option<usize>,
}
impl M {
    fn len(&self) -> usize {
        self.closed + self.open.map_or(0, |l| l + 1)
    }
    fn end(&mut self) {
        if let Some(l) = self.open.take() {
            self.closed += l + 1;
        }
    }
}

#[derive(Clone, Debug)]
enum Op {
    Push,
    AppendSlice(usize),
    EndLabel,
    AppendLabel(usize),
    AppendDecU8(u8),
    AppendHex(u8),
    AppendName(usize), // relative name of that many octets
}

impl Op {
    fn name(&self) -> &'static str {
        match self {
            Op::Push => "push",
            Op::AppendSlice(_) => "append_slice",
            Op::EndLabel => "end_label",
            Op::AppendLabel(_) => "append_label",
            Op::AppendDecU8(_) => "append_dec_u8_label",
            Op::AppendHex(_) => "append_hex_digit_label",
            Op::AppendName(_) => "append_name",
        }
    }
}

/// What the limits demand: Some(reason) if the step would break them.
/// Also applies the step to the model when it is legal. For the multi-push
/// ops a failing step leaves the partial state the individual pushes imply.
fn model_step(m: &mut M, op: &Op) -> Option<String> {
    let verdict = |total: usize, label: usize| -> Option<String> {
        if label > 63 {
            Some("label>63".into())
        } else if total > 254 {
            Some(if total == 255 { "name=255".into() } else { "name>255".to_string() })
        } else {
            None
        }
    };
    match *op {
        Op::Push => match m.open {
            Some(l) => {
                let v = verdict(m.len() + 1, l + 1);
                if v.is_none() {
                    m.open = Some(l + 1);
                }
                v
            }
            None => {
                let v = verdict(m.len() + 2, 1);
                if v.is_none() {
                    m.open = Some(1);
                }
                v
            }
        },
        Op::AppendSlice(0) => None,
        Op::AppendSlice(n) => match m.open {
            Some(l) => {
                let v = verdict(m.len() + n, l + n);
                if v.is_none() {
                    m.open = Some(l + n);
                }
                v
            }
            None => {
                let v = verdict(m.len() + 1 + n, n);
                if v.is_none() {
                    m.open = Some(n);
                }
                v
            }
        },
        Op::EndLabel => {
            m.end();
            None
        }
        Op::AppendLabel(n) => {
            let save = *m;
            m.end();
            if n == 0 {
                return None;
            }
            let v = verdict(m.len() + 1 + n, n);
            if v.is_none() {
                m.closed += 1 + n;
            } else {
                *m = save;
            }
            v
        }
        Op::AppendDecU8(val) => {
            m.end();
            let d = if val >= 100 { 3 } else if val >= 10 { 2 } else { 1 };
            for _ in 0..d {
                if let Some(v) = model_step(m, &Op::Push) {
                    return Some(v);
                }
            }
            m.end();
            None
        }
        Op::AppendHex(_) => {
            m.end();
            if let Some(v) = model_step(m, &Op::Push) {
                return Some(v);
            }
            m.end();
            None
        }
        Op::AppendName(k) => {
            let save = *m;
            m.end();
            if m.len() + k > 254 {
                let t = m.len() + k;
                *m = save;
                return Some(if t == 255 { "name=255".into() } else { "name>255".into() });
            }
            m.closed += k;
            None
        }
    }
}

trait Tgt: OctetsBuilder + AsRef<[u8]> + AsMut<[u8]> + EmptyBuilder + FreezeBuilder + Clone {}
impl<T: OctetsBuilder + AsRef<[u8]> + AsMut<[u8]> + EmptyBuilder + FreezeBuilder + Clone> Tgt for T {}

fn rel_of_len(k: usize, fill: u8) -> Vec<u8> {
    // relative name of exactly k octets (k == 0 or k >= 2)
    let mut v = Vec::new();
    let mut rem = k;
    while rem > 0 {
        let part = if rem <= 64 { rem } else { 64.min(rem - 2) };
        v.push((part - 1) as u8);
        v.extend(std::iter::repeat(fill).take(part - 1));
        rem -= part;
    }
    v
}

fn apply<B: Tgt>(b: &mut NameBuilder<B>, op: &Op, fill: u8) -> Result<(), String>
where
    B::Octets: AsRef<[u8]>,
{
    match *op {
        Op::Push => b.push(fill).map_err(|e| format!("{:?}", e)),
        Op::AppendSlice(n) => b.append_slice(&vec![fill; n]).map_err(|e| format!("{:?}", e)),
        Op::EndLabel => {
            b.end_label();
            Ok(())
        }
        Op::AppendLabel(n) => b.append_label(&vec![fill; n]).map_err(|e| format!("{:?}", e)),
        Op::AppendDecU8(v) => b.append_dec_u8_label(v).map_err(|e| format!("{:?}", e)),
        Op::AppendHex(v) => b.append_hex_digit_label(v).map_err(|e| format!("{:?}", e)),
        Op::AppendName(k) => {
            let r = RelativeName::from_octets(rel_of_len(k, fill)).expect("harness: relative name");
            b.append_name(&r).map_err(|e| format!("{:?}", e))
        }
    }
}

/// Bring a fresh builder into model state `m` using only in-limit steps.
fn construct<B: Tgt>(m: &M, shape: usize) -> Option<NameBuilder<B>>
where
    B::Octets: AsRef<[u8]>,
{
    let mut b = NameBuilder::<B>::new();
    let mut rem = m.closed;
    if rem == 1 {
        return None;
    }
    let mut i = 0;
    while rem > 0 {
        // shapes: 0 = long labels first, 1 = short labels first, 2 = 10-octet labels
        let want = match shape {
            0 => 64,
            1 => 2 + (i % 5),
            _ => 10,
        };
        let part = if rem <= want || rem - want == 1 { if rem <= 64 { rem } else { 64.min(rem - 2) } } else { want.min(64) };
        b.append_label(&vec![b'a' + (i % 26) as u8; part - 1]).ok()?;
        rem -= part;
        i += 1;
    }
    if let Some(l) = m.open {
        if l == 0 {
            return None;
        }
        b.append_slice(&vec![b'o'; l]).ok()?;
    }
    if b.len() != m.len() || b.in_label() != m.open.is_some() {
        return None;
    }
    Some(b)
}

/// One builder step compared with the model. Returns false if the builder
/// left the model's state space (stop the sequence).
fn step_and_check<B: Tgt>(c: &mut Ctx, fam: &str, idx: u64, tname: &str, b: &mut NameBuilder<B>, m: &mut M, op: &Op, fill: u8, finalize: bool) -> bool
where
    B::Octets: AsRef<[u8]>,
{
    let before = *m;
    let before_oct = b.as_slice().to_vec();
    let must_fail = model_step(m, op);
    let got = apply(b, op, fill);
    let ctxs = if before.open.is_some() && matches!(op, Op::Push | Op::AppendSlice(_)) { "inlabel" } else { "newlabel" };
    let describe = |op: &Op| json!({"target": tname, "state": {"closed": before.closed, "open": before.open}, "op": format!("{:?}", op)});
    c.sig(&(op.name(), before.len().min(230).max(229), before.open.map(|l| l.min(64)), must_fail.is_some(), got.is_ok(), before.len() + match op { Op::AppendSlice(n) | Op::AppendLabel(n) | Op::AppendName(n) => *n, _ => 1 } > 254));
    match (&must_fail, &got) {
        (Some(why), Ok(())) => {
            let sig = format!("builder:accept:{}:{}:{}", op.name(), ctxs, why);
            let rp = c.replay_of(fam, idx, describe(op));
            c.violation(&sig, &format!("NameBuilder::{} returned Ok at (len={}, open label={:?}) although the step breaks the limits ({}); builder now holds {} octets", op.name(), before.len(), before.open, why, b.len()), rp);
            c.count("builder_accepts_overlimit", 1);
            // what does finalisation make of the over-limit state?
            if let Ok(n) = b.clone().into_name() {
                chk_abs(c, fam, idx, "NameBuilder::into_name[after over-limit accept]", n.as_slice(), &|| describe(op));
            }
            return false;
        }
        (Some(_), Err(_)) => {
            c.count("builder_rejections_required", 1);
            // the builder must stay usable: same state for the atomic ops,
            // a valid partial state for the multi-push ops
            match op {
                Op::AppendDecU8(_) | Op::AppendHex(_) => {
                    if b.len() != m.len() || b.in_label() != m.open.is_some() {
                        // resynchronise from the builder if it is a valid state
                        if b.len() > 254 {
                            let sig = format!("builder:state-after-err:{}", op.name());
                            let rp = c.replay_of(fam, idx, describe(op));
                            c.violation(&sig, &format!("after a failed {} the builder holds {} octets", op.name(), b.len()), rp);
                            return false;
                        }
                        return false;
                    }
                }
                _ => {
                    if b.as_slice().len() != before_oct.len() || b.in_label() != before.open.is_some() {
                        let sig = format!("builder:changed-by-failed:{}", op.name());
                        let rp = c.replay_of(fam, idx, describe(op));
                        c.violation(&sig, &format!("failed {} changed the builder: {} -> {} octets, in_label {} -> {}", op.name(), before_oct.len(), b.len(), before.open.is_some(), b.in_label()), rp);
                        return false;
                    }
                }
            }
        }
        (None, Err(e)) => {
            // over-strictness is not what the property is about; but the
            // builder must remain unchanged and usable
            c.count("builder_rejections_unrequired", 1);
            c.note(&format!("NameBuilder::{} rejected an in-limit step ({})", op.name(), e));
            *m = before;
            if b.len() != before_oct.len() {
                return false;
            }
        }
        (None, Ok(())) => {
            c.count("builder_accepts", 1);
            if b.len() != m.len() || b.in_label() != m.open.is_some() {
                let sig = format!("builder:state-mismatch:{}:{}", op.name(), ctxs);
                let rp = c.replay_of(fam, idx, describe(op));
                c.violation(&sig, &format!("after {} at (len={}, open={:?}): builder len {} in_label {}, model len {} open {:?}", op.name(), before.len(), before.open, b.len(), b.in_label(), m.len(), m.open), rp);
                return false;
            }
        }
    }
    if finalize {
        let rel = b.clone().finish();
        let ex = || describe(op);
        if !chk_rel(c, fam, idx, &format!("NameBuilder::finish[after {}]", op.name()), rel.as_slice(), &ex) {
            return false;
        }
        if let Ok(n) = b.clone().into_name() {
            if !chk_abs(c, fam, idx, &format!("NameBuilder::into_name[after {}]", op.name()), n.as_slice(), &ex) {
                return false;
            }
        }
    }
    true
}

fn builder_boundary<B: Tgt>(c: &mut Ctx, tname: &str)
where
    B::Octets: AsRef<[u8]>,
{
    let fam = format!("bb-{}", tname);
    // states: closed in 186..=254 (so that open labels up to 63 reach the limit), open none or 1..=63
    let full = c.scale >= 1.0 && !c.is_quick();
    let mut states = Vec::new();
    for closed in 186..=254usize {
        states.push(M { closed, open: None });
        for l in 1..=63usize {
            if closed + 1 + l <= 254 {
                states.push(M { closed, open: Some(l) });
            }
        }
    }
    let n = states.len() as u64;
    for idx in c.cases(&fam, n) {
        if c.out_of_time() {
            break;
        }
        let st = states[idx as usize];
        // quick: every state whose length is within 12 of the limit, a stride elsewhere
        if !full && st.len() < 242 && idx % 7 != 0 {
            continue;
        }
        let shape = (idx % 3) as usize;
        let Some(base) = construct::<B>(&st, shape) else {
            c.count("bb_states_unconstructible", 1);
            continue;
        };
        c.count("bb_states", 1);
        let room = 254usize.saturating_sub(st.len());
        let mut ops: Vec<Op> = vec![Op::Push, Op::EndLabel, Op::AppendDecU8(7), Op::AppendDecU8(42), Op::AppendDecU8(255), Op::AppendHex(0xA)];
        let args: Vec<usize> = if full { (0..=70).collect() } else {
            let mut a: Vec<usize> = (0..=3).collect();
            for d in 0..=4 {
                a.push(room.saturating_sub(d));
                a.push(room + d);
                if let Some(l) = st.open { a.push((63usize.saturating_sub(l)).saturating_sub(d)); a.push(63 - l + d); }
            }
            a.extend([62, 63, 64, 65, 70]);
            a.sort_unstable();
            a.dedup();
            a
        };
        for &a in &args {
            ops.push(Op::AppendSlice(a));
            ops.push(Op::AppendLabel(a));
            if a != 1 && a <= 70 {
                ops.push(Op::AppendName(a));
            }
        }
        for op in &ops {
            let mut b = base.clone();
            let mut m = st;
            let r = crate::ctx::catch(|| step_and_check(c, &fam, idx, tname, &mut b, &mut m, op, b'x', true));
            if let Err(pi) = r {
                let sig = format!("panic:{}", pi.site());
                let rp = c.replay_of(&fam, idx, json!({"op": format!("{:?}", op), "state": format!("{:?}", st)}));
                c.violation(&sig, &format!("panic in NameBuilder::{}: {}", op.name(), pi.msg), rp);
            }
            c.evals_n(1);
        }
    }
}

fn builder_sequences<B: Tgt>(c: &mut Ctx, tname: &str)
where
    B::Octets: AsRef<[u8]>,
{
    let fam = format!("bs-{}", tname);
    let total = c.total(200_000, 16_000_000);
    for idx in c.cases(&fam, total) {
        if c.out_of_time() {
            break;
        }
        let mut rng = c.case_rng(&fam, idx);
        let mut b = NameBuilder::<B>::new();
        let mut m = M { closed: 0, open: None };
        let nops = rng.range(1, 60);
        let big = rng.chance(1, 2);
        let mut trace = Vec::new();
        let r = crate::ctx::catch(|| {
            for _ in 0..nops {
                let op = match rng.below(12) {
                    0..=2 => Op::Push,
                    3 | 4 => Op::AppendSlice(if big { rng.range(0, 66) } else { rng.range(0, 5) }),
                    5 => Op::EndLabel,
                    6 | 7 => Op::AppendLabel(if big { rng.range(0, 66) } else { rng.range(0, 9) }),
                    8 => Op::AppendDecU8(rng.u8()),
                    9 => Op::AppendHex(rng.u8()),
                    _ => {
                        let k = rng.range(0, if big { 80 } else { 8 });
                        Op::AppendName(if k == 1 { 2 } else { k })
                    }
                };
                trace.push(format!("{:?}", op));
                let fin = rng.chance(1, 4);
                let fill = *rng.pick(b"abcXYZ09\x00\xff.");
                if !step_and_check(c, &fam, idx, tname, &mut b, &mut m, &op, fill, fin) {
                    return;
                }
            }
            // finalisation
            let ex = || json!({"trace": trace});
            let rel = b.clone().finish();
            chk_rel(c, &fam, idx, "NameBuilder::finish", rel.as_slice(), &ex);
            match b.clone().into_name() {
                Ok(n) => {
                    chk_abs(c, &fam, idx, "NameBuilder::into_name", n.as_slice(), &ex);
                }
                Err(_) => c.count("into_name_err", 1),
            }
            let origin = Name::<Vec<u8>>::from_octets(names::abs_name(&mut rng)).expect("harness: generated name valid");
            let mut mm = m;
            mm.end();
            let must_fail = mm.len() + origin.len() > 255;
            match b.clone().append_origin(&origin) {
                Ok(n) => {
                    if must_fail {
                        let rp = c.replay_of(&fam, idx, json!({"trace": trace, "origin": hex(origin.as_slice())}));
                        c.violation("builder:accept:append_origin", &format!("append_origin accepted {} + {} octets", mm.len(), origin.len()), rp);
                    }
                    chk_abs(c, &fam, idx, "NameBuilder::append_origin", n.as_slice(), &ex);
                }
                Err(_) => c.count("append_origin_err", 1),
            }
        });
        if let Err(pi) = r {
            let sig = format!("panic:{}", pi.site());
            let rp = c.replay_of(&fam, idx, json!({"trace": trace}));
            c.violation(&sig, &format!("panic during builder sequence: {} at {}:{}", pi.msg, pi.file, pi.line), rp);
        }
        if c.want_sample() && idx % 5 == 1 {
            c.sample(json!({"family": fam, "ops": trace.iter().take(12).collect::<Vec<_>>(), "final_len": m.len()}));
        }
        c.evals_n(1);
    }
}

// ------------------------------------------------------- constructors --

fn from_wire(c: &mut Ctx) {
    let fam = "wire";
    let total = c.total(600_000, 48_000_000);
    for idx in c.cases(fam, total) {
        if c.out_of_time() {
            break;
        }
        let mut rng = c.case_rng(fam, idx);
        let w = match rng.below(10) {
            0..=2 => names::abs_name(&mut rng),
            3..=5 => names::rel_name(&mut rng, 300),
            6 => {
                // relative and absolute names just around the limits
                let l = rng.range(253, 258);
                let mut n = names::max_name(&mut rng, l);
                if rng.bool() {
                    n.pop();
                }
                n
            }
            _ => names::hostile_wire(&mut rng),
        };
        let w = crate::ctx::exact(&w);
        let ref_abs = validate_abs_name(&w).is_ok();
        let ref_rel = validate_rel_name(&w).is_ok();
        let ex = || json!({"input": hex(&w)});
        let r = c.guard(fam, idx, ex, || {
            let a = Name::from_octets(w.clone()).ok().map(|n| n.as_slice().to_vec());
            let a2 = Name::from_slice(&w).ok().map(|n| n.as_slice().to_vec());
            let a3 = Name::from_octets(Bytes::from(w.clone())).ok().map(|n| n.as_slice().to_vec());
            let r = RelativeName::from_octets(w.clone()).ok().map(|n| n.as_slice().to_vec());
            let r2 = RelativeName::from_slice(&w).ok().map(|n| n.as_slice().to_vec());
            let u = UncertainName::from_octets(w.clone()).ok().map(|u| (u.is_absolute(), u.as_slice().to_vec()));
            // an uncertain name keeps its kind in its text (trailing dot or none): text and back
            let utext = UncertainName::from_octets(w.clone()).ok().filter(|u| !u.as_slice().is_empty()).map(|u| { let t = format!("{}", u); let back = UncertainName::<Vec<u8>>::from_str(&t).ok().map(|b| (b.is_absolute(), b.as_slice().to_vec())); (t, back) });
            // Parser-based: the name at the start of a buffer with trailing octets
            let mut buf = w.clone();
            buf.extend_from_slice(&[0xAA, 0xBB]);
            let mut p = Parser::from_ref(&buf[..]);
            let pn = Name::parse(&mut p).ok().map(|n: Name<&[u8]>| (n.as_slice().to_vec(), p.pos()));
            let mut p2 = Parser::from_ref(&buf[..]);
            let pp = ParsedName::parse(&mut p2).ok().map(|n| (n.to_vec().as_slice().to_vec(), p2.pos()));
            (a, a2, a3, r, r2, u, pn, pp, utext)
        });
        let Some((a, a2, a3, r, r2, u, pn, pp, utext)) = r else { continue };
        if let (Some((t, back)), Some(orig)) = (&utext, &u) {
            if back.as_ref() != Some(orig) {
                let shape = if orig.1 == [0u8] { "root" } else if orig.0 { "absolute" } else { "relative" };
                let rp = c.replay_of(fam, idx, json!({"input": hex(&w), "text": t}));
                c.violation(&format!("text-roundtrip:UncertainName:{}", shape), &format!("the {} uncertain name {} is written as {:?}, which reads back as {:?}", shape, hex(&w), t, back.as_ref().map(|b| (b.0, hex(&b.1)))), rp);
            }
            c.count("uncertain_text_roundtrips", 1);
        }
        for (api, v) in [("Name::from_octets", &a), ("Name::from_slice", &a2), ("Name::from_octets<Bytes>", &a3)] {
            if let Some(o) = v {
                chk_abs(c, fam, idx, api, o, &ex);
                if o != &w {
                    c.violation(&format!("wire-roundtrip:{}", api), "from_octets changed the octets", c.replay_of(fam, idx, ex()));
                }
            }
            if v.is_some() != ref_abs {
                // accept <=> valid: rejecting a valid name breaks the wire round trip
                let sig = format!("{}:{}", if ref_abs { "reject-valid" } else { "accept-invalid" }, api);
                let rp = c.replay_of(fam, idx, ex());
                if ref_abs {
                    c.violation(&sig, &format!("{} rejected the valid name {}", api, hex(&w)), rp);
                }
            }
        }
        for (api, v) in [("RelativeName::from_octets", &r), ("RelativeName::from_slice", &r2)] {
            if let Some(o) = v {
                chk_rel(c, fam, idx, api, o, &ex);
            } else if ref_rel {
                let rp = c.replay_of(fam, idx, ex());
                c.violation(&format!("reject-valid:{}", api), &format!("{} rejected the valid relative name {}", api, hex(&w)), rp);
            }
        }
        if let Some((abs, o)) = &u {
            if *abs {
                chk_abs(c, fam, idx, "UncertainName::from_octets", o, &ex);
            } else {
                chk_rel(c, fam, idx, "UncertainName::from_octets", o, &ex);
            }
        } else if ref_abs || ref_rel {
            let rp = c.replay_of(fam, idx, ex());
            c.violation("reject-valid:UncertainName::from_octets", &format!("UncertainName::from_octets rejected the valid name {:?}", hex(&w)), rp);
        }
        if let Some((o, pos)) = &pn {
            chk_abs(c, fam, idx, "Name::parse", o, &ex);
            if *pos != o.len() {
                c.violation("parse-pos:Name::parse", "parser position after Name::parse is not the name's length", c.replay_of(fam, idx, ex()));
            }
        }
        if let Some((o, _)) = &pp {
            chk_abs(c, fam, idx, "ParsedName::to_vec", o, &ex);
        }
        if ref_abs && (pn.is_none() || pp.is_none()) {
            let rp = c.replay_of(fam, idx, ex());
            c.violation("reject-valid:parse", &format!("Name::parse / ParsedName::parse rejected the valid name {}", hex(&w)), rp);
        }
        c.eval(&("wire", ref_abs, ref_rel, a.is_some(), r.is_some(), u.as_ref().map(|x| x.0), pn.is_some(), w.len().min(257) / 16));
    }
}

fn from_text(c: &mut Ctx) {
    let fam = "text";
    let total = c.total(600_000, 48_000_000);
    for idx in c.cases(fam, total) {
        if c.out_of_time() {
            break;
        }
        let mut rng = c.case_rng(fam, idx);
        let hostile = rng.chance(1, 3);
        let (text, origin_wire) = if hostile {
            (names::hostile_text(&mut rng), None)
        } else {
            let w = if rng.chance(1, 2) { names::abs_name(&mut rng) } else { let mut r = names::rel_name(&mut rng, 254); r.push(0); if r.len() > 255 { vec![0] } else { r } };
            let dot = rng.bool();
            (names::presentation(&mut rng, &w, dot), Some(w))
        };
        let ex = || json!({"text": text});
        let r = c.guard(fam, idx, ex, || {
            let a = Name::<Vec<u8>>::from_str(&text).ok().map(|n| n.as_slice().to_vec());
            let a2 = Name::<Bytes>::from_chars(text.chars()).ok().map(|n| n.as_slice().to_vec());
            let r = RelativeName::<Vec<u8>>::from_str(&text).ok().map(|n| n.as_slice().to_vec());
            let u = UncertainName::<Vec<u8>>::from_str(&text).ok().map(|u| (u.is_absolute(), u.as_slice().to_vec()));
            (a, a2, r, u)
        });
        let Some((a, a2, r, u)) = r else { continue };
        if let Some(o) = &a {
            chk_abs(c, fam, idx, "Name::from_str", o, &ex);
        }
        if let Some(o) = &a2 {
            chk_abs(c, fam, idx, "Name::from_chars", o, &ex);
        }
        if a != a2 {
            c.violation("text:from_str-vs-from_chars", &format!("Name::from_str and from_chars disagree on {:?}", text), c.replay_of(fam, idx, ex()));
        }
        if let Some(o) = &r {
            chk_rel(c, fam, idx, "RelativeName::from_str", o, &ex);
        }
        if let Some((abs, o)) = &u {
            if *abs {
                chk_abs(c, fam, idx, "UncertainName::from_str", o, &ex);
            } else {
                chk_rel(c, fam, idx, "UncertainName::from_str", o, &ex);
            }
        }
        if let Some(w) = &origin_wire {
            // generated from a valid name: the text must read back to the same octets
            if a.as_ref() != Some(w) {
                let rp = c.replay_of(fam, idx, json!({"text": text, "name": hex(w)}));
                c.violation("text:generated-not-read-back", &format!("presentation text {:?} of {} read as {:?}", text, hex(w), a.as_ref().map(|x| hex(x))), rp);
            }
            c.count("text_generated_read_back", 1);
        }
        c.eval(&("text", hostile, a.is_some(), r.is_some(), u.as_ref().map(|x| x.0), text.len().min(300) / 20, text.contains('\\')));
    }
}

// ------------------------------------------------------ compressed wire --

/// A valid name laid out in a message-like buffer as segments chained by compression pointers
/// (a segment may be a pointer and nothing else), parsed as `ParsedName` and taken through every
/// conversion: each must yield the octets of the name itself.
fn compressed_wire(c: &mut Ctx) {
    use domain::base::name::{FlattenInto, ToLabelIter};
    let fam = "compressed";
    let total = c.total(200_000, 16_000_000);
    for idx in c.cases(fam, total) {
        if c.out_of_time() {
            break;
        }
        let mut rng = c.case_rng(fam, idx);
        let full = names::abs_name(&mut rng);
        let labels: Vec<Vec<u8>> = crate::refimpl::wire::labels(&full).into_iter().map(|l| l.to_vec()).collect();
        // cut the label list into 1..=4 segments (possibly empty ones), the last one ends with the root label
        let nseg = rng.range(1, 4);
        let mut cuts: Vec<usize> = (0..nseg - 1).map(|_| rng.below(labels.len() + 1)).collect();
        cuts.sort_unstable();
        let mut segs: Vec<&[Vec<u8>]> = Vec::new();
        let mut prev = 0;
        for cu in &cuts {
            segs.push(&labels[prev..*cu]);
            prev = *cu;
        }
        segs.push(&labels[prev..]);
        // lay the segments out back to front, with filler in between
        let mut buf: Vec<u8> = vec![0u8; 12];
        let mut next_start: Option<usize> = None;
        for (si, seg) in segs.iter().enumerate().rev() {
            buf.extend(rng.bytes(rng.clone().below(5)));
            let here = buf.len();
            for l in seg.iter() {
                buf.push(l.len() as u8);
                buf.extend_from_slice(l);
            }
            match next_start {
                None => buf.push(0),
                Some(t) => {
                    buf.push(0xC0 | (t >> 8) as u8);
                    buf.push(t as u8);
                }
            }
            let _ = si;
            next_start = Some(here);
        }
        let start = next_start.unwrap();
        buf.extend_from_slice(&[0xAA, 0xBB]);
        let ex = || json!({"buffer": hex(&buf), "start": start, "name": hex(&full), "segments": segs.iter().map(|s| s.len()).collect::<Vec<_>>()});
        let r = c.guard(fam, idx, ex, || {
            let mut p = Parser::from_ref(&buf[..]);
            p.advance(start).unwrap();
            let pn = match ParsedName::parse(&mut p) {
                Ok(n) => n,
                Err(e) => return Err(format!("parse: {}", e)),
            };
            let mut out: Vec<(&'static str, Vec<u8>)> = Vec::new();
            out.push(("to_vec", pn.to_vec().as_slice().to_vec()));
            out.push(("to_cow", pn.to_cow().as_slice().to_vec()));
            out.push(("to_name", pn.to_name::<Vec<u8>>().as_slice().to_vec()));
            let fl: Result<Name<Vec<u8>>, _> = pn.clone().try_flatten_into();
            match fl {
                Ok(n) => out.push(("flatten_into", n.as_slice().to_vec())),
                Err(_) => return Err("flatten_into failed".into()),
            }
            let mut b = Vec::new();
            pn.compose(&mut b).unwrap();
            out.push(("compose", b));
            let mut b = Vec::new();
            pn.compose_canonical(&mut b).unwrap();
            out.push(("compose_canonical", b));
            let mut it = Vec::new();
            for l in pn.iter() {
                it.push(l.len() as u8);
                it.extend_from_slice(l.as_slice());
            }
            out.push(("iter", it));
            if let Some(fs) = pn.as_flat_slice() {
                out.push(("as_flat_slice", fs.to_vec()));
            }
            let reference = Name::from_octets(full.clone()).unwrap();
            let eqs = (pn == reference, pn.name_eq(&reference), reference.name_eq(&pn), pn.name_cmp(&reference) == std::cmp::Ordering::Equal, pn.compose_len() as usize);
            let text = format!("{}", pn);
            Ok((out, eqs, text, pn.is_compressed()))
        });
        let Some(r) = r else { continue };
        match r {
            Err(e) => {
                c.violation("compressed:valid-name-refused", &format!("a valid compressed name is refused: {}", e), c.replay_of(fam, idx, ex()));
            }
            Ok((out, eqs, text, is_c)) => {
                let lower = crate::refimpl::wire::lower(&full);
                for (api, o) in &out {
                    let want: &[u8] = if *api == "compose_canonical" { &lower } else { &full };
                    if &o[..] != want {
                        c.violation(&format!("compressed:{}-differs", api), &format!("ParsedName::{} of a name spread over {} segments gives {} instead of {}", api, segs.len(), hex(&o[..o.len().min(80)]), hex(&full[..full.len().min(80)])), c.replay_of(fam, idx, ex()));
                        break;
                    }
                }
                if !(eqs.0 && eqs.1 && eqs.2 && eqs.3) || eqs.4 != full.len() {
                    c.violation("compressed:not-equal-to-itself-flat", &format!("a compressed name does not compare equal to its flat form (==, name_eq both ways, name_cmp: {:?}; compose_len {} of {})", (eqs.0, eqs.1, eqs.2, eqs.3), eqs.4, full.len()), c.replay_of(fam, idx, ex()));
                }
                // (the root name displays as "." when flat and as the empty string when parsed: documented)
                if full.len() > 1 && text != format!("{}", Name::from_octets(full.clone()).unwrap()) {
                    c.violation("compressed:display-differs", "Display of a compressed name differs from that of its flat form", c.replay_of(fam, idx, ex()));
                }
                c.count("compressed_names_converted", 1);
                if segs.len() >= 2 && segs[0].is_empty() {
                    c.count("compressed_pointer_first_names", 1);
                }
                c.eval(&("compressed", segs.len(), segs[0].is_empty(), is_c, labels.len().min(8), full.len() / 32));
            }
        }
    }
}

// -------------------------------------------------- zone-file scanner --

/// The zone-file reader is a name constructor too: names around the 63-octet label limit and
/// the 255-octet name limit, written with and without escapes, absolute and relative to an
/// origin, are accepted exactly when they are valid, and then hold the octets of the model.
pub(crate) fn scanner_names(c: &mut Ctx) {
    use domain::zonefile::inplace::{Entry, Zonefile};
    let fam = "scan";
    let total = c.total(60_000, 6_000_000);
    let origin: &[u8] = b"\x07example\x00";
    for idx in c.cases(fam, total) {
        if c.out_of_time() {
            break;
        }
        let mut rng = c.case_rng(fam, idx);
        // labels: a few ordinary ones, possibly one at 62..=65 octets, possibly padded to a total around 255
        let mut labels: Vec<Vec<u8>> = Vec::new();
        for _ in 0..rng.range(1, 4) {
            labels.push(names::small_label(&mut rng));
        }
        if rng.chance(1, 2) {
            let l = *rng.pick(&[62usize, 63, 63, 64, 64, 65]);
            let style = rng.below(3);
            let lab: Vec<u8> = (0..l).map(|_| match style { 0 => *rng.pick(b"abcxyz019-"), 1 => *rng.pick(&[b'a', b'.', b'\\', b' ', b'"', b';', 0x07, 0xe9]), _ => rng.u8() }).collect();
            let at = rng.below(labels.len() + 1);
            labels.insert(at, lab);
        }
        let relative = rng.chance(1, 3);
        let tail = if relative { origin.len() } else { 1 };
        if rng.chance(1, 2) {
            // pad towards a total of 253..=257 octets
            let aim = rng.range(253, 257);
            loop {
                let cur: usize = labels.iter().map(|l| l.len() + 1).sum::<usize>() + tail;
                if cur + 2 > aim {
                    break;
                }
                let l = (aim - cur - 1).min(*rng.pick(&[63usize, 40, 17]));
                labels.push((0..l).map(|_| *rng.pick(b"pad0")).collect());
            }
        }
        let mut rel_wire = Vec::new();
        for l in &labels {
            rel_wire.push(l.len() as u8);
            rel_wire.extend_from_slice(l);
        }
        let mut full = rel_wire.clone();
        full.extend_from_slice(if relative { origin } else { &[0] });
        let valid = labels.iter().all(|l| (1..=63).contains(&l.len())) && full.len() <= 255;
        let mut wire0 = rel_wire.clone();
        wire0.push(0);
        let text = names::presentation(&mut rng, &wire0, !relative);
        let text = if relative { text.trim_end_matches('.').to_string() } else { text };
        if relative && (text.ends_with("\\") || text.is_empty()) {
            continue;
        }
        let zone = format!("{} 300 IN NS {}\n", text, text);
        let ex = || json!({"zone_text": zone, "labels": labels.iter().map(|l| l.len()).collect::<Vec<_>>(), "relative": relative});
        let r = c.guard(fam, idx, ex, || {
            let mut zf = Zonefile::from(zone.as_bytes());
            zf.set_origin(Name::from_octets(Bytes::from_static(b"\x07example\x00")).unwrap());
            match zf.next_entry() {
                Ok(Some(Entry::Record(r))) => {
                    let mut o = Vec::new();
                    r.owner().compose(&mut o).unwrap();
                    let mut d = Vec::new();
                    use domain::base::rdata::ComposeRecordData;
                    r.data().compose_rdata(&mut d).unwrap();
                    Ok((o, d))
                }
                Ok(_) => Err("no record".to_string()),
                Err(e) => Err(e.to_string()),
            }
        });
        let Some(r) = r else { continue };
        match (valid, r) {
            (true, Ok((o, d))) => {
                if o != full || d != full {
                    c.violation("scan:name-differs", &format!("the zone-file reader read {:?} as owner {} and target {}; the name is {}", text, hex(&o[..o.len().min(70)]), hex(&d[..d.len().min(70)]), hex(&full[..full.len().min(70)])), c.replay_of(fam, idx, ex()));
                }
                c.count("scan_valid_read_back", 1);
            }
            (true, Err(e)) => {
                c.violation("scan:valid-name-refused", &format!("the zone-file reader refuses the valid name {:?} ({} octets, labels {:?}): {}", text, full.len(), labels.iter().map(|l| l.len()).collect::<Vec<_>>(), e), c.replay_of(fam, idx, ex()));
            }
            (false, Ok((o, d))) => {
                let what = if labels.iter().any(|l| l.len() > 63) { "label-of-64-or-more" } else { "name-of-256-or-more" };
                c.violation(&format!("scan:invalid-name-accepted:{}", what), &format!("the zone-file reader accepts {:?} (labels {:?}, {} octets in all) as owner {} and target {}", text, labels.iter().map(|l| l.len()).collect::<Vec<_>>(), full.len(), hex(&o[..o.len().min(70)]), hex(&d[..d.len().min(70)])), c.replay_of(fam, idx, ex()));
            }
            (false, Err(_)) => c.count("scan_invalid_refused", 1),
        }
        c.eval(&("scan", valid, relative, labels.iter().map(|l| l.len()).max().unwrap_or(0).min(66), full.len().min(260) / 4, text.contains('\\')));
    }
}

// ---------------------------------------------------------- operations --

fn ops(c: &mut Ctx) {
    let fam = "ops";
    let total = c.total(300_000, 24_000_000);
    for idx in c.cases(fam, total) {
        if c.out_of_time() {
            break;
        }
        let mut rng = c.case_rng(fam, idx);
        let w = names::abs_name(&mut rng);
        let other = names::abs_name(&mut rng);
        let relw = names::rel_name(&mut rng, 254);
        let ex = || json!({"name": hex(&w), "other": hex(&other), "rel": hex(&relw)});
        let res = crate::ctx::catch(|| ops_case(c, fam, idx, &mut rng, &w, &other, &relw));
        if let Err(pi) = res {
            let sig = format!("panic:{}", pi.site());
            let rp = c.replay_of(fam, idx, ex());
            c.violation(&sig, &format!("panic in name operation: {} at {}:{}", pi.msg, pi.file, pi.line), rp);
        }
    }
}

fn boundaries(w: &[u8]) -> Vec<usize> {
    let mut v = vec![];
    let mut p = 0;
    while p < w.len() {
        v.push(p);
        let l = w[p] as usize;
        if l == 0 {
            break;
        }
        p += 1 + l;
    }
    v
}

fn ops_case(c: &mut Ctx, fam: &str, idx: u64, rng: &mut Rng, w: &[u8], other: &[u8], relw: &[u8]) {
    let ex = || json!({"name": hex(w), "other": hex(other), "rel": hex(relw)});
    let name = Name::<Vec<u8>>::from_octets(w.to_vec()).expect("harness: generated name valid");
    let oname = Name::<Vec<u8>>::from_octets(other.to_vec()).expect("harness: generated name valid");
    let rel = RelativeName::<Vec<u8>>::from_octets(relw.to_vec()).expect("harness: generated relative name valid");
    let bs = boundaries(w);
    let root_pos = *bs.last().unwrap();

    // text round trips
    let t = format!("{}", name);
    let td = format!("{}", name.fmt_with_dot());
    for (api, txt) in [("Display", &t), ("fmt_with_dot", &td)] {
        match Name::<Vec<u8>>::from_str(txt) {
            Ok(n) => {
                if n.as_slice() != w {
                    let rp = c.replay_of(fam, idx, json!({"name": hex(w), "text": txt}));
                    c.violation(&format!("text-roundtrip:Name:{}", api), &format!("{} -> {:?} -> {}", hex(w), txt, hex(n.as_slice())), rp);
                }
            }
            Err(e) => {
                let rp = c.replay_of(fam, idx, json!({"name": hex(w), "text": txt}));
                c.violation(&format!("text-roundtrip-err:Name:{}", api), &format!("{} displays as {:?} which does not read back: {}", hex(w), txt, e), rp);
            }
        }
    }
    c.count("text_roundtrips", 2);
    if !relw.is_empty() {
        let t = format!("{}", rel);
        match RelativeName::<Vec<u8>>::from_str(&t) {
            Ok(n) if n.as_slice() == relw => {}
            Ok(n) => {
                let rp = c.replay_of(fam, idx, json!({"rel": hex(relw), "text": t}));
                c.violation("text-roundtrip:RelativeName:Display", &format!("{} -> {:?} -> {}", hex(relw), t, hex(n.as_slice())), rp);
            }
            Err(e) => {
                let rp = c.replay_of(fam, idx, json!({"rel": hex(relw), "text": t}));
                c.violation("text-roundtrip-err:RelativeName:Display", &format!("{} displays as {:?} which does not read back: {}", hex(relw), t, e), rp);
            }
        }
        match UncertainName::<Vec<u8>>::from_str(&t) {
            Ok(u) if !u.is_absolute() && u.as_slice() == relw => {}
            other => {
                let rp = c.replay_of(fam, idx, json!({"rel": hex(relw), "text": t}));
                c.violation("text-roundtrip:UncertainName", &format!("{} -> {:?} -> {:?}", hex(relw), t, other.map(|u| hex(u.as_slice())).map_err(|e| e.to_string())), rp);
            }
        }
        c.count("text_roundtrips", 2);
    }
    // wire round trip through compose + parse
    let mut buf = Vec::new();
    name.compose(&mut buf).unwrap();
    if buf != w {
        c.violation("wire-roundtrip:compose", "compose() differs from the name's octets", c.replay_of(fam, idx, ex()));
    }
    let mut cbuf = Vec::new();
    name.compose_canonical(&mut cbuf).unwrap();
    chk_abs(c, fam, idx, "compose_canonical", &cbuf, &ex);
    let mut p = Parser::from_ref(&buf[..]);
    match Name::parse(&mut p) {
        Ok(n) => {
            let n: Name<&[u8]> = n;
            if n.as_slice() != w {
                c.violation("wire-roundtrip:parse", "parse(compose(n)) != n", c.replay_of(fam, idx, ex()));
            }
        }
        Err(_) => c.violation("wire-roundtrip:parse-err", "parse(compose(n)) failed", c.replay_of(fam, idx, ex())),
    }

    // conversions
    let r = name.clone().into_relative();
    chk_rel(c, fam, idx, "Name::into_relative", r.as_slice(), &ex);
    if let Ok(a) = r.clone().into_absolute() {
        chk_abs(c, fam, idx, "RelativeName::into_absolute", a.as_slice(), &ex);
        if a.as_slice() != w {
            c.violation("roundtrip:into_relative-into_absolute", "into_relative().into_absolute() != original", c.replay_of(fam, idx, ex()));
        }
    } else {
        c.violation("reject-valid:into_absolute", "into_absolute failed on a name obtained from into_relative", c.replay_of(fam, idx, ex()));
    }
    match rel.clone().into_absolute() {
        Ok(a) => {
            chk_abs(c, fam, idx, "RelativeName::into_absolute", a.as_slice(), &ex);
        }
        Err(_) => c.count("into_absolute_err", 1),
    }
    let b = rel.clone().into_builder();
    let again = b.finish();
    chk_rel(c, fam, idx, "RelativeName::into_builder.finish", again.as_slice(), &ex);
    if let Ok(a) = rel.clone().into_builder().into_name() {
        chk_abs(c, fam, idx, "RelativeName::into_builder.into_name", a.as_slice(), &ex);
    }
    let cr = rel.clone().chain_root();
    let v = cr.to_vec();
    chk_abs(c, fam, idx, "RelativeName::chain_root.to_vec", v.as_slice(), &ex);
    let mut canon = name.clone();
    canon.make_canonical();
    chk_abs(c, fam, idx, "Name::make_canonical", canon.as_slice(), &ex);
    let cn: Name<Vec<u8>> = name.to_canonical_name();
    chk_abs(c, fam, idx, "ToName::to_canonical_name", cn.as_slice(), &ex);
    if cn.as_slice() != canon.as_slice() || cn.as_slice() != &cbuf[..] {
        c.violation("canonical-forms-differ", "make_canonical / to_canonical_name / compose_canonical differ", c.replay_of(fam, idx, ex()));
    }

    // chains
    match rel.clone().chain(oname.clone()) {
        Ok(ch) => {
            let total = relw.len() + other.len();
            if total > 255 {
                c.violation("chain:accept:rel+abs", &format!("chain accepted {} + {} octets", relw.len(), other.len()), c.replay_of(fam, idx, ex()));
            } else {
                let n = ch.to_vec();
                chk_abs(c, fam, idx, "Chain<Rel,Abs>::to_vec", n.as_slice(), &ex);
                let mut exp = relw.to_vec();
                exp.extend_from_slice(other);
                if n.as_slice() != &exp[..] {
                    c.violation("chain:content:rel+abs", "chain content differs from concatenation", c.replay_of(fam, idx, ex()));
                }
                let nb: Name<Bytes> = ch.to_bytes();
                chk_abs(c, fam, idx, "Chain<Rel,Abs>::to_bytes", nb.as_slice(), &ex);
                // text round trip of the chain
                let t = format!("{}", ch.fmt_with_dot());
                match Name::<Vec<u8>>::from_str(&t) {
                    Ok(x) if x.as_slice() == &exp[..] => {}
                    _ => c.violation("text-roundtrip:Chain", &format!("chain displays as {:?} which does not read back equal", t), c.replay_of(fam, idx, ex())),
                }
            }
            c.count("chains", 1);
        }
        Err(_) => {
            if relw.len() + other.len() <= 255 {
                c.note("chain rejected an in-limit rel+abs pair");
            }
            c.count("chain_err", 1);
        }
    }
    // rel + rel (+ abs)
    let rel2w = {
        let mut r2 = other.to_vec();
        r2.pop();
        r2
    };
    let rel2 = RelativeName::<Vec<u8>>::from_octets(rel2w.clone()).expect("harness: relative name");
    match rel.clone().chain(rel2.clone()) {
        Ok(ch) => {
            let total = relw.len() + rel2w.len();
            if total > 254 {
                let sig = format!("chain:accept:rel+rel:total={}", if total == 255 { "255".to_string() } else { ">255".into() });
                c.violation(&sig, &format!("chain accepted relative {} + relative {} octets", relw.len(), rel2w.len()), c.replay_of(fam, idx, ex()));
            } else {
                let n = ch.to_relative_name::<Vec<u8>>();
                chk_rel(c, fam, idx, "Chain<Rel,Rel>::to_relative_name", n.as_slice(), &ex);
                if let Ok(ch3) = ch.clone().chain(Name::root_vec()) {
                    let n = ch3.to_vec();
                    chk_abs(c, fam, idx, "Chain<Chain<Rel,Rel>,Abs>::to_vec", n.as_slice(), &ex);
                }
            }
            c.count("chains", 1);
        }
        Err(_) => c.count("chain_err", 1),
    }
    // uncertain + abs
    let un = UncertainName::<Vec<u8>>::from_octets(if rng.bool() { relw.to_vec() } else { w.to_vec() });
    if let Ok(un) = un {
        if let Ok(ch) = un.clone().chain(oname.clone()) {
            let n = ch.to_vec();
            chk_abs(c, fam, idx, "Chain<Uncertain,Abs>::to_vec", n.as_slice(), &ex);
        }
        if let Ok(a) = un.clone().into_absolute() {
            chk_abs(c, fam, idx, "UncertainName::into_absolute", a.as_slice(), &ex);
        }
    }

    // slicing at valid label boundaries
    for &b0 in &bs {
        let sfx = name.slice_from(b0);
        chk_abs(c, fam, idx, "Name::slice_from", sfx.as_slice(), &ex);
        let rf = name.range_from(b0);
        chk_abs(c, fam, idx, "Name::range_from", rf.as_slice(), &ex);
        let tr = name.clone().truncate(b0);
        chk_rel(c, fam, idx, "Name::truncate", tr.as_slice(), &ex);
        if b0 <= root_pos {
            let (l, r) = name.split(b0);
            chk_rel(c, fam, idx, "Name::split.0", l.as_slice(), &ex);
            chk_abs(c, fam, idx, "Name::split.1", r.as_slice(), &ex);
            let mut cat = l.as_slice().to_vec();
            cat.extend_from_slice(r.as_slice());
            if cat != w {
                c.violation("split:content", "split halves do not concatenate to the name", c.replay_of(fam, idx, ex()));
            }
        }
        for &b1 in &bs {
            if b1 >= b0 && b1 <= root_pos {
                let s = name.slice(b0..b1);
                chk_rel(c, fam, idx, "Name::slice", s.as_slice(), &ex);
                let r = name.range(b0..b1);
                chk_rel(c, fam, idx, "Name::range", r.as_slice(), &ex);
                // the same label range written with other bound kinds
                if b1 > b0 {
                    let si = name.slice(b0..=b1 - 1);
                    let ri = name.range(b0..=b1 - 1);
                    chk_rel(c, fam, idx, "Name::slice(a..=b)", si.as_slice(), &ex);
                    chk_rel(c, fam, idx, "Name::range(a..=b)", ri.as_slice(), &ex);
                    if si.as_slice() != &w[b0..b1] || ri.as_slice() != &w[b0..b1] {
                        c.violation("slice:inclusive-end-content", "slice/range with an inclusive end bound returned other octets than the half-open form", c.replay_of(fam, idx, ex()));
                    }
                    if b0 == 0 {
                        let su = name.slice(..=b1 - 1);
                        if su.as_slice() != &w[..b1] {
                            c.violation("slice:inclusive-end-content", "slice(..=b) returned the wrong octets", c.replay_of(fam, idx, ex()));
                        }
                    }
                }
                if s.as_slice() != &w[b0..b1] || r.as_slice() != &w[b0..b1] || name.slice(..b1).as_slice() != &w[..b1] {
                    c.violation("slice:content", "slice/range returned the wrong octets", c.replay_of(fam, idx, ex()));
                }
            }
        }
        c.count("slices", 1);
    }
    let mut cur = name.clone();
    let mut guard = 0;
    while let Some(p) = cur.parent() {
        let p = Name::<Vec<u8>>::from_octets(p.as_slice().to_vec());
        match p {
            Ok(p) => {
                chk_abs(c, fam, idx, "Name::parent", p.as_slice(), &ex);
                cur = p;
            }
            Err(_) => {
                c.violation("invalid-name:Name::parent", "parent() is not a valid name", c.replay_of(fam, idx, ex()));
                break;
            }
        }
        guard += 1;
        if guard > 130 {
            c.violation("parent-loop", "more than 130 parents", c.replay_of(fam, idx, ex()));
            break;
        }
    }
    if let Some((first, rest)) = name.split_first() {
        chk_abs(c, fam, idx, "Name::split_first", rest.as_slice(), &ex);
        if first.len() > 63 {
            c.violation("label>63:split_first", "split_first label longer than 63", c.replay_of(fam, idx, ex()));
        }
    }
    let mut nsfx = 0;
    for s in name.iter_suffixes() {
        chk_abs(c, fam, idx, "Name::iter_suffixes", s.as_slice(), &ex);
        nsfx += 1;
        if nsfx > 130 {
            break;
        }
    }
    if nsfx != bs.len() {
        c.violation("iter_suffixes:count", &format!("iter_suffixes yielded {} names for {} labels", nsfx, bs.len()), c.replay_of(fam, idx, ex()));
    }
    // strip_suffix by one of its own suffixes and by an unrelated name
    let sb = *rng.pick(&bs);
    let sfx = Name::<Vec<u8>>::from_octets(w[sb..].to_vec()).expect("harness: suffix valid");
    match name.clone().strip_suffix(&sfx) {
        Ok(r) => {
            chk_rel(c, fam, idx, "Name::strip_suffix", r.as_slice(), &ex);
            if r.as_slice() != &w[..sb] {
                c.violation("strip_suffix:content", "strip_suffix left the wrong prefix", c.replay_of(fam, idx, ex()));
            }
        }
        Err(_) => c.violation("strip_suffix:own-suffix-rejected", "strip_suffix rejected the name's own suffix", c.replay_of(fam, idx, ex())),
    }
    if let Ok(r) = name.clone().strip_suffix(&oname) {
        chk_rel(c, fam, idx, "Name::strip_suffix", r.as_slice(), &ex);
    }
    // RelativeName::starts_with / ends_with / strip_suffix against the label model; the candidates include
    // decoys: a name whose last (first) label merely CONTAINS the wire octets of the candidate
    {
        let rl: Vec<Vec<u8>> = crate::refimpl::wire::labels(relw).iter().map(|l| l.to_ascii_lowercase()).collect();
        let mk_rel = |wire: &[u8]| domain::base::name::RelativeName::<Vec<u8>>::from_octets(wire.to_vec()).ok();
        let mut cands: Vec<Vec<u8>> = Vec::new();
        // own suffixes and prefixes, also in other case
        for &b in boundaries(relw).iter().chain(std::iter::once(&relw.len())) {
            cands.push(relw[b..].to_vec());
            cands.push(relw[..b].to_vec());
            cands.push(relw[b..].to_ascii_uppercase());
        }
        // a short unrelated name
        cands.push(b"\x03com".to_vec());
        let mut subjects: Vec<Vec<u8>> = vec![relw.to_vec()];
        for cand in cands.clone() {
            if cand.is_empty() || cand.len() > 40 {
                continue;
            }
            // decoy: one label "a" + wire(cand)  /  wire(cand) + "a"
            let mut d1 = vec![(1 + cand.len()) as u8, b'a'];
            d1.extend_from_slice(&cand);
            let mut d2 = vec![(cand.len() + 1) as u8];
            d2.extend_from_slice(&cand);
            d2.push(b'a');
            subjects.push(d1);
            subjects.push(d2);
        }
        let _ = rl;
        for sw in subjects.iter().take(12) {
            let Some(subj) = mk_rel(sw) else { continue };
            let sl: Vec<Vec<u8>> = crate::refimpl::wire::labels(sw).iter().map(|l| l.to_ascii_lowercase()).collect();
            for cw in cands.iter().take(16) {
                let Some(cand) = mk_rel(cw) else { continue };
                let cl: Vec<Vec<u8>> = crate::refimpl::wire::labels(cw).iter().map(|l| l.to_ascii_lowercase()).collect();
                let want_ends = sl.len() >= cl.len() && sl[sl.len() - cl.len()..] == cl[..];
                let want_starts = sl.len() >= cl.len() && sl[..cl.len()] == cl[..];
                let exr = || json!({"subject": hex(sw), "candidate": hex(cw)});
                if subj.ends_with(&cand) != want_ends {
                    c.violation("relative:ends_with", &format!("RelativeName::ends_with is {} for labels {:?} / {:?}", !want_ends, sl.len(), cl.len()), c.replay_of(fam, idx, exr()));
                    return;
                }
                if subj.starts_with(&cand) != want_starts {
                    c.violation("relative:starts_with", "RelativeName::starts_with disagrees with the label model", c.replay_of(fam, idx, exr()));
                    return;
                }
                let mut t = subj.clone();
                match t.strip_suffix(&cand) {
                    Ok(()) => {
                        if !want_ends {
                            c.violation("relative:strip_suffix:not-a-suffix", "RelativeName::strip_suffix removed something that is not a suffix of the name", c.replay_of(fam, idx, exr()));
                            return;
                        }
                        chk_rel(c, fam, idx, "RelativeName::strip_suffix", t.as_slice(), &ex);
                        if t.as_slice() != &sw[..sw.len() - cw.len()] {
                            c.violation("relative:strip_suffix:content", "RelativeName::strip_suffix left the wrong prefix", c.replay_of(fam, idx, exr()));
                            return;
                        }
                    }
                    Err(_) => {
                        if want_ends {
                            c.violation("relative:strip_suffix:own-suffix-rejected", "RelativeName::strip_suffix rejected a suffix of the name", c.replay_of(fam, idx, exr()));
                            return;
                        }
                        if t.as_slice() != &sw[..] {
                            c.violation("relative:strip_suffix:changed-on-error", "RelativeName::strip_suffix changed the name although it failed", c.replay_of(fam, idx, exr()));
                            return;
                        }
                    }
                }
                c.evals_n(1);
            }
        }
        c.count("relative_suffix_relations", 1);
    }
    // relative-name slicing
    let rbs = {
        let mut v = boundaries(relw);
        if !v.contains(&relw.len()) {
            v.push(relw.len());
        }
        v
    };
    for &b0 in &rbs {
        for &b1 in &rbs {
            if b1 >= b0 {
                let s = rel.slice(b0..b1);
                chk_rel(c, fam, idx, "RelativeName::slice", s.as_slice(), &ex);
                let s = rel.range(b0..b1);
                chk_rel(c, fam, idx, "RelativeName::range", s.as_slice(), &ex);
                if b1 > b0 {
                    let si = rel.slice(b0..=b1 - 1);
                    let ri = rel.range(b0..=b1 - 1);
                    chk_rel(c, fam, idx, "RelativeName::slice(a..=b)", si.as_slice(), &ex);
                    if si.as_slice() != &relw[b0..b1] || ri.as_slice() != &relw[b0..b1] {
                        c.violation("slice:inclusive-end-content:relative", "RelativeName slice/range with an inclusive end bound returned other octets", c.replay_of(fam, idx, ex()));
                    }
                }
                if s.as_slice() != &relw[b0..b1] {
                    c.violation("slice:content:relative", "RelativeName::range returned the wrong octets", c.replay_of(fam, idx, ex()));
                }
            }
        }
        let (l, r) = rel.split(b0);
        chk_rel(c, fam, idx, "RelativeName::split.0", l.as_slice(), &ex);
        chk_rel(c, fam, idx, "RelativeName::split.1", r.as_slice(), &ex);
        let mut t = rel.clone();
        t.truncate(b0);
        chk_rel(c, fam, idx, "RelativeName::truncate", t.as_slice(), &ex);
    }
    if let Some(p) = rel.parent() {
        chk_rel(c, fam, idx, "RelativeName::parent", p.as_slice(), &ex);
    }
    if let Some((_, r)) = rel.split_first() {
        chk_rel(c, fam, idx, "RelativeName::split_first", r.as_slice(), &ex);
    }
    // BytesMut-backed builder from a relative name
    let rb = RelativeName::<Bytes>::from_octets(Bytes::from(relw.to_vec())).expect("harness: relative name");
    let mut nb = rb.into_builder();
    let lab = names::label(rng, 63);
    let before = nb.len();
    match nb.append_label(&lab) {
        Ok(()) => {
            if before + 1 + lab.len() > 254 {
                let sig = format!("builder:accept:append_label:newlabel:{}", if before + 1 + lab.len() == 255 { "name=255" } else { "name>255" });
                c.violation(&sig, &format!("into_builder().append_label accepted {} + 1 + {} octets", before, lab.len()), c.replay_of(fam, idx, ex()));
            } else {
                let r = nb.finish();
                chk_rel(c, fam, idx, "RelativeName::into_builder.append_label.finish", r.as_slice(), &ex);
            }
        }
        Err(_) => c.count("append_label_err", 1),
    }
    c.eval(&("ops", bs.len().min(10), w.len() / 16, relw.len() / 16, (relw.len() + other.len() > 255)));
    if c.want_sample() && idx % 13 == 2 {
        c.sample(json!({"family": "ops", "name": t, "rel": format!("{}", rel), "labels": bs.len()}));
    }
}


// ------------------------------------------------------------ serde routes --

/// The hand-written `Deserialize` impls are constructors like any other: over a compact format
/// they receive raw octets (and must validate them), over a human readable one presentation
/// text. Every value they hand out must be a name, valid names must be accepted, and a value
/// serialized over either route must come back as the same octets.
fn serde_routes(c: &mut Ctx) {
    use crate::sd::{self, Wrote};
    use domain::base::name::OwnedLabel;
    let fam = "serde";
    let total = c.total(150_000, 12_000_000);
    for idx in c.cases(fam, total) {
        if c.out_of_time() {
            break;
        }
        let mut rng = c.case_rng(fam, idx);
        if rng.chance(1, 5) {
            // labels: 0..=70 octets of anything
            let l = match rng.below(4) { 0 => rng.range(60, 70) as usize, _ => rng.below(66) as usize };
            let lab: Vec<u8> = (0..l).map(|_| if rng.chance(1, 3) { rng.below(256) as u8 } else { b'a' + rng.below(26) as u8 }).collect();
            let ex = || json!({"label": hex(&lab)});
            let r = c.guard(fam, idx, ex, || {
                let o = sd::de_owned::<OwnedLabel>(&lab).ok().map(|l| l.as_label().as_slice().to_vec());
                let b = sd::de_borrowed::<OwnedLabel>(&lab).ok().map(|l| l.as_label().as_slice().to_vec());
                let t = sd::de_transient::<OwnedLabel>(&lab).ok().map(|l| l.as_label().as_slice().to_vec());
                (o, b, t)
            });
            let Some((o, b, t)) = r else { continue };
            for (api, v) in [("serde-compact:OwnedLabel:owned", &o), ("serde-compact:OwnedLabel:borrowed", &b), ("serde-compact:OwnedLabel:transient", &t)] {
                if let Some(got) = v {
                    if got.len() > 63 || got != &lab {
                        let rp = c.replay_of(fam, idx, ex());
                        c.violation(&format!("invalid-label:{}{}", api, if got.len() > 63 { ":len>63" } else { ":octets-differ" }), &format!("{} produced a label of {} octets from {} octets", api, got.len(), lab.len()), rp);
                    }
                    c.count("serde_labels", 1);
                }
            }
            if lab.len() <= 63 && o.is_none() && b.is_none() && t.is_none() {
                let rp = c.replay_of(fam, idx, ex());
                c.violation("reject-valid:serde-compact:OwnedLabel", &format!("no compact route accepts the valid label {}", hex(&lab)), rp);
            }
            // a label that exists: both routes give it back
            if lab.len() <= 63 {
                let r = c.guard(fam, idx, ex, || {
                    let ol = OwnedLabel::from_label(domain::base::name::Label::from_slice(&lab).unwrap());
                    let w = sd::ser_compact(&ol).ok();
                    let txt = sd::ser_text(&ol).ok();
                    let back = txt.as_ref().and_then(|t| sd::de_text::<OwnedLabel>(t).ok()).map(|l| l.as_label().as_slice().to_vec());
                    (w, txt, back)
                });
                if let Some((w, txt, back)) = r {
                    if w != Some(Wrote::Bytes(lab.clone())) {
                        c.violation("serde-roundtrip:compact:OwnedLabel", &format!("label {} serialized compactly as {:?}", hex(&lab), w), c.replay_of(fam, idx, ex()));
                    }
                    if !lab.is_empty() && back.as_ref() != Some(&lab) {
                        c.violation("serde-roundtrip:text:OwnedLabel", &format!("label {} written as {:?} read back as {:?}", hex(&lab), txt, back.as_ref().map(|b| hex(b))), c.replay_of(fam, idx, ex()));
                    }
                }
            }
            c.eval(&("serde-label", lab.len().min(70), o.is_some(), b.is_some(), t.is_some()));
            continue;
        }
        let w = match rng.below(10) {
            0..=2 => names::abs_name(&mut rng),
            3..=5 => names::rel_name(&mut rng, 300),
            6 | 7 => {
                let l = rng.range(252, 258);
                let mut n = names::max_name(&mut rng, l);
                if rng.bool() {
                    n.pop();
                }
                n
            }
            _ => names::hostile_wire(&mut rng),
        };
        let ref_abs = validate_abs_name(&w).is_ok();
        let ref_rel = validate_rel_name(&w).is_ok();
        let ex = || json!({"input": hex(&w)});
        let r = c.guard(fam, idx, ex, || {
            let a = sd::de_owned::<Name<Vec<u8>>>(&w).ok().map(|n| n.as_slice().to_vec());
            let a2 = sd::de_borrowed::<Name<Bytes>>(&w).ok().map(|n| n.as_slice().to_vec());
            let a3 = sd::de_transient::<Name<Vec<u8>>>(&w).ok().map(|n| n.as_slice().to_vec());
            let r = sd::de_owned::<RelativeName<Vec<u8>>>(&w).ok().map(|n| n.as_slice().to_vec());
            let r2 = sd::de_borrowed::<RelativeName<Bytes>>(&w).ok().map(|n| n.as_slice().to_vec());
            let u = sd::de_owned::<UncertainName<Vec<u8>>>(&w).ok().map(|u| (u.is_absolute(), u.as_slice().to_vec()));
            let u2 = sd::de_borrowed::<UncertainName<Bytes>>(&w).ok().map(|u| (u.is_absolute(), u.as_slice().to_vec()));
            (a, a2, a3, r, r2, u, u2)
        });
        let Some((a, a2, a3, r, r2, u, u2)) = r else { continue };
        for (api, v) in [("serde-compact:Name:owned", &a), ("serde-compact:Name:borrowed", &a2), ("serde-compact:Name:transient", &a3)] {
            if let Some(o) = v {
                chk_abs(c, fam, idx, api, o, &ex);
                if o != &w {
                    c.violation(&format!("serde-roundtrip:{}", api), "deserializing changed the octets", c.replay_of(fam, idx, ex()));
                }
                c.count("serde_names", 1);
            }
        }
        if ref_abs && (a.is_none() || a2.is_none()) {
            let rp = c.replay_of(fam, idx, ex());
            c.violation("reject-valid:serde-compact:Name", &format!("compact deserialization rejected the valid name {}", hex(&w)), rp);
        }
        for (api, v) in [("serde-compact:RelativeName:owned", &r), ("serde-compact:RelativeName:borrowed", &r2)] {
            if let Some(o) = v {
                chk_rel(c, fam, idx, api, o, &ex);
                c.count("serde_names", 1);
            } else if ref_rel {
                let rp = c.replay_of(fam, idx, ex());
                c.violation(&format!("reject-valid:{}", api), &format!("{} rejected the valid relative name {}", api, hex(&w)), rp);
            }
        }
        for (api, v) in [("serde-compact:UncertainName:owned", &u), ("serde-compact:UncertainName:borrowed", &u2)] {
            if let Some((abs, o)) = v {
                if *abs {
                    chk_abs(c, fam, idx, api, o, &ex);
                } else {
                    chk_rel(c, fam, idx, api, o, &ex);
                }
                c.count("serde_names", 1);
            } else if ref_abs || ref_rel {
                let rp = c.replay_of(fam, idx, ex());
                c.violation(&format!("reject-valid:{}", api), &format!("{} rejected the valid name {}", api, hex(&w)), rp);
            }
        }
        // values that exist: serialize over both routes, read back
        if ref_abs || ref_rel {
            let r = c.guard(fam, idx, ex, || {
                if ref_abs {
                    let n = Name::from_octets(w.clone()).unwrap();
                    let wr = sd::ser_compact(&n).ok();
                    let txt = sd::ser_text(&n).ok();
                    let back = txt.as_ref().and_then(|t| sd::de_text::<Name<Vec<u8>>>(t).ok()).map(|n| n.as_slice().to_vec());
                    let backu = txt.as_ref().and_then(|t| sd::de_text::<UncertainName<Vec<u8>>>(t).ok()).map(|n| n.as_slice().to_vec());
                    (wr, txt, back, backu)
                } else {
                    let n = RelativeName::from_octets(w.clone()).unwrap();
                    let wr = sd::ser_compact(&n).ok();
                    let txt = sd::ser_text(&n).ok();
                    let back = txt.as_ref().and_then(|t| sd::de_text::<RelativeName<Vec<u8>>>(t).ok()).map(|n| n.as_slice().to_vec());
                    let backu = txt.as_ref().and_then(|t| sd::de_text::<UncertainName<Vec<u8>>>(t).ok()).map(|n| n.as_slice().to_vec());
                    (wr, txt, back, backu)
                }
            });
            if let Some((wr, txt, back, backu)) = r {
                let kind = if ref_abs { "Name" } else { "RelativeName" };
                if wr != Some(Wrote::Bytes(w.clone())) {
                    c.violation(&format!("serde-roundtrip:compact:{}", kind), &format!("{} {} serialized compactly as {:?}", kind, hex(&w), wr), c.replay_of(fam, idx, ex()));
                }
                // an empty relative name has no presentation form of its own
                if !(kind == "RelativeName" && w.is_empty()) {
                    if back.as_ref() != Some(&w) {
                        let rp = c.replay_of(fam, idx, json!({"input": hex(&w), "text": txt}));
                        c.violation(&format!("serde-roundtrip:text:{}", kind), &format!("{} {} written as {:?} read back as {:?}", kind, hex(&w), txt, back.as_ref().map(|b| hex(b))), rp);
                    }
                    // (a Name is written without the trailing dot, so only a relative name keeps its kind as an UncertainName)
                    if kind == "RelativeName" && backu.as_ref() != Some(&w) {
                        let rp = c.replay_of(fam, idx, json!({"input": hex(&w), "text": txt}));
                        c.violation(&format!("serde-roundtrip:text:{}-as-UncertainName", kind), &format!("{} {} written as {:?} read back as uncertain name {:?}", kind, hex(&w), txt, backu.as_ref().map(|b| hex(b))), rp);
                    }
                }
                c.count("serde_roundtrips", 1);
            }
        }
        // presentation text through the human readable route: whatever comes out is a name, and the
        // verdict is that of FromStr
        let text = if rng.chance(1, 3) { names::hostile_text(&mut rng) } else { let n = if rng.bool() { names::abs_name(&mut rng) } else { { let l = rng.range(250, 256); names::max_name(&mut rng, l) } }; let dot = rng.bool(); names::presentation(&mut rng, &n, dot) };
        let ext = || json!({"text": text});
        let rt = c.guard(fam, idx, ext, || {
            let a = sd::de_text::<Name<Vec<u8>>>(&text).ok().map(|n| n.as_slice().to_vec());
            let fa = Name::<Vec<u8>>::from_str(&text).ok().map(|n| n.as_slice().to_vec());
            let r = sd::de_text::<RelativeName<Vec<u8>>>(&text).ok().map(|n| n.as_slice().to_vec());
            let u = sd::de_text::<UncertainName<Bytes>>(&text).ok().map(|u| (u.is_absolute(), u.as_slice().to_vec()));
            let fu = UncertainName::<Vec<u8>>::from_str(&text).ok().map(|u| (u.is_absolute(), u.as_slice().to_vec()));
            (a, fa, r, u, fu)
        });
        let ra = a.is_some();
        let rr = r.is_some();
        let ru = u.as_ref().map(|x| x.0);
        if let Some((a, fa, r, u, fu)) = rt {
            if let Some(o) = &a {
                chk_abs(c, fam, idx, "serde-text:Name", o, &ext);
            }
            if a != fa {
                c.violation("serde-text:Name-vs-from_str", &format!("deserializing {:?} as Name gives {:?}, from_str {:?}", text, a.as_ref().map(|x| hex(x)), fa.as_ref().map(|x| hex(x))), c.replay_of(fam, idx, ext()));
            }
            if let Some(o) = &r {
                chk_rel(c, fam, idx, "serde-text:RelativeName", o, &ext);
            }
            if let Some((abs, o)) = &u {
                if *abs {
                    chk_abs(c, fam, idx, "serde-text:UncertainName", o, &ext);
                } else {
                    chk_rel(c, fam, idx, "serde-text:UncertainName", o, &ext);
                }
            }
            if u != fu {
                c.violation("serde-text:UncertainName-vs-from_str", &format!("deserializing {:?} as UncertainName differs from from_str", text), c.replay_of(fam, idx, ext()));
            }
            c.count("serde_texts", 1);
        }
        c.eval(&("serde", ref_abs, ref_rel, ra, rr, ru, w.len().min(257) / 16));
    }
}

pub fn run(c: &mut Ctx) {
    c.families(10);
    crate::ctx::step("builder_boundary-Vec");
    builder_boundary::<Vec<u8>>(c, "Vec");
    crate::ctx::step("builder_boundary-BytesMut");
    builder_boundary::<BytesMut>(c, "BytesMut");
    crate::ctx::step("builder_sequences-Vec");
    builder_sequences::<Vec<u8>>(c, "Vec");
    crate::ctx::step("builder_sequences-BytesMut");
    builder_sequences::<BytesMut>(c, "BytesMut");
    crate::ctx::step("from_wire");
    from_wire(c);
    crate::ctx::step("compressed_wire");
    compressed_wire(c);
    crate::ctx::step("from_text");
    from_text(c);
    crate::ctx::step("scanner_names");
    scanner_names(c);
    crate::ctx::step("serde_routes");
    serde_routes(c);
    crate::ctx::step("ops");
    ops(c);
    if c.scale >= 1.0 && !c.is_quick() {
        c.exhaustive = Some(true);
    }
    c.floor("names_validated", 1000);
    c.floor("builder_rejections_required", 100);
    c.floor("builder_accepts", 100);
    c.floor("text_roundtrips", 100);
    c.floor("scan_valid_read_back", 100);
    c.floor("compressed_names_converted", 1000);
    c.floor("compressed_pointer_first_names", 100);
    c.floor("scan_invalid_refused", 100);
    c.floor("chains", 10);
    c.floor("serde_names", 1000);
    c.floor("uncertain_text_roundtrips", 1000);
    c.floor("serde_roundtrips", 1000);
    c.floor("serde_labels", 100);
    c.floor("slices", 100);
}
