//! C04 — Eq / Ord / Hash coherence, representation independence, canonical
//! order (RFC 4034 §6.1–6.3, RFC 6840 §5.1).
use crate::ctx::{hash64, hex, Ctx};
use crate::gen::names;
use crate::gen::rdata as g;
use crate::refimpl::wire::{self as w, Fv};
use crate::rng::Rng;
use bytes::Bytes;
use domain::base::charstr::CharStr;
use domain::base::cmp::CanonicalOrd;
use domain::base::iana::{Class, Rtype};
use domain::base::name::{FlattenInto, Label, Name, ParsedName, RelativeName, ToName, ToRelativeName, UncertainName};
use domain::base::rdata::ParseAnyRecordData;
use domain::base::record::{Record, Ttl};
use domain::rdata::AllRecordData;
use octseq::parse::Parser;
use serde_json::json;
use std::cmp::Ordering;

fn ord_s(o: Ordering) -> &'static str {
    match o {
        Ordering::Less => "lt",
        Ordering::Equal => "eq",
        Ordering::Greater => "gt",
    }
}

// ------------------------------------------------------------- names --

/// Neighbours of a name built for collisions.
fn name_neighbours(rng: &mut Rng, base: &[u8]) -> Vec<Vec<u8>> {
    let mut out = vec![base.to_vec(), names::case_variant(rng, base)];
    let ls: Vec<Vec<u8>> = w::labels(base).into_iter().map(|l| l.to_vec()).collect();
    if ls.len() >= 2 {
        // a.b vs a\.b : merge two labels with a literal dot
        let i = rng.below(ls.len() - 1);
        let mut m = ls.clone();
        let mut merged = m[i].clone();
        merged.push(b'.');
        merged.extend_from_slice(&m[i + 1]);
        if merged.len() <= 63 {
            m[i] = merged;
            m.remove(i + 1);
            out.push(names::from_labels(&m));
        }
        // drop first label (parent), swap two labels
        out.push(names::from_labels(&ls[1..]));
        let mut s = ls.clone();
        s.swap(0, 1);
        out.push(names::from_labels(&s));
    }
    if !ls.is_empty() {
        let i = rng.below(ls.len());
        // one octet changed around the letter ranges
        let mut m = ls.clone();
        let j = rng.below(m[i].len());
        m[i][j] = *rng.pick(&[0x00, 0x20, 0x40, 0x41, 0x5a, 0x5b, 0x60, 0x61, 0x7a, 0x7b, 0xff, b'.']);
        out.push(names::from_labels(&m));
        // label longer by one / shorter by one
        let mut m = ls.clone();
        if m[i].len() < 63 && base.len() < 255 {
            let c = *rng.pick(&[0u8, b'a', b'A', 0xff]);
            m[i].push(c);
            out.push(names::from_labels(&m));
        }
        let mut m = ls.clone();
        if m[i].len() > 1 {
            m[i].pop();
            out.push(names::from_labels(&m));
        }
        // extra label in front
        if base.len() + 2 <= 255 {
            let mut m = ls.clone();
            m.insert(0, vec![*rng.pick(&[0u8, b'a', b'*', 0xff])]);
            out.push(names::from_labels(&m));
        }
    }
    out.retain(|n| w::validate_abs_name(n).is_ok());
    out
}

/// Lay the names into a message-like buffer with hand-made compression
/// (exact-suffix matches against earlier names); returns buffer and the
/// position of each name.
fn compress_by_hand(rng: &mut Rng, ns: &[Vec<u8>]) -> (Vec<u8>, Vec<usize>, usize) {
    let mut buf = vec![0u8; 12];
    let mut pos = Vec::new();
    // (suffix octets, position)
    let mut known: Vec<(Vec<u8>, usize)> = Vec::new();
    let mut nptr = 0;
    for n in ns {
        pos.push(buf.len());
        let ls = w::labels(n);
        let mut off = 0;
        let mut done = false;
        for (i, l) in ls.iter().enumerate() {
            let sfx = &n[off..];
            if let Some((_, p)) = known.iter().find(|(s, p)| s[..] == *sfx && *p < 0x4000) {
                if rng.chance(4, 5) {
                    buf.push(0xC0 | (*p >> 8) as u8);
                    buf.push(*p as u8);
                    nptr += 1;
                    done = true;
                    break;
                }
            }
            known.push((sfx.to_vec(), buf.len()));
            buf.push(l.len() as u8);
            buf.extend_from_slice(l);
            off += 1 + l.len();
            let _ = i;
        }
        if !done {
            buf.push(0);
        }
    }
    (buf, pos, nptr)
}

fn names_family(c: &mut Ctx) {
    let fam = "names";
    let total = c.total(50_000, 3_000_000);
    for idx in c.cases(fam, total) {
        if c.out_of_time() {
            break;
        }
        let mut rng = c.case_rng(fam, idx);
        let base = names::abs_name(&mut rng);
        let mut pool = name_neighbours(&mut rng, &base);
        let other = names::abs_name(&mut rng);
        pool.extend(name_neighbours(&mut rng, &other).into_iter().take(3));
        pool.truncate(12);
        let (buf, pos, nptr) = compress_by_hand(&mut rng, &pool);
        c.count("compressed_name_pointers", nptr as u64);
        let ex = || json!({"names": pool.iter().map(|n| hex(n)).collect::<Vec<_>>()});
        let res = crate::ctx::catch(|| {
            let flat: Vec<Name<Vec<u8>>> = pool.iter().map(|n| Name::from_octets(n.clone()).expect("harness: valid name")).collect();
            let byt: Vec<Name<Bytes>> = pool.iter().map(|n| Name::from_octets(Bytes::from(n.clone())).expect("harness: valid name")).collect();
            let parsed: Vec<ParsedName<&[u8]>> = pos
                .iter()
                .map(|p| {
                    let mut ps = Parser::from_ref(&buf[..]);
                    ps.advance(*p).unwrap();
                    ParsedName::parse(&mut ps).expect("harness: hand-compressed name parses")
                })
                .collect();
            // chains: split at a random label boundary
            let chains: Vec<_> = pool
                .iter()
                .map(|n| {
                    let ls = w::labels(n);
                    let k = rng.below(ls.len() + 1);
                    let mut off = 0;
                    for l in &ls[..k] {
                        off += 1 + l.len();
                    }
                    let left = RelativeName::from_octets(n[..off].to_vec()).expect("harness: relative part");
                    let right = Name::from_octets(n[off..].to_vec()).expect("harness: absolute part");
                    left.chain(right).expect("harness: chain within limits")
                })
                .collect();
            for i in 0..pool.len() {
                // the parsed representation must denote the same name
                if parsed[i].to_vec().as_slice() != &pool[i][..] {
                    c.violation("harness:hand-compression", "hand-compressed name does not flatten to its source", c.replay_of(fam, idx, ex()));
                    return;
                }
                for j in 0..pool.len() {
                    let req = w::lower(&pool[i]) == w::lower(&pool[j]);
                    let rcmp = w::canonical_name_cmp(&pool[i], &pool[j]);
                    let mut obs: Vec<(&'static str, bool, Ordering)> = vec![
                        ("flat/flat", flat[i] == flat[j], flat[i].cmp(&flat[j])),
                        ("flat/bytes", flat[i] == byt[j], flat[i].partial_cmp(&byt[j]).unwrap()),
                        ("flat/parsed", flat[i] == parsed[j], flat[i].partial_cmp(&parsed[j]).unwrap()),
                        ("parsed/flat", parsed[i] == flat[j], parsed[i].partial_cmp(&flat[j]).unwrap()),
                        ("parsed/parsed", parsed[i] == parsed[j], parsed[i].cmp(&parsed[j])),
                        ("flat/chain", flat[i].name_eq(&chains[j]), flat[i].name_cmp(&chains[j])),
                        ("chain/parsed", chains[i].name_eq(&parsed[j]), chains[i].name_cmp(&parsed[j])),
                        ("chain/chain", chains[i].name_eq(&chains[j]), chains[i].name_cmp(&chains[j])),
                        ("slice/slice", flat[i].for_slice() == flat[j].for_slice(), flat[i].for_slice().cmp(flat[j].for_slice())),
                    ];
                    obs.push(("canonical:flat/parsed", req, flat[i].canonical_cmp(&parsed[j])));
                    obs.push(("canonical:parsed/flat", req, parsed[i].canonical_cmp(&flat[j])));
                    for (rep, eq, cmp) in obs {
                        if eq != req {
                            let sig = format!("law:name-eq:{}", rep);
                            let rp = c.replay_of(fam, idx, json!({"a": hex(&pool[i]), "b": hex(&pool[j]), "rep": rep}));
                            c.violation(&sig, &format!("{} == {} is {} in representation {}, reference {}", w::name_text(&pool[i]), w::name_text(&pool[j]), eq, rep, req), rp);
                        }
                        if cmp != rcmp {
                            let sig = format!("law:name-order:{}", rep);
                            let rp = c.replay_of(fam, idx, json!({"a": hex(&pool[i]), "b": hex(&pool[j]), "rep": rep}));
                            c.violation(&sig, &format!("cmp({}, {}) = {} in representation {}, RFC 4034 6.1 gives {}", w::name_text(&pool[i]), w::name_text(&pool[j]), ord_s(cmp), rep, ord_s(rcmp)), rp);
                        }
                    }
                    // hash: equal names hash equal in every hashable representation
                    if req {
                        let hs = [hash64(&flat[i]), hash64(&flat[j]), hash64(&byt[j]), hash64(&parsed[i]), hash64(&parsed[j]), hash64(flat[j].for_slice())];
                        if hs.iter().any(|h| *h != hs[0]) {
                            let rp = c.replay_of(fam, idx, json!({"a": hex(&pool[i]), "b": hex(&pool[j])}));
                            c.violation("law:name-hash", &format!("equal names {} / {} hash differently across representations: {:x?}", w::name_text(&pool[i]), w::name_text(&pool[j]), hs), rp);
                        }
                        c.count("equal_name_pairs", 1);
                    }
                    // lowercase_composed_cmp is the octet order of the canonical wire forms
                    let lc = flat[i].lowercase_composed_cmp(&parsed[j]);
                    if lc != w::lower(&pool[i]).cmp(&w::lower(&pool[j])) {
                        let rp = c.replay_of(fam, idx, json!({"a": hex(&pool[i]), "b": hex(&pool[j])}));
                        c.violation("law:lowercase_composed_cmp", "lowercase_composed_cmp differs from octet order of lower-cased wire forms", rp);
                    }
                    // composed_cmp is the octet order of the uncompressed wire forms, whatever the representation
                    // (two flat names take a shortcut over their slices; chains and compressed names go label by label)
                    let want_cc = pool[i].cmp(&pool[j]);
                    let want_lc = w::lower(&pool[i]).cmp(&w::lower(&pool[j]));
                    for (rep, cc, lc) in [
                        ("flat/flat", flat[i].composed_cmp(&flat[j]), flat[i].lowercase_composed_cmp(&flat[j])),
                        ("flat/chain", flat[i].composed_cmp(&chains[j]), flat[i].lowercase_composed_cmp(&chains[j])),
                        ("chain/flat", chains[i].composed_cmp(&flat[j]), chains[i].lowercase_composed_cmp(&flat[j])),
                        ("chain/chain", chains[i].composed_cmp(&chains[j]), chains[i].lowercase_composed_cmp(&chains[j])),
                        ("parsed/parsed", parsed[i].composed_cmp(&parsed[j]), parsed[i].lowercase_composed_cmp(&parsed[j])),
                        ("parsed/chain", parsed[i].composed_cmp(&chains[j]), parsed[i].lowercase_composed_cmp(&chains[j])),
                        ("flat/parsed", flat[i].composed_cmp(&parsed[j]), flat[i].lowercase_composed_cmp(&parsed[j])),
                    ] {
                        if cc != want_cc {
                            let rp = c.replay_of(fam, idx, json!({"a": hex(&pool[i]), "b": hex(&pool[j]), "rep": rep}));
                            c.violation(&format!("law:composed_cmp:{}", rep), &format!("composed_cmp({}, {}) = {} in representation {}, the wire forms order {}", w::name_text(&pool[i]), w::name_text(&pool[j]), ord_s(cc), rep, ord_s(want_cc)), rp);
                        }
                        if lc != want_lc {
                            let rp = c.replay_of(fam, idx, json!({"a": hex(&pool[i]), "b": hex(&pool[j]), "rep": rep}));
                            c.violation(&format!("law:lowercase_composed_cmp:{}", rep), &format!("lowercase_composed_cmp({}, {}) = {} in representation {}, the lower-cased wire forms order {}", w::name_text(&pool[i]), w::name_text(&pool[j]), ord_s(lc), rep, ord_s(want_lc)), rp);
                        }
                    }
                    c.count("composed_cmp_pairs", 7);
                    c.eval(&("name-pair", req, rcmp as i8, pool[i].len().min(40) / 8, parsed[j].is_compressed()));
                }
            }
            // relative names and uncertain names, labels
            let rels: Vec<Vec<u8>> = pool.iter().map(|n| n[..n.len() - 1].to_vec()).collect();
            let rn: Vec<RelativeName<Vec<u8>>> = rels.iter().map(|r| RelativeName::from_octets(r.clone()).expect("harness: relative")).collect();
            for i in 0..rn.len() {
                for j in 0..rn.len() {
                    let req = w::lower(&rels[i]) == w::lower(&rels[j]);
                    let rcmp = w::canonical_name_cmp(&rels[i], &rels[j]);
                    if (rn[i] == rn[j]) != req || rn[i].name_eq(&rn[j]) != req {
                        let rp = c.replay_of(fam, idx, json!({"a": hex(&rels[i]), "b": hex(&rels[j])}));
                        c.violation("law:relname-eq", "RelativeName equality differs from the reference", rp);
                    }
                    if rn[i].cmp(&rn[j]) != rcmp || rn[i].name_cmp(&rn[j]) != rcmp {
                        let rp = c.replay_of(fam, idx, json!({"a": hex(&rels[i]), "b": hex(&rels[j])}));
                        c.violation("law:relname-order", &format!("RelativeName order {} differs from reference {}", ord_s(rn[i].cmp(&rn[j])), ord_s(rcmp)), rp);
                    }
                    if req && hash64(&rn[i]) != hash64(&rn[j]) {
                        c.violation("law:relname-hash", "equal relative names hash differently", c.replay_of(fam, idx, json!({"a": hex(&rels[i]), "b": hex(&rels[j])})));
                    }
                    let ui = UncertainName::<Vec<u8>>::from_octets(rels[i].clone());
                    let uj = UncertainName::<Vec<u8>>::from_octets(rels[j].clone());
                    if let (Ok(ui), Ok(uj)) = (ui, uj) {
                        if (ui == uj) != req || (req && hash64(&ui) != hash64(&uj)) {
                            c.violation("law:uncertain-eq-hash", "UncertainName eq/hash incoherent", c.replay_of(fam, idx, json!({"a": hex(&rels[i]), "b": hex(&rels[j])})));
                        }
                    }
                }
            }
            let labs: Vec<&[u8]> = pool.iter().flat_map(|n| w::labels(n)).take(14).collect();
            for a in &labs {
                for b in &labs {
                    let la = Label::from_slice(a).unwrap();
                    let lb = Label::from_slice(b).unwrap();
                    let al: Vec<u8> = a.to_ascii_lowercase();
                    let bl: Vec<u8> = b.to_ascii_lowercase();
                    if (la == lb) != (al == bl) || la.cmp(lb) != al.cmp(&bl) || ((al == bl) && hash64(la) != hash64(lb)) {
                        c.violation("law:label", &format!("Label eq/cmp/hash incoherent for {} / {}", hex(a), hex(b)), c.replay_of(fam, idx, json!({"a": hex(a), "b": hex(b)})));
                    }
                    // composed order of labels: length octet first, then content
                    let mut ca = vec![a.len() as u8];
                    ca.extend_from_slice(a);
                    let mut cb = vec![b.len() as u8];
                    cb.extend_from_slice(b);
                    if la.composed_cmp(lb) != ca.cmp(&cb) || la.lowercase_composed_cmp(lb) != ca.to_ascii_lowercase().cmp(&cb.to_ascii_lowercase()) {
                        c.violation("law:label-composed_cmp", &format!("Label::composed_cmp / lowercase_composed_cmp of {} / {} differ from the order of the composed labels", hex(a), hex(b)), c.replay_of(fam, idx, json!({"a": hex(a), "b": hex(b)})));
                    }
                    c.count("label_pairs", 1);
                }
            }
        });
        if let Err(pi) = res {
            let rp = c.replay_of(fam, idx, ex());
            c.violation(&format!("panic:{}", pi.site()), &format!("panic comparing names: {} at {}:{}", pi.msg, pi.file, pi.line), rp);
        }
        if c.want_sample() && idx % 9 == 1 {
            c.sample(json!({"family": "names", "pool": pool.iter().take(5).map(|n| w::name_text(n)).collect::<Vec<_>>()}));
        }
    }
}

// ----------------------------------------------------------- charstr --

fn charstr_family(c: &mut Ctx) {
    let fam = "charstr";
    let total = c.total(30_000, 1_800_000);
    for idx in c.cases(fam, total) {
        let mut rng = c.case_rng(fam, idx);
        let base: Vec<u8> = (0..rng.range(0, 12)).map(|_| *rng.pick(&[b'a', b'A', b'b', b'Z', b'z', 0x40, 0x5b, 0x60, 0x7b, 0, 0xff, b' '])).collect();
        let mut pool = vec![base.clone()];
        for _ in 0..5 {
            let mut v = base.clone();
            match rng.below(5) {
                0 => v.iter_mut().for_each(|b| if b.is_ascii_alphabetic() && rng.bool() { *b ^= 0x20 }),
                1 => v.push(*rng.pick(&[b'a', 0, 0xff])),
                2 => {
                    v.pop();
                }
                3 => {
                    if !v.is_empty() {
                        let i = rng.below(v.len());
                        v[i] = v[i].wrapping_add(1);
                    }
                }
                _ => v.insert(0, b'a'),
            }
            pool.push(v);
        }
        let res = crate::ctx::catch(|| {
            let cs: Vec<CharStr<Vec<u8>>> = pool.iter().map(|p| CharStr::from_octets(p.clone()).unwrap()).collect();
            for i in 0..cs.len() {
                for j in 0..cs.len() {
                    let eq = cs[i] == cs[j];
                    let cmp = cs[i].cmp(&cs[j]);
                    let bad = (eq != (cs[j] == cs[i])) || (eq != (cmp == Ordering::Equal)) || (cmp != cs[j].cmp(&cs[i]).reverse()) || (eq && hash64(&cs[i]) != hash64(&cs[j])) || (i == j && !eq) || cs[i].partial_cmp(&cs[j]) != Some(cmp);
                    if bad {
                        c.violation("law:charstr", &format!("CharStr eq/cmp/hash incoherent for {} / {}", hex(&pool[i]), hex(&pool[j])), c.replay_of(fam, idx, json!({"a": hex(&pool[i]), "b": hex(&pool[j])})));
                    }
                    // case independence
                    if (pool[i].to_ascii_lowercase() == pool[j].to_ascii_lowercase()) != eq {
                        c.violation("law:charstr-case", "CharStr equality is not ASCII-case-insensitive equality", c.replay_of(fam, idx, json!({"a": hex(&pool[i]), "b": hex(&pool[j])})));
                    }
                    // canonical order = octet order of the wire form (length octet first)
                    let mut wa = vec![pool[i].len() as u8];
                    wa.extend_from_slice(&pool[i]);
                    let mut wb = vec![pool[j].len() as u8];
                    wb.extend_from_slice(&pool[j]);
                    if cs[i].canonical_cmp(&cs[j]) != wa.cmp(&wb) {
                        c.violation("law:charstr-canonical", &format!("CharStr canonical_cmp({}, {}) = {} but wire order is {}", hex(&pool[i]), hex(&pool[j]), ord_s(cs[i].canonical_cmp(&cs[j])), ord_s(wa.cmp(&wb))), c.replay_of(fam, idx, json!({"a": hex(&pool[i]), "b": hex(&pool[j])})));
                    }
                    c.eval(&("charstr", eq, cmp as i8, pool[i].len().min(6)));
                }
            }
        });
        if let Err(pi) = res {
            c.violation(&format!("panic:{}", pi.site()), &pi.msg, c.replay_of(fam, idx, json!({})));
        }
    }
}

// ------------------------------------------------------------- rdata --

type Parsed<'a> = AllRecordData<&'a [u8], ParsedName<&'a [u8]>>;
type Flat = AllRecordData<Vec<u8>, Name<Vec<u8>>>;

fn mutate_fields(rng: &mut Rng, fs: &[Fv], pool: &g::NamePool) -> Vec<Fv> {
    let mut out = fs.to_vec();
    if out.is_empty() {
        return out;
    }
    let i = rng.below(out.len());
    match &mut out[i] {
        Fv::Raw(b) => {
            if b.is_empty() {
                return out;
            }
            let j = rng.below(b.len());
            match rng.below(4) {
                0 => {
                    if b[j].is_ascii_alphabetic() {
                        b[j] ^= 0x20
                    } else {
                        b[j] = b[j].wrapping_add(1)
                    }
                }
                1 => b[j] = b[j].wrapping_add(1),
                2 => b[j] = b[j].wrapping_sub(1),
                _ => {
                    let l = b.len();
                    b[l - 1] ^= 0x80
                }
            }
        }
        Fv::Name { wire, .. } => {
            *wire = match rng.below(3) {
                0 => names::case_variant(rng, wire),
                1 => pool.pick(rng),
                _ => {
                    let nb = name_neighbours(rng, wire);
                    rng.pick(&nb).clone()
                }
            };
        }
    }
    out
}

struct Val {
    fs: Vec<Fv>,
    canon: Vec<u8>,
    buf: Vec<u8>,
    start: usize,
    rdlen: usize,
}

fn rdata_family(c: &mut Ctx) {
    let fam = "rdata";
    let total = c.total(100_000, 6_000_000);
    for idx in c.cases(fam, total) {
        if c.out_of_time() {
            break;
        }
        let mut rng = c.case_rng(fam, idx);
        let k = w::KNOWN_TYPES.len() as u64 + 1;
        let t = if idx % k == k - 1 { *rng.pick(&[99u16, 65280, 1234]) } else { w::KNOWN_TYPES[(idx % k) as usize] };
        let pool = g::NamePool::new(&mut rng, 5);
        let mut np = |r: &mut Rng| pool.pick(r);
        let base = g::fields(&mut rng, t, &mut np);
        let mut group = vec![base.clone()];
        for _ in 0..rng.range(3, 5) {
            let src = rng.pick(&group).clone();
            group.push(mutate_fields(&mut rng, &src, &pool));
        }
        // a second, unrelated value of the same type
        group.push(g::fields(&mut rng, t, &mut np));
        // materialise: uncompressed buffers; some with compressed names on input
        let vals: Vec<Val> = group
            .iter()
            .filter_map(|fs| {
                let wire = w::compose_fields(fs);
                if wire.len() > 60000 {
                    return None;
                }
                let mut buf = vec![0u8; 12];
                let start = 12;
                buf.extend_from_slice(&wire);
                // re-decode to validate (mutations may break type-specific structure)
                let dec = w::decode_rdata(&buf, start, wire.len(), t).ok()?;
                Some(Val { canon: w::compose_fields_canonical(&dec), fs: dec, buf, start, rdlen: wire.len() })
            })
            .collect();
        let tn = if w::layout(t).is_some() { w::type_name(t) } else { "UNKNOWN" };
        let ex = || json!({"rtype": t, "values": vals.iter().map(|v| hex(&v.buf[v.start..])).collect::<Vec<_>>()});
        let res = crate::ctx::catch(|| {
            let parsed: Vec<Option<Parsed>> = vals
                .iter()
                .map(|v| {
                    let mut p = Parser::from_ref(&v.buf[..]);
                    p.advance(v.start).ok()?;
                    let mut sub = p.parse_parser(v.rdlen).ok()?;
                    let r = Parsed::parse_any_rdata(Rtype::from_int(t), &mut sub).ok()?;
                    if sub.remaining() != 0 {
                        return None;
                    }
                    Some(r)
                })
                .collect();
            let idxs: Vec<usize> = (0..vals.len()).filter(|i| parsed[*i].is_some()).collect();
            let flat: Vec<Option<Flat>> = parsed.iter().map(|p| p.clone().and_then(|p| p.try_flatten_into().ok())).collect();
            for &i in &idxs {
                let x = parsed[i].as_ref().unwrap();
                let xf = flat[i].as_ref().unwrap();
                // reflexivity and representation independence
                if !(x == x) || !(xf == xf) || !(x == xf) || x.cmp(x) != Ordering::Equal || x.partial_cmp(xf) != Some(Ordering::Equal) || x.canonical_cmp(xf) != Ordering::Equal || hash64(x) != hash64(xf) {
                    let sig = format!("law:eq-reflexive:{}", tn);
                    let rp = c.replay_of(fam, idx, json!({"rtype": t, "rdata": hex(&vals[i].buf[12..])}));
                    c.violation(&sig, &format!("value of type {} is not equal / Equal / same-hash to itself or its flattened copy", tn), rp);
                }
                // the order is *defined* as the octet order of the canonical wire forms: what the library itself composes as
                // the canonical form (of the value as parsed and as flattened) is the reference's canonical form
                {
                    use domain::base::rdata::ComposeRecordData;
                    let mut a = Vec::new();
                    let mut b = Vec::new();
                    if x.compose_canonical_rdata(&mut a).is_ok() && xf.compose_canonical_rdata(&mut b).is_ok() {
                        c.count("canonical_forms_composed", 1);
                        if a != vals[i].canon || b != vals[i].canon {
                            let sig = format!("law:canonical-form:{}", tn);
                            let rp = c.replay_of(fam, idx, json!({"rtype": t, "rdata": hex(&vals[i].buf[12..])}));
                            c.violation(&sig, &format!("compose_canonical_rdata of a {} gives {} (parsed) / {} (flattened), the canonical form by RFC 4034 6.2 is {}", tn, hex(&a[..a.len().min(48)]), hex(&b[..b.len().min(48)]), hex(&vals[i].canon[..vals[i].canon.len().min(48)])), rp);
                        }
                    }
                }
                for &j in &idxs {
                    let y = parsed[j].as_ref().unwrap();
                    let yf = flat[j].as_ref().unwrap();
                    let eq = x == y;
                    let cmp = x.cmp(y);
                    let pair = || json!({"rtype": t, "a": hex(&vals[i].buf[12..]), "b": hex(&vals[j].buf[12..])});
                    if eq != (y == x) {
                        c.violation(&format!("law:eq-symmetric:{}", tn), "x == y differs from y == x", c.replay_of(fam, idx, pair()));
                    }
                    if eq != (cmp == Ordering::Equal) {
                        c.violation(&format!("law:eq-vs-cmp:{}", tn), &format!("x == y is {} but cmp is {}", eq, ord_s(cmp)), c.replay_of(fam, idx, pair()));
                    }
                    if cmp != y.cmp(x).reverse() {
                        c.violation(&format!("law:cmp-antisymmetric:{}", tn), "cmp(x,y) != reverse(cmp(y,x))", c.replay_of(fam, idx, pair()));
                    }
                    if x.partial_cmp(y) != Some(cmp) || x.partial_cmp(yf) != Some(cmp) || xf.cmp(yf) != cmp {
                        c.violation(&format!("law:cmp-representation:{}", tn), "partial_cmp / cmp differ across representations", c.replay_of(fam, idx, pair()));
                    }
                    if eq != (x == yf) || eq != (xf == yf) {
                        c.violation(&format!("law:eq-representation:{}", tn), "equality differs across representations", c.replay_of(fam, idx, pair()));
                    }
                    if eq && (hash64(x) != hash64(y) || hash64(xf) != hash64(yf) || hash64(x) != hash64(yf)) {
                        c.violation(&format!("law:eq-hash:{}", tn), "equal values hash differently", c.replay_of(fam, idx, pair()));
                    }
                    // canonical order = octet order of the canonical forms
                    let want = vals[i].canon.cmp(&vals[j].canon);
                    let got = x.canonical_cmp(y);
                    if got != want || x.canonical_cmp(yf) != want || xf.canonical_cmp(yf) != want {
                        let sig = format!("law:canonical-order:{}", tn);
                        c.violation(&sig, &format!("canonical_cmp = {} but the canonical wire forms {} / {} order {}", ord_s(got), hex(&vals[i].canon[..vals[i].canon.len().min(40)]), hex(&vals[j].canon[..vals[j].canon.len().min(40)]), ord_s(want)), c.replay_of(fam, idx, pair()));
                    }
                    // name case must not matter for equality
                    if vals[i].fs.len() == vals[j].fs.len() {
                        let same_mod_case = vals[i].fs.iter().zip(&vals[j].fs).all(|(a, b)| match (a, b) {
                            (Fv::Raw(x), Fv::Raw(y)) => x == y,
                            (Fv::Name { wire: x, .. }, Fv::Name { wire: y, .. }) => w::lower(x) == w::lower(y),
                            _ => false,
                        });
                        if same_mod_case && !eq {
                            c.violation(&format!("law:eq-name-case:{}", tn), "values differing only in the ASCII case of embedded names are unequal", c.replay_of(fam, idx, pair()));
                        }
                        if same_mod_case {
                            c.count("rdata_pairs_equal_mod_case", 1);
                        }
                    }
                    c.eval(&("rdata-pair", t.min(300), eq, cmp as i8, want as i8));
                    // transitivity on triples
                    for &k in &idxs {
                        let z = parsed[k].as_ref().unwrap();
                        if cmp != Ordering::Greater && y.cmp(z) != Ordering::Greater && x.cmp(z) == Ordering::Greater {
                            c.violation(&format!("law:cmp-transitive:{}", tn), "x <= y and y <= z but x > z", c.replay_of(fam, idx, json!({"rtype": t, "a": hex(&vals[i].buf[12..]), "b": hex(&vals[j].buf[12..]), "c": hex(&vals[k].buf[12..])})));
                        }
                        if eq && (y == z) && !(x == z) {
                            c.violation(&format!("law:eq-transitive:{}", tn), "x == y and y == z but x != z", c.replay_of(fam, idx, json!({"rtype": t})));
                        }
                        let cc = x.canonical_cmp(y);
                        if cc != Ordering::Greater && y.canonical_cmp(z) != Ordering::Greater && x.canonical_cmp(z) == Ordering::Greater {
                            c.violation(&format!("law:canonical-transitive:{}", tn), "canonical order not transitive", c.replay_of(fam, idx, json!({"rtype": t})));
                        }
                        c.count("triples", 1);
                    }
                }
            }
            c.count(&format!("type_{}", tn), idxs.len() as u64);
        });
        if let Err(pi) = res {
            c.violation(&format!("panic:{}", pi.site()), &format!("panic comparing {} values: {} at {}:{}", tn, pi.msg, pi.file, pi.line), c.replay_of(fam, idx, ex()));
        }
        if c.want_sample() && idx % 41 == 7 {
            c.sample(json!({"family": "rdata", "rtype": tn, "group": vals.iter().take(3).map(|v| hex(&v.buf[12..v.buf.len().min(44)])).collect::<Vec<_>>()}));
        }
    }
}

// ----------------------------------------------------------- records --

fn records_family(c: &mut Ctx) {
    let fam = "records";
    let total = c.total(50_000, 3_000_000);
    for idx in c.cases(fam, total) {
        if c.out_of_time() {
            break;
        }
        let mut rng = c.case_rng(fam, idx);
        let pool = g::NamePool::new(&mut rng, 5);
        let mut np = |r: &mut Rng| pool.pick(r);
        // a group of records sharing owner/type, with variations
        let t = g::pick_type(&mut rng, false);
        let owner = pool.pick(&mut rng);
        let base = g::fields(&mut rng, t, &mut np);
        struct R {
            owner: Vec<u8>,
            class: u16,
            ttl: u32,
            t: u16,
            wire: Vec<u8>,
            canon: Vec<u8>,
        }
        let mut rs: Vec<R> = Vec::new();
        let mk = |o: &[u8], cl: u16, ttl: u32, t: u16, fs: &[Fv]| R { owner: o.to_vec(), class: cl, ttl, t, wire: w::compose_fields(fs), canon: w::compose_fields_canonical(fs) };
        rs.push(mk(&owner, 1, 3600, t, &base));
        rs.push(mk(&owner, 1, 7200, t, &base)); // TTL only
        rs.push(mk(&names::case_variant(&mut rng, &owner), 1, 3600, t, &base)); // owner case only
        rs.push(mk(&owner, 3, 3600, t, &base)); // class
        let m1 = mutate_fields(&mut rng, &base, &pool);
        if w::decode_rdata(&{ let mut b = vec![0u8; 12]; b.extend(w::compose_fields(&m1)); b }, 12, w::compose_fields(&m1).len(), t).is_ok() {
            rs.push(mk(&owner, 1, 3600, t, &m1));
        }
        let nb = name_neighbours(&mut rng, &owner);
        let nbo: Vec<u8> = rng.pick(&nb[..]).clone();
        rs.push(mk(&nbo, 1, 3600, t, &base)); // neighbouring owner
        let t2 = g::pick_type(&mut rng, false);
        let f2 = g::fields(&mut rng, t2, &mut np);
        rs.push(mk(&owner, 1, 3600, t2, &f2)); // other type
        rs.retain(|r| r.wire.len() < 60000);
        let res = crate::ctx::catch(|| {
            let bufs: Vec<Vec<u8>> = rs.iter().map(|r| { let mut b = vec![0u8; 12]; b.extend_from_slice(&r.wire); b }).collect();
            let recs: Vec<Option<Record<Name<Vec<u8>>, Parsed>>> = rs
                .iter()
                .zip(&bufs)
                .map(|(r, b)| {
                    let mut p = Parser::from_ref(&b[..]);
                    p.advance(12).ok()?;
                    let mut sub = p.parse_parser(r.wire.len()).ok()?;
                    let d = Parsed::parse_any_rdata(Rtype::from_int(r.t), &mut sub).ok()?;
                    Some(Record::new(Name::from_octets(r.owner.clone()).ok()?, Class::from_int(r.class), Ttl::from_secs(r.ttl), d))
                })
                .collect();
            let ix: Vec<usize> = (0..rs.len()).filter(|i| recs[*i].is_some()).collect();
            for &i in &ix {
                let x = recs[i].as_ref().unwrap();
                for &j in &ix {
                    let y = recs[j].as_ref().unwrap();
                    let eq = x == y;
                    let cmp = x.cmp(y);
                    let pair = || json!({"a": {"owner": hex(&rs[i].owner), "class": rs[i].class, "ttl": rs[i].ttl, "type": rs[i].t, "rdata": hex(&rs[i].wire)}, "b": {"owner": hex(&rs[j].owner), "class": rs[j].class, "ttl": rs[j].ttl, "type": rs[j].t, "rdata": hex(&rs[j].wire)}});
                    if i == j && !eq {
                        c.violation("law:record-eq-reflexive", "record != itself", c.replay_of(fam, idx, pair()));
                    }
                    if eq != (y == x) || eq != (cmp == Ordering::Equal) || cmp != y.cmp(x).reverse() || x.partial_cmp(y) != Some(cmp) {
                        c.violation("law:record-eq-cmp", &format!("Record eq ({}) / cmp ({}) incoherent", eq, ord_s(cmp)), c.replay_of(fam, idx, pair()));
                    }
                    if eq && hash64(x) != hash64(y) {
                        let what = if rs[i].ttl != rs[j].ttl { "ttl-differs" } else { "same-ttl" };
                        c.violation(&format!("law:record-eq-hash:{}", what), "equal records hash differently", c.replay_of(fam, idx, pair()));
                    }
                    // canonical order
                    let got = x.canonical_cmp(y);
                    let same_owner = w::lower(&rs[i].owner) == w::lower(&rs[j].owner);
                    if rs[i].class == rs[j].class {
                        if same_owner && rs[i].t == rs[j].t {
                            // inside one RRset: octet order of canonical RDATA (RFC 4034 6.3)
                            let want = rs[i].canon.cmp(&rs[j].canon);
                            if got != want {
                                c.violation("law:record-canonical-rrset", &format!("records of one RRset order {} but canonical RDATA orders {}", ord_s(got), ord_s(want)), c.replay_of(fam, idx, pair()));
                            }
                            c.count("rrset_pairs", 1);
                        } else if !same_owner {
                            let want = w::canonical_name_cmp(&rs[i].owner, &rs[j].owner);
                            if got != want {
                                c.violation("law:record-canonical-owner", &format!("records with different owners order {} but canonical name order is {}", ord_s(got), ord_s(want)), c.replay_of(fam, idx, pair()));
                            }
                        } else if got != rs[i].t.cmp(&rs[j].t) {
                            // one owner, different types: by type (RFC 4034 6: the RRsets of a name are ordered by type)
                            c.violation("law:record-canonical-type", &format!("records of one owner with types {} and {} order {}", rs[i].t, rs[j].t, ord_s(got)), c.replay_of(fam, idx, pair()));
                        }
                    }
                    if got != y.canonical_cmp(x).reverse() {
                        c.violation("law:record-canonical-antisymmetric", "canonical_cmp not antisymmetric", c.replay_of(fam, idx, pair()));
                    }
                    // the same two records with their data carried opaquely (UnknownRecordData compares
                    // octets only and leaves the type to the record): class, owner, type, then the octets
                    {
                        use domain::base::rdata::UnknownRecordData;
                        let mkr = |k: usize| UnknownRecordData::from_octets(Rtype::from_int(rs[k].t), rs[k].wire.clone()).ok().map(|d| Record::new(Name::<Vec<u8>>::from_octets(rs[k].owner.clone()).unwrap(), Class::from_int(rs[k].class), Ttl::from_secs(rs[k].ttl), d));
                        if let (Some(ux), Some(uy)) = (mkr(i), mkr(j)) {
                            let want = rs[i].class.cmp(&rs[j].class).then(w::canonical_name_cmp(&rs[i].owner, &rs[j].owner)).then(rs[i].t.cmp(&rs[j].t)).then(rs[i].wire.cmp(&rs[j].wire));
                            let g2 = ux.canonical_cmp(&uy);
                            if g2 != want {
                                c.violation("law:record-canonical-opaque-data", &format!("records carrying opaque data order {} canonically, class/owner/type/octets order {}", ord_s(g2), ord_s(want)), c.replay_of(fam, idx, pair()));
                            }
                            if (ux == uy) != (rs[i].class == rs[j].class && same_owner && rs[i].t == rs[j].t && rs[i].wire == rs[j].wire) {
                                c.violation("law:record-eq-opaque-data", "equality of records carrying opaque data differs from class/owner/type/octets", c.replay_of(fam, idx, pair()));
                            }
                            c.count("opaque_record_pairs", 1);
                        }
                    }
                    for &k in &ix {
                        let z = recs[k].as_ref().unwrap();
                        if cmp != Ordering::Greater && y.cmp(z) != Ordering::Greater && x.cmp(z) == Ordering::Greater {
                            c.violation("law:record-cmp-transitive", "Record cmp not transitive", c.replay_of(fam, idx, pair()));
                        }
                        if got != Ordering::Greater && y.canonical_cmp(z) != Ordering::Greater && x.canonical_cmp(z) == Ordering::Greater {
                            c.violation("law:record-canonical-transitive", "Record canonical_cmp not transitive", c.replay_of(fam, idx, pair()));
                        }
                    }
                    c.eval(&("record-pair", eq, cmp as i8, got as i8, same_owner, rs[i].t == rs[j].t, rs[i].ttl == rs[j].ttl));
                }
            }
        });
        if let Err(pi) = res {
            c.violation(&format!("panic:{}", pi.site()), &format!("panic comparing records: {} at {}:{}", pi.msg, pi.file, pi.line), c.replay_of(fam, idx, json!({})));
        }
    }
}

pub fn run(c: &mut Ctx) {
    c.families(4);
    names_family(c);
    charstr_family(c);
    rdata_family(c);
    records_family(c);
    if !c.replaying() {
        c.floor("compressed_name_pointers", 100);
        c.floor("equal_name_pairs", 100);
        c.floor("label_pairs", 100);
        c.floor("triples", 1000);
        c.floor("rdata_pairs_equal_mod_case", 100);
        c.floor("rrset_pairs", 100);
        for t in w::KNOWN_TYPES {
            c.floor(&format!("type_{}", w::type_name(*t)), 1);
        }
    }
}
