//! C05 — record data of every type survives compose/parse; lengths exact;
//! canonical form per RFC 4034 §6.2 / RFC 6840 §5.1.
//!
//! Values are produced by the table-driven reference generator as wire octets
//! and read by the library, so "every value" means every value the library
//! can hold after parsing RFC-valid RDATA of the type.
use crate::ctx::{hex, Ctx};
use crate::gen::names;
use crate::gen::rdata as g;
use crate::refimpl::wire::{self as w, Fv};
use crate::rng::Rng;
use bytes::Bytes;
use domain::base::iana::{Class, Rtype};
use domain::base::message_builder::{HashCompressor, MessageBuilder, StaticCompressor, TreeCompressor};
use domain::base::record::Ttl;
use domain::base::name::{FlattenInto, Name, ParsedName};
use domain::base::opt::AllOptData;
use domain::base::rdata::{ComposeRecordData, ParseAnyRecordData, UnknownRecordData};
use domain::base::wire::Compose;
use domain::rdata::AllRecordData;
use octseq::parse::Parser;
use serde_json::json;
use std::collections::BTreeMap;

type Parsed<'a> = AllRecordData<&'a [u8], ParsedName<&'a [u8]>>;
type Flat = AllRecordData<Vec<u8>, Name<Vec<u8>>>;

/// Parse RDATA located at `start..start+rdlen` of `buf` the way
/// `ParsedRecord::to_any_record` does (limited sub-parser, no trailing data).
fn lib_parse<'a>(buf: &'a [u8], start: usize, rdlen: usize, t: u16) -> Result<Parsed<'a>, String> {
    let mut p = Parser::from_ref(buf);
    p.advance(start).map_err(|e| e.to_string())?;
    let mut sub = p.parse_parser(rdlen).map_err(|e| e.to_string())?;
    let v = Parsed::parse_any_rdata(Rtype::from_int(t), &mut sub).map_err(|e| e.to_string())?;
    if sub.remaining() != 0 {
        return Err("trailing data".into());
    }
    Ok(v)
}

struct Composed {
    rdlen_plain: Option<u16>,
    rdlen_compress: Option<u16>,
    plain: Vec<u8>,
    len_prefixed: Vec<u8>,
    canonical: Vec<u8>,
    canonical_len_prefixed: Vec<u8>,
}

fn lib_compose<D: ComposeRecordData>(v: &D) -> Composed {
    let mut plain = Vec::new();
    v.compose_rdata(&mut plain).unwrap();
    let mut len_prefixed = Vec::new();
    v.compose_len_rdata(&mut len_prefixed).unwrap();
    let mut canonical = Vec::new();
    v.compose_canonical_rdata(&mut canonical).unwrap();
    let mut canonical_len_prefixed = Vec::new();
    v.compose_canonical_len_rdata(&mut canonical_len_prefixed).unwrap();
    Composed { rdlen_plain: v.rdlen(false), rdlen_compress: v.rdlen(true), plain, len_prefixed, canonical, canonical_len_prefixed }
}

fn tname(t: u16) -> String {
    if w::layout(t).is_some() { w::type_name(t).to_string() } else { "UNKNOWN".to_string() }
}

/// Build a buffer with a 12-octet header, a name area holding the embedded
/// names (so that pointers can target them), then the RDATA with the
/// embedded names optionally replaced by pointers.
fn build_compressed(rng: &mut Rng, fs: &[Fv], only_wellknown: bool) -> (Vec<u8>, usize, usize, usize) {
    let mut buf = vec![0u8; 12];
    let mut pos = Vec::new();
    for f in fs {
        if let Fv::Name { wire, .. } = f {
            pos.push(buf.len());
            buf.extend_from_slice(wire);
        }
    }
    let start = buf.len();
    let mut ni = 0;
    let mut nptr = 0;
    for f in fs {
        match f {
            Fv::Raw(b) => buf.extend_from_slice(b),
            Fv::Name { wire, compress, .. } => {
                let p = pos[ni];
                ni += 1;
                if (*compress || !only_wellknown) && wire.len() > 1 && rng.chance(3, 4) {
                    // pointer to the whole name or to a suffix of it after some literal labels
                    let ls = w::labels(wire);
                    let keep = rng.below(ls.len());
                    let mut off = 0;
                    for l in &ls[..keep] {
                        buf.push(l.len() as u8);
                        buf.extend_from_slice(l);
                        off += 1 + l.len();
                    }
                    let target = p + off;
                    buf.push(0xC0 | (target >> 8) as u8);
                    buf.push(target as u8);
                    nptr += 1;
                } else {
                    buf.extend_from_slice(wire);
                }
            }
        }
    }
    let rdlen = buf.len() - start;
    (buf, start, rdlen, nptr)
}

fn one_value(c: &mut Ctx, fam: &str, idx: u64, rng: &mut Rng, t: u16, fs: &[Fv], per_type: &mut BTreeMap<String, u64>) {
    let wire = w::compose_fields(fs);
    let wire_c = w::compose_fields_canonical(fs);
    if wire.len() > 65535 {
        return;
    }
    let tn = tname(t);
    *per_type.entry(tn.clone()).or_insert(0) += 1;
    let mut buf = vec![0u8; 12];
    buf.extend_from_slice(&wire);
    let buf = crate::ctx::exact(&buf);
    let ex = || json!({"rtype": t, "rdata": hex(&wire)});
    let viol = |c: &mut Ctx, kind: &str, what: String| {
        let sig = format!("{}:{}", kind, tn);
        let rp = c.replay_of(fam, idx, json!({"rtype": t, "rdata": hex(&wire)}));
        c.violation(&sig, &format!("{} (type {} = {}): {}", kind, t, tn, what), rp);
    };
    let res = crate::ctx::catch(|| {
        // (1) parse the reference-composed, RFC-valid RDATA
        let v = match lib_parse(&buf, 12, wire.len(), t) {
            Ok(v) => v,
            Err(e) => {
                viol(c, "reject-valid", format!("parser rejected RFC-valid RDATA {}: {}", hex(&wire[..wire.len().min(60)]), e));
                return;
            }
        };
        // (2) compose: lengths and octets
        let co = lib_compose(&v);
        if co.plain != wire {
            viol(c, "compose-differs", format!("compose_rdata gives {} want {}", hex(&co.plain[..co.plain.len().min(60)]), hex(&wire[..wire.len().min(60)])));
        }
        if let Some(n) = co.rdlen_plain {
            if n as usize != co.plain.len() {
                viol(c, "rdlen", format!("rdlen(false) = {} but compose_rdata wrote {} octets", n, co.plain.len()));
            }
        }
        if let Some(n) = co.rdlen_compress {
            // advertised even with compression available: then the octets written on a
            // non-compressing target must still match
            if n as usize != co.plain.len() {
                viol(c, "rdlen-compress", format!("rdlen(true) = {} but compose_rdata wrote {} octets", n, co.plain.len()));
            }
        }
        let mut exp = (wire.len() as u16).to_be_bytes().to_vec();
        exp.extend_from_slice(&wire);
        if co.len_prefixed != exp {
            viol(c, "compose-len", format!("compose_len_rdata wrote RDLENGTH {:?} + {} octets for {} octets of RDATA", &co.len_prefixed[..2.min(co.len_prefixed.len())], co.len_prefixed.len().saturating_sub(2), wire.len()));
        }
        if co.canonical != wire_c {
            viol(c, "canonical-differs", format!("compose_canonical_rdata gives {} want {}", hex(&co.canonical[..co.canonical.len().min(60)]), hex(&wire_c[..wire_c.len().min(60)])));
        }
        let mut expc = (wire_c.len() as u16).to_be_bytes().to_vec();
        expc.extend_from_slice(&wire_c);
        if co.canonical_len_prefixed != expc {
            viol(c, "canonical-len", "compose_canonical_len_rdata length prefix or content wrong".into());
        }
        // (3) re-parse what the library composed
        let mut buf2 = vec![0u8; 12];
        buf2.extend_from_slice(&co.plain);
        let buf2 = crate::ctx::exact(&buf2);
        match lib_parse(&buf2, 12, co.plain.len(), t) {
            Ok(v2) => {
                if !(v == v2) {
                    viol(c, "roundtrip-ne", "parse(compose(v)) != v".into());
                }
            }
            Err(e) => viol(c, "roundtrip-err", format!("parse(compose(v)) failed: {}", e)),
        }
        // (4) flatten (owned copy) equal and composing equal
        let flat: Result<Flat, _> = v.clone().try_flatten_into();
        match flat {
            Ok(f) => {
                if !(f == v) {
                    viol(c, "flatten-ne", "flatten_into() value != original".into());
                }
                let cf = lib_compose(&f);
                if cf.plain != wire || cf.canonical != wire_c {
                    viol(c, "flatten-compose", "flattened value composes differently".into());
                }
                // Display / Debug must not fail
                let _ = format!("{} {:?}", f, f);
            }
            Err(_) => viol(c, "flatten-err", "flatten_into failed".into()),
        }
        c.count("values_roundtripped", 1);

        // (5) compressed embedded names on input
        if fs.iter().any(|f| matches!(f, Fv::Name { .. })) {
            let well_known = fs.iter().any(|f| matches!(f, Fv::Name { compress: true, .. }));
            let (cb, start, rdlen, nptr) = build_compressed(rng, fs, false);
            if nptr > 0 {
                match lib_parse(&cb, start, rdlen, t) {
                    Ok(vc) => {
                        c.count("compressed_input_accepted", 1);
                        if !(vc == v) {
                            viol(c, "compressed-input-ne", "value parsed from compressed RDATA != value parsed from uncompressed RDATA".into());
                        }
                        let cc = lib_compose(&vc);
                        if cc.plain != wire {
                            viol(c, "compressed-input-compose", format!("value parsed from compressed RDATA composes to {} want {}", hex(&cc.plain[..cc.plain.len().min(60)]), hex(&wire[..wire.len().min(60)])));
                        }
                        if cc.canonical != wire_c {
                            viol(c, "compressed-input-canonical", "canonical form of value parsed from compressed RDATA differs".into());
                        }
                    }
                    Err(e) => {
                        if well_known {
                            viol(c, "reject-compressed", format!("RFC 1035 type with compressed names rejected: {}", e));
                        } else {
                            c.count("compressed_input_rejected_nonwellknown", 1);
                        }
                    }
                }
            }
        }
        // (6) too-small fixed target: an error, never a panic, nothing half-written beyond the target
        {
            let mut small = octseq::array::Array::<16>::new();
            let r = v.compose_len_rdata(&mut small);
            if wire.len() + 2 <= 16 {
                if r.is_err() || small.as_ref() != &exp[..] {
                    viol(c, "fixed-target", "compose_len_rdata on Array<16> failed although it fits".into());
                }
            } else if r.is_ok() {
                viol(c, "fixed-target-overflow", "compose_len_rdata on Array<16> succeeded although it cannot fit".into());
            }
        }
        // (7) OPT: every option re-composes to its own octets
        if let AllRecordData::Opt(opt) = &v {
            let mut total = Vec::new();
            let mut ok = true;
            for o in opt.iter::<AllOptData<&[u8], Name<&[u8]>>>() {
                match o {
                    Ok(o) => {
                        use domain::base::opt::ComposeOptData;
                        use domain::base::opt::OptData;
                        let mut b = Vec::new();
                        o.code().to_int().compose(&mut b).unwrap();
                        o.compose_len().compose(&mut b).unwrap();
                        let before = b.len();
                        o.compose_option(&mut b).unwrap();
                        if b.len() - before != o.compose_len() as usize {
                            viol(c, "opt-compose-len", format!("option {} compose_len {} but wrote {}", o.code(), o.compose_len(), b.len() - before));
                        }
                        total.extend_from_slice(&b);
                        let _ = format!("{:?}", o);
                    }
                    Err(e) => {
                        ok = false;
                        viol(c, "opt-reject-valid", format!("well-formed option rejected: {}", e));
                    }
                }
            }
            if ok && total != wire {
                viol(c, "opt-roundtrip", format!("options re-compose to {} want {}", hex(&total), hex(&wire)));
            }
            c.count("opt_records", 1);
        }
        // (9) composing into a compressing target (the same value behind each of the three
        // compressors, after questions that hold the embedded names so that they really
        // compress): the RDLENGTH written equals the octets that follow, and a reader
        // reconstructs the same RDATA
        if fs.iter().any(|f| matches!(f, Fv::Name { .. })) {
            let mut prelude: Vec<Name<Vec<u8>>> = Vec::new();
            for f in fs {
                if let Fv::Name { wire, .. } = f {
                    if let Ok(n) = Name::from_octets(wire.clone()) {
                        prelude.push(n);
                    }
                }
            }
            let want = w::compose_fields_lower_all(fs);
            let any_compressible = fs.iter().any(|f| matches!(f, Fv::Name { compress: true, .. }));
            let mut judge = |c: &mut Ctx, comp: &str, msg: Result<Vec<u8>, String>, adv: Option<u16>| {
                let msg = match msg {
                    Ok(m) => m,
                    Err(e) => {
                        viol(c, "compressing-target-push", format!("{}: {}", comp, e));
                        return;
                    }
                };
                match w::parse_message(&msg) {
                    Ok(m) => {
                        let Some(r) = m.records.last() else { return };
                        if m.end != msg.len() {
                            viol(c, "compressing-target-rdlen", format!("{}: RDLENGTH {} but the record is followed by {} stray octets", comp, r.raw_rdlen, msg.len() - m.end));
                        } else if r.rdata_cmpform.as_deref() != Some(&want[..]) {
                            viol(c, "compressing-target-rdata", format!("{}: a reader reconstructs different RDATA from the compressed record", comp));
                        }
                        // (RP, RFC 1183, is written compressed although RFC 3597 section 4 reserves
                        // compression for the RFC 1035 types; the property does not speak about which
                        // types may compress, so this is only counted)
                        if !any_compressible && r.raw_rdlen != wire.len() {
                            c.count("compressing_target_compressed_outside_rfc1035", 1);
                        }
                        if let Some(n) = adv {
                            if n as usize != r.raw_rdlen {
                                viol(c, "rdlen-compress", format!("{}: rdlen(true) = {} but {} octets were written", comp, n, r.raw_rdlen));
                            }
                        }
                        if r.raw_rdlen < wire.len() {
                            c.count("compressing_target_compressed", 1);
                        }
                    }
                    Err(e) => viol(c, "compressing-target-rdlen", format!("{}: the reference reader cannot parse the record written: {:?} ({} octets)", comp, e, msg.len())),
                }
            };
            macro_rules! through {
                ($comp:ident, $label:expr) => {{
                    let r = (|| -> Result<Vec<u8>, String> {
                        let mut q = MessageBuilder::from_target($comp::new(Vec::new())).map_err(|_| "from_target".to_string())?.question();
                        for n in &prelude {
                            q.push((n, Rtype::A)).map_err(|e| format!("question push: {}", e))?;
                        }
                        let mut a = q.answer();
                        a.push((Name::<Vec<u8>>::root_vec(), Class::IN, Ttl::from_secs(0), &v)).map_err(|e| format!("record push: {}", e))?;
                        Ok(a.finish().into_target())
                    })();
                    judge(c, $label, r, co.rdlen_compress);
                }};
            }
            through!(StaticCompressor, "StaticCompressor");
            through!(TreeCompressor, "TreeCompressor");
            through!(HashCompressor, "HashCompressor");
        }
        // (10) the same RDATA behind the other enum (ZoneRecordData has its own dispatch code):
        // same octets, same lengths, same canonical form, also behind a compressor
        {
            use domain::base::rdata::ParseRecordData;
            let mut p = Parser::from_ref(&buf[..]);
            p.advance(12).unwrap();
            let mut sub = p.parse_parser(wire.len()).unwrap();
            match domain::rdata::ZoneRecordData::<&[u8], ParsedName<&[u8]>>::parse_rdata(Rtype::from_int(t), &mut sub) {
                Ok(Some(z)) => {
                    let cz = lib_compose(&z);
                    if cz.plain != co.plain || cz.canonical != co.canonical || cz.rdlen_plain != co.rdlen_plain || cz.rdlen_compress != co.rdlen_compress || cz.len_prefixed != co.len_prefixed {
                        viol(c, "zone-enum-differs", "ZoneRecordData composes, or states the length of, the same RDATA differently from AllRecordData".into());
                    }
                    if fs.iter().any(|f| matches!(f, Fv::Name { .. })) {
                        let r = (|| -> Result<Vec<u8>, String> {
                            let mut q = MessageBuilder::from_target(StaticCompressor::new(Vec::new())).map_err(|_| "from_target".to_string())?.question();
                            for f in fs {
                                if let Fv::Name { wire, .. } = f {
                                    if let Ok(n) = Name::from_octets(wire.clone()) {
                                        q.push((n, Rtype::A)).map_err(|e| format!("question push: {}", e))?;
                                    }
                                }
                            }
                            let mut a = q.answer();
                            a.push((Name::<Vec<u8>>::root_vec(), Class::IN, Ttl::from_secs(0), &z)).map_err(|e| format!("record push: {}", e))?;
                            Ok(a.finish().into_target())
                        })();
                        match r.map(|m| (w::parse_message(&m).map(|pm| (pm.end, pm.records.last().and_then(|r| r.rdata_cmpform.clone()))), m.len())) {
                            Ok((Ok((end, Some(rd))), len)) if end == len && rd == w::compose_fields_lower_all(fs) => c.count("zone_enum_compressed_checked", 1),
                            other => viol(c, "zone-enum-compressing-target", format!("ZoneRecordData behind a compressor: the record written does not read back ({:?})", other.map(|x| x.1))),
                        }
                    }
                    c.count("zone_enum_values", 1);
                }
                Ok(None) => {}
                Err(e) => viol(c, "zone-enum-reject-valid", format!("ZoneRecordData rejects RDATA that AllRecordData accepts: {}", e)),
            }
        }
        // (8) unknown record data carries any type opaquely
        {
            let mut p = Parser::from_ref(&wire[..]);
            match UnknownRecordData::<&[u8]>::parse_any_rdata(Rtype::from_int(t), &mut p) {
                Ok(u) => {
                    let cu = lib_compose(&u);
                    if cu.plain != wire || cu.canonical != wire || cu.rdlen_plain != Some(wire.len() as u16) {
                        viol(c, "unknown-opaque", "UnknownRecordData altered the data or its length".into());
                    }
                }
                Err(e) => viol(c, "unknown-reject", format!("UnknownRecordData rejected data: {}", e)),
            }
        }
    });
    if let Err(pi) = res {
        let sig = format!("panic:{}", pi.site());
        let rp = c.replay_of(fam, idx, ex());
        c.violation(&sig, &format!("panic on type {} rdata {}: {} at {}:{}", tn, hex(&wire[..wire.len().min(60)]), pi.msg, pi.file, pi.line), rp);
    }
    let size_class = match wire.len() { 0 => 0, 1..=15 => 1, 16..=255 => 2, 256..=4095 => 3, _ => 4 };
    c.eval(&("value", t.min(300), size_class, fs.len()));
}

/// Mutated RDATA: whatever the parser accepts must re-compose to octets that
/// parse to an equal value, and must agree with the reference decoder when
/// that also accepts.
fn one_mutant(c: &mut Ctx, fam: &str, idx: u64, rng: &mut Rng, t: u16, fs: &[Fv]) {
    let mut wire = w::compose_fields(fs);
    // nested structures: intact framing, inner values of the wrong width for their key or code
    let nested = match t {
        64 | 65 if rng.bool() => {
            wire = vec![0, 1, 0];
            wire.extend(g::hostile_svcparams(rng));
            true
        }
        41 if rng.bool() => {
            wire = g::hostile_options(rng);
            true
        }
        _ => false,
    };
    for _ in 0..(if nested { 0 } else { rng.range(1, 3) }) {
        if wire.is_empty() {
            wire.push(rng.u8());
            continue;
        }
        let p = rng.below(wire.len());
        match rng.below(7) {
            0 => wire[p] = rng.u8(),
            1 => wire[p] = *rng.pick(&[0, 1, 0x3f, 0x40, 0x7f, 0x80, 0xc0, 0xff]),
            2 => wire.truncate(p),
            3 => {
                wire.remove(p);
            }
            4 => wire.insert(p, rng.u8()),
            5 => wire.push(rng.u8()),
            _ => wire[p] ^= 1 << rng.below(8),
        }
    }
    if wire.len() > 65535 {
        return;
    }
    let tn = tname(t);
    let mut buf = vec![0u8; 12];
    buf.extend_from_slice(&wire);
    let buf = crate::ctx::exact(&buf);
    let ex = || json!({"rtype": t, "rdata": hex(&wire)});
    let res = crate::ctx::catch(|| {
        let lib = lib_parse(&buf, 12, wire.len(), t);
        let refd = w::decode_rdata(&buf, 12, wire.len(), t);
        match &lib {
            Ok(v) => {
                c.count("mutants_accepted", 1);
                let co = lib_compose(v);
                let mut b2 = vec![0u8; 12];
                b2.extend_from_slice(&co.plain);
                let b2 = crate::ctx::exact(&b2);
                match lib_parse(&b2, 12, co.plain.len(), t) {
                    Ok(v2) => {
                        if !(*v == v2) {
                            let rp = c.replay_of(fam, idx, ex());
                            c.violation(&format!("accepted-not-idempotent:{}", tn), &format!("accepted RDATA {} recomposes to a value that is not equal", hex(&wire[..wire.len().min(60)])), rp);
                        }
                        let co2 = lib_compose(&v2);
                        if co2.plain != co.plain {
                            let rp = c.replay_of(fam, idx, ex());
                            c.violation(&format!("compose-not-stable:{}", tn), "compose(parse(compose(v))) != compose(v)", rp);
                        }
                    }
                    Err(e) => {
                        let rp = c.replay_of(fam, idx, ex());
                        c.violation(&format!("accepted-not-reparsable:{}", tn), &format!("accepted RDATA {} recomposes to {} which is rejected: {}", hex(&wire[..wire.len().min(60)]), hex(&co.plain[..co.plain.len().min(60)]), e), rp);
                    }
                }
                if let Some(n) = co.rdlen_plain {
                    if n as usize != co.plain.len() {
                        let rp = c.replay_of(fam, idx, ex());
                        c.violation(&format!("rdlen:{}", tn), &format!("rdlen(false) = {} but {} octets written", n, co.plain.len()), rp);
                    }
                }
                if let Ok(rfs) = &refd {
                    // both accept: same content (the input had no pointers, so plain octets)
                    let rw = w::compose_fields(rfs);
                    if co.plain != rw {
                        let rp = c.replay_of(fam, idx, ex());
                        c.violation(&format!("both-accept-differ:{}", tn), &format!("library recomposes {} to {}, reference to {}", hex(&wire[..wire.len().min(60)]), hex(&co.plain[..co.plain.len().min(60)]), hex(&rw[..rw.len().min(60)])), rp);
                    }
                    c.count("mutants_both_accept", 1);
                }
                let _ = format!("{} {:?}", v, v);
                if nested {
                    c.count("mutants_nested_accepted", 1);
                }
            }
            Err(_) => c.count("mutants_rejected", 1),
        }
        c.eval(&("mutant", t.min(300), lib.is_ok(), refd.is_ok()));
    });
    if let Err(pi) = res {
        let sig = format!("panic:{}", pi.site());
        let rp = c.replay_of(fam, idx, ex());
        c.violation(&sig, &format!("panic on mutated type {} rdata {}: {} at {}:{}", tn, hex(&wire[..wire.len().min(60)]), pi.msg, pi.file, pi.line), rp);
    }
}

/// SVCB parameters assembled through `SvcParamsBuilder` in any push order
/// freeze to the key-sorted sequence holding every value pushed; a second
/// push of a key is refused and changes nothing.
fn svcb_builder_case(c: &mut Ctx, fam: &str, idx: u64, rng: &mut Rng) {
    use domain::base::iana::SvcParamKey;
    use domain::rdata::svcb::{SvcParams, SvcParamsBuilder, UnknownSvcParam};
    // a sorted, well-formed parameter sequence from the reference generator, topped up with opaque keys
    let mut wire = g::svcparams(rng);
    let mut pairs: Vec<(u16, Vec<u8>)> = Vec::new();
    let mut p = 0;
    while p + 4 <= wire.len() {
        let k = u16::from_be_bytes([wire[p], wire[p + 1]]);
        let l = u16::from_be_bytes([wire[p + 2], wire[p + 3]]) as usize;
        pairs.push((k, wire[p + 4..p + 4 + l].to_vec()));
        p += 4 + l;
    }
    for _ in 0..rng.below(5) {
        let k = 10 + rng.below(40) as u16;
        if !pairs.iter().any(|(x, _)| *x == k) {
            pairs.push((k, rng.bytes(rng.clone().range(0, 12))));
        }
    }
    // the "mandatory" value lists the other keys; keep whatever the generator made, the builder treats values as opaque
    pairs.sort_by_key(|(k, _)| *k);
    wire.clear();
    for (k, v) in &pairs {
        wire.extend_from_slice(&k.to_be_bytes());
        wire.extend_from_slice(&(v.len() as u16).to_be_bytes());
        wire.extend_from_slice(v);
    }
    // push order: ascending, descending or shuffled
    let mut order: Vec<usize> = (0..pairs.len()).collect();
    let order_kind = rng.below(4);
    match order_kind {
        0 => {}
        1 => order.reverse(),
        _ => {
            for i in (1..order.len()).rev() {
                let j = rng.below(i + 1);
                order.swap(i, j);
            }
        }
    }
    // some of the values may come from an existing sequence (from_params), the rest are pushed
    let keep = if rng.chance(1, 3) { rng.below(pairs.len() + 1) } else { 0 };
    let ex = json!({"order": order.iter().map(|i| pairs[*i].0).collect::<Vec<_>>(), "from_params": keep, "wire": hex(&wire)});
    let res = crate::ctx::catch(|| -> Result<(), (String, String)> {
        let mut b: SvcParamsBuilder<Vec<u8>> = if keep > 0 {
            let mut pre = Vec::new();
            let mut idxs: Vec<usize> = order[..keep].to_vec();
            idxs.sort_unstable();
            for i in &idxs {
                pre.extend_from_slice(&pairs[*i].0.to_be_bytes());
                pre.extend_from_slice(&(pairs[*i].1.len() as u16).to_be_bytes());
                pre.extend_from_slice(&pairs[*i].1);
            }
            let sp = SvcParams::from_octets(pre).map_err(|_| ("svcb-builder:from_octets".to_string(), "sorted sequence rejected".to_string()))?;
            SvcParamsBuilder::from_params(&sp).map_err(|_| ("svcb-builder:from_params".to_string(), "from_params failed on a Vec".to_string()))?
        } else {
            SvcParamsBuilder::empty()
        };
        for (n, i) in order.iter().enumerate().skip(keep) {
            let (k, v) = &pairs[*i];
            let val = UnknownSvcParam::new(SvcParamKey::from_int(*k), &v[..]).map_err(|_| ("svcb-builder:value".to_string(), "UnknownSvcParam::new refused a short value".to_string()))?;
            b.push(&val).map_err(|e| ("svcb-builder:push".to_string(), format!("push of key {} refused: {}", k, e)))?;
            // now and then push a key that is already there: refused, nothing changes
            if rng.chance(1, 4) {
                let (dk, _) = &pairs[order[rng.below(n + 1)]];
                let before: SvcParams<Vec<u8>> = b.freeze().map_err(|_| ("svcb-builder:freeze".to_string(), "freeze failed".to_string()))?;
                let dup = UnknownSvcParam::new(SvcParamKey::from_int(*dk), &b"dup"[..]).unwrap();
                if b.push(&dup).is_ok() {
                    return Err(("svcb-builder:duplicate-accepted".into(), format!("second push of key {} accepted", dk)));
                }
                let after: SvcParams<Vec<u8>> = b.freeze().map_err(|_| ("svcb-builder:freeze".to_string(), "freeze failed".to_string()))?;
                if before.as_slice() != after.as_slice() {
                    return Err(("svcb-builder:failed-push-changed".into(), format!("refused push of key {} changed the sequence", dk)));
                }
            }
        }
        let frozen: SvcParams<Vec<u8>> = b.freeze().map_err(|_| ("svcb-builder:freeze".to_string(), "freeze failed".to_string()))?;
        if frozen.as_slice() != &wire[..] {
            return Err(("svcb-builder:frozen-differs".into(), format!("pushed keys {:?}, frozen sequence is {} want {}", order.iter().map(|i| pairs[*i].0).collect::<Vec<_>>(), hex(frozen.as_slice()), hex(&wire))));
        }
        // what was frozen is a valid sequence for the checking constructor and iterates to the same pairs
        let chk = SvcParams::from_slice(frozen.as_slice()).map_err(|_| ("svcb-builder:frozen-invalid".to_string(), "frozen sequence rejected by from_slice".to_string()))?;
        let mut n = 0;
        for it in chk.iter::<UnknownSvcParam<&[u8]>>() {
            let it = it.map_err(|e| ("svcb-builder:frozen-invalid".to_string(), format!("frozen sequence does not iterate: {}", e)))?;
            if n >= pairs.len() || it.key().to_int() != pairs[n].0 || it.value() != &&pairs[n].1[..] {
                return Err(("svcb-builder:frozen-differs".into(), "iteration over the frozen sequence yields other pairs".into()));
            }
            n += 1;
        }
        if n != pairs.len() {
            return Err(("svcb-builder:frozen-differs".into(), format!("{} values pushed, {} iterate", pairs.len(), n)));
        }
        Ok(())
    });
    match res {
        Ok(Ok(())) => {
            c.count("svcb_builder_sequences", 1);
            if pairs.len() >= 3 && order_kind != 0 {
                c.count("svcb_builder_out_of_order_3plus", 1);
            }
        }
        Ok(Err((sig, what))) => {
            let rp = c.replay_of(fam, idx, ex);
            c.violation(&sig, &what, rp);
        }
        Err(pi) => {
            let rp = c.replay_of(fam, idx, ex);
            c.violation(&format!("panic:{}", pi.site()), &format!("panic in SvcParamsBuilder: {} at {}:{}", pi.msg, pi.file, pi.line), rp);
        }
    }
    c.eval(&("svcb-builder", pairs.len().min(8), order_kind, keep.min(4)));
}


// ------------------------------------------------------------- builders ----

/// Values assembled through the builder types: whatever order and chunking the caller uses, the
/// finished value is the one the pushed content denotes (compared with a direct construction of
/// the wire form), and it reads back through the ordinary parser.
fn builders_case(c: &mut Ctx, fam: &str, idx: u64, rng: &mut Rng) {
    use domain::base::charstr::CharStrBuilder;
    use domain::base::iana::Rtype;
    use domain::rdata::dnssec::{RtypeBitmap, RtypeBitmapBuilder};
    use domain::rdata::rfc1035::TxtBuilder;
    use octseq::builder::OctetsBuilder;
    match rng.below(3) {
        0 => {
            // type bitmaps: types from a few windows, added in ascending, descending or shuffled order, with repeats
            let nwin = rng.range(1, 6) as usize;
            let mut wins: Vec<u8> = Vec::new();
            while wins.len() < nwin {
                let w_ = *rng.pick(&[0u8, 0, 1, 2, 3, 127, 128, 254, 255]);
                let w_ = if rng.chance(1, 3) { rng.below(256) as u8 } else { w_ };
                if !wins.contains(&w_) {
                    wins.push(w_);
                }
            }
            let mut types: Vec<u16> = Vec::new();
            for w_ in &wins {
                for _ in 0..rng.range(1, 4) {
                    let low = match rng.below(4) { 0 => 0u16, 1 => 255, 2 => rng.below(8) as u16, _ => rng.below(256) as u16 };
                    types.push(((*w_ as u16) << 8) | low);
                }
            }
            let order_kind = rng.below(4);
            match order_kind {
                0 => types.sort_unstable(),
                1 => { types.sort_unstable(); types.reverse(); }
                _ => rng.shuffle(&mut types),
            }
            if rng.chance(1, 3) {
                let d = *rng.pick(&types);
                types.push(d);
            }
            // reference: windows ascending, each as long as its highest octet needs
            let mut want: Vec<u8> = Vec::new();
            let mut ws: Vec<u8> = types.iter().map(|t| (t >> 8) as u8).collect();
            ws.sort_unstable();
            ws.dedup();
            for w_ in ws {
                let mut bits = [0u8; 32];
                let mut hi = 0usize;
                for t in types.iter().filter(|t| (**t >> 8) as u8 == w_) {
                    let low = (*t & 0xff) as usize;
                    bits[low / 8] |= 0x80 >> (low % 8);
                    hi = hi.max(low / 8);
                }
                want.push(w_);
                want.push(hi as u8 + 1);
                want.extend_from_slice(&bits[..=hi]);
            }
            let ex = || json!({"builder": "RtypeBitmapBuilder", "types_in_push_order": types});
            let r = c.guard(fam, idx, ex, || {
                let mut b = RtypeBitmapBuilder::<Vec<u8>>::new_vec();
                for t in &types {
                    b.add(Rtype::from_int(*t)).unwrap();
                }
                let bm = b.finalize();
                let oct = bm.as_slice().to_vec();
                let back = RtypeBitmap::from_octets(oct.clone()).is_ok();
                let listed: Vec<u16> = bm.iter().map(|t| t.to_int()).collect();
                let all_contained = types.iter().all(|t| bm.contains(Rtype::from_int(*t)));
                (oct, back, listed, all_contained)
            });
            let Some((oct, back, listed, all_contained)) = r else { return };
            let mut sorted = types.clone();
            sorted.sort_unstable();
            sorted.dedup();
            if oct != want || !back || listed != sorted || !all_contained {
                let shape = if oct != want { "octets" } else if !back { "not-read-back" } else if listed != sorted { "iter" } else { "contains" };
                c.violation(&format!("builder:RtypeBitmapBuilder:{}", shape), &format!("types {:?} added in this order give the bitmap {}, expected {} (iter lists {:?})", types, hex(&oct), hex(&want), listed), c.replay_of(fam, idx, ex()));
            }
            if wins.len() >= 3 && order_kind >= 1 {
                c.count("bitmap_builder_3plus_windows_out_of_order", 1);
            }
            c.count("builder_values", 1);
            c.eval(&("bitmap-builder", wins.len(), order_kind, types.len().min(12)));
        }
        1 => {
            // TXT: content pushed in chunks, with forced breaks and whole strings in between
            #[derive(Debug)]
            enum Op { Slice(Vec<u8>), U8(u8), Close, Str(Vec<u8>) }
            let mut ops = Vec::new();
            for _ in 0..rng.range(1, 8) {
                ops.push(match rng.below(6) {
                    0 => Op::Close,
                    1 => Op::U8(rng.u8()),
                    2 => { let l = *rng.pick(&[0usize, 1, 255, 10]); Op::Str(rng.bytes(l)) }
                    3 => { let l = *rng.pick(&[254usize, 255, 256, 509, 510, 511, 700]); Op::Slice(rng.bytes(l)) }
                    _ => { let l = rng.below(40) as usize; Op::Slice(rng.bytes(l)) }
                });
            }
            // reference: a list of strings; an open one is filled up to 255 before a new one is started
            let mut strs: Vec<Vec<u8>> = Vec::new();
            let mut open = false;
            for op in &ops {
                match op {
                    Op::Slice(sl) => {
                        for b in sl {
                            if !open || strs.last().map(|s| s.len() == 255).unwrap_or(true) {
                                strs.push(Vec::new());
                                open = true;
                            }
                            strs.last_mut().unwrap().push(*b);
                        }
                    }
                    Op::U8(b) => {
                        if !open || strs.last().map(|s| s.len() == 255).unwrap_or(true) {
                            strs.push(Vec::new());
                            open = true;
                        }
                        strs.last_mut().unwrap().push(*b);
                    }
                    Op::Close => open = false,
                    Op::Str(st) => { strs.push(st.clone()); open = false; }
                }
            }
            let content: Vec<u8> = strs.iter().flatten().copied().collect();
            let ex = || json!({"builder": "TxtBuilder", "ops": format!("{:?}", ops).chars().take(300).collect::<String>()});
            let r = c.guard(fam, idx, ex, || {
                let mut b = TxtBuilder::<Vec<u8>>::new();
                for op in &ops {
                    match op {
                        Op::Slice(sl) => b.append_slice(sl).map_err(|e| e.to_string())?,
                        Op::U8(x) => b.append_u8(*x).map_err(|e| e.to_string())?,
                        Op::Close => b.close_charstr(),
                        Op::Str(st) => b.append_charstr(&domain::base::charstr::CharStr::from_octets(st.clone()).unwrap()).map_err(|e| e.to_string())?,
                    }
                }
                let t = b.finish().map_err(|e| e.to_string())?;
                let mut rd = Vec::new();
                t.compose_rdata(&mut rd).unwrap();
                let parts: Vec<Vec<u8>> = t.iter_charstrs().map(|s| s.as_slice().to_vec()).collect();
                Ok::<_, String>((rd, parts))
            });
            let Some(r) = r else { return };
            match r {
                Err(e) => {
                    if content.len() + strs.len() <= 65535 {
                        c.violation("builder:TxtBuilder:refused", &format!("TxtBuilder refuses content of {} octets in {} strings: {}", content.len(), strs.len(), e), c.replay_of(fam, idx, ex()));
                    }
                }
                Ok((rd, parts)) => {
                    // the wire form is a sequence of strings that together hold the content in order; where the
                    // caller forced no break every string but the last of a run is full
                    let mut p = 0;
                    let mut got: Vec<u8> = Vec::new();
                    let mut framing_ok = true;
                    while p < rd.len() {
                        let l = rd[p] as usize;
                        if p + 1 + l > rd.len() { framing_ok = false; break; }
                        got.extend_from_slice(&rd[p + 1..p + 1 + l]);
                        p += 1 + l;
                    }
                    let parts_flat: Vec<u8> = parts.iter().flatten().copied().collect();
                    // an empty builder gives one empty string (a TXT record holds at least one)
                    let want_parts: Vec<Vec<u8>> = if strs.is_empty() { vec![vec![]] } else { strs.clone() };
                    if !framing_ok || got != content || parts_flat != content {
                        c.violation("builder:TxtBuilder:content", &format!("TxtBuilder: {} octets pushed, the record holds {} ({} strings)", content.len(), got.len(), parts.len()), c.replay_of(fam, idx, ex()));
                    } else if parts != want_parts {
                        c.violation("builder:TxtBuilder:string-boundaries", &format!("TxtBuilder: strings of lengths {:?}, expected {:?}", parts.iter().map(|x| x.len()).collect::<Vec<_>>(), want_parts.iter().map(|x| x.len()).collect::<Vec<_>>()), c.replay_of(fam, idx, ex()));
                    }
                    c.count("builder_values", 1);
                }
            }
            c.eval(&("txt-builder", ops.len(), strs.len().min(6), content.len() / 128));
        }
        _ => {
            // character strings: appended piecewise; the 255 limit holds at every step
            let mut pieces: Vec<Vec<u8>> = Vec::new();
            for _ in 0..rng.range(1, 5) {
                let l = *rng.pick(&[0usize, 1, 100, 127, 128, 254, 255, 256]);
                pieces.push(rng.bytes(l));
            }
            let ex = || json!({"builder": "CharStrBuilder", "pieces": pieces.iter().map(|p| p.len()).collect::<Vec<_>>()});
            let r = c.guard(fam, idx, ex, || {
                let mut b = CharStrBuilder::<Vec<u8>>::new();
                let mut acc: Vec<u8> = Vec::new();
                let mut verdicts = Vec::new();
                for p_ in &pieces {
                    let before = b.as_slice().to_vec();
                    let ok = b.append_slice(p_).is_ok();
                    let fits = acc.len() + p_.len() <= 255;
                    if ok { acc.extend_from_slice(p_); }
                    verdicts.push((ok, fits, ok || b.as_slice() == &before[..]));
                }
                let cs = b.finish();
                let mut wire = Vec::new();
                cs.compose(&mut wire).unwrap();
                (verdicts, acc, wire)
            });
            let Some((verdicts, acc, wire)) = r else { return };
            for (ok, fits, unchanged) in &verdicts {
                if ok != fits {
                    c.violation(&format!("builder:CharStrBuilder:{}", if *ok { "accepts-beyond-255" } else { "refuses-within-255" }), "CharStrBuilder::append_slice and the 255-octet limit disagree", c.replay_of(fam, idx, ex()));
                }
                if !unchanged {
                    c.violation("builder:CharStrBuilder:failed-append-changed-the-builder", "a refused append_slice changed the builder", c.replay_of(fam, idx, ex()));
                }
            }
            let mut want = vec![acc.len() as u8];
            want.extend_from_slice(&acc);
            if acc.len() <= 255 && wire != want {
                c.violation("builder:CharStrBuilder:content", &format!("CharStrBuilder: {} octets accepted, composes to {} octets", acc.len(), wire.len()), c.replay_of(fam, idx, ex()));
            }
            c.count("builder_values", 1);
            c.eval(&("charstr-builder", pieces.len(), acc.len() / 32));
        }
    }
}

// ------------------------------------------------------------ serde routes --

/// The building blocks of record data that have hand-written `Deserialize` impls receive raw
/// octets over a compact serde format and must hold them to the same limits as their other
/// constructors: a value that comes out has to compose to exactly the octets its length field
/// announces. Reference verdicts are plain restatements of the RFC limits.
/// TXT data over a human readable format, where it is a string or a sequence of strings: each element is a character
/// string - at most 255 octets - and what comes out is well-formed TXT data holding exactly the elements, or a refusal.
fn txt_human_readable(c: &mut Ctx, fam: &str, idx: u64, rng: &mut Rng) {
    use domain::rdata::Txt;
    let n = rng.range(1, 4);
    let lens: Vec<usize> = (0..n).map(|_| *rng.pick(&[0usize, 1, 7, 200, 254, 255, 255, 256, 256, 257, 300, 511, 512, 600])).collect();
    let elems: Vec<String> = lens.iter().map(|l| (0..*l).map(|i| (b'a' + ((i + l) % 26) as u8) as char).collect()).collect();
    let as_seq = n > 1 || rng.bool();
    let v = if as_seq { serde_json::Value::Array(elems.iter().map(|e| serde_json::Value::String(e.clone())).collect()) } else { serde_json::Value::String(elems[0].clone()) };
    let ex = json!({"route": "human-readable", "form": if as_seq { "sequence" } else { "string" }, "element_lengths": lens});
    let r = c.guard(fam, idx, || ex.clone(), || {
        serde_json::from_value::<Txt<Vec<u8>>>(v).ok().map(|t| {
            let mut rd = Vec::new();
            let composed = t.compose_rdata(&mut rd).is_ok();
            let strings: Option<Vec<Vec<u8>>> = std::panic::catch_unwind(std::panic::AssertUnwindSafe(|| t.iter().map(|x| x.to_vec()).collect())).ok();
            (rd, composed, strings)
        })
    });
    let Some(r) = r else { return };
    c.eval(&("txt-human", as_seq, lens.iter().map(|l| (*l).min(257)).collect::<Vec<_>>(), r.is_some()));
    let fits = lens.iter().all(|l| *l <= 255);
    match r {
        None => {
            if fits && as_seq {
                c.violation("serde-reject-valid:Txt:human-readable", &format!("a sequence of strings of {:?} octets, each a character string, is refused as TXT data", lens), c.replay_of(fam, idx, ex));
            } else {
                c.count("txt_human_readable_refused", 1);
            }
        }
        Some((rd, composed, strings)) => {
            // what was accepted is TXT data: framed strings of at most 255 octets ...
            let mut p = 0;
            let mut parts: Vec<Vec<u8>> = Vec::new();
            let mut ok = composed;
            while ok && p < rd.len() {
                let l = rd[p] as usize;
                if p + 1 + l > rd.len() {
                    ok = false;
                    break;
                }
                parts.push(rd[p + 1..p + 1 + l].to_vec());
                p += 1 + l;
            }
            let content: Vec<u8> = parts.concat();
            let want: Vec<u8> = elems.iter().flat_map(|e| e.bytes()).collect();
            // ... holding the elements (a single long string may be cut into several)
            if !ok || content != want || strings.as_ref().map(|s| s.concat()) != Some(want.clone()) || (fits && as_seq && parts != elems.iter().map(|e| e.as_bytes().to_vec()).collect::<Vec<_>>() && !want.is_empty()) {
                c.violation("serde-value-malformed:Txt:human-readable", &format!("strings of {:?} octets ({}) give TXT data of {} octets that {}", lens, if as_seq { "a sequence" } else { "one string" }, rd.len(), if !ok { "is not a sequence of character strings" } else { "holds other content than the elements" }), c.replay_of(fam, idx, ex));
            } else {
                c.count("txt_human_readable_values", 1);
            }
        }
    }
}

fn serde_fields(c: &mut Ctx, fam: &str, idx: u64, rng: &mut Rng) {
    use crate::sd::{self, Wrote};
    if idx % 5 == 0 {
        txt_human_readable(c, fam, idx, rng);
    }
    use domain::base::charstr::CharStr;
    use domain::rdata::caa::CaaTag;
    use domain::rdata::dnssec::RtypeBitmap;
    use domain::rdata::nsec3::{Nsec3Salt, OwnerHash};
    use domain::rdata::Txt;
    let kind = *rng.pick(&["CharStr", "Nsec3Salt", "OwnerHash", "Txt", "RtypeBitmap", "CaaTag"]);
    // candidate octets: around the limits, and for the structured ones valid and broken layouts
    let len_pick = |rng: &mut Rng| -> usize { match rng.below(6) { 0 => 0, 1 => rng.range(253, 259) as usize, 2 => rng.range(1, 8) as usize, 3 => 255, 4 => 256, _ => rng.below(300) as usize } };
    let b: Vec<u8> = match kind {
        "Txt" => {
            let mut v = Vec::new();
            for _ in 0..rng.below(5) {
                let l = if rng.chance(1, 4) { 255 } else { rng.below(40) as usize };
                v.push(l as u8);
                v.extend(rng.bytes(l));
            }
            match rng.below(5) {
                0 => { v.push(rng.range(1, 200) as u8); } // a length octet promising more than there is
                1 if !v.is_empty() => { v.pop(); }
                _ => {}
            }
            v
        }
        "RtypeBitmap" => {
            let mut v = Vec::new();
            let mut win = 0u16;
            for _ in 0..rng.below(4) {
                win += rng.below(3) as u16;
                if win > 255 { break; }
                let l = match rng.below(8) { 0 => 0usize, 1 => 33, 2 => 32, _ => rng.range(1, 8) as usize };
                v.push(win as u8);
                v.push(l as u8);
                let mut bits = rng.bytes(l);
                if let Some(last) = bits.last_mut() {
                    if rng.chance(3, 4) && *last == 0 { *last = 1; }
                    if rng.chance(1, 8) { *last = 0; }
                }
                v.extend(bits);
                if rng.chance(5, 6) { win += 1; }
            }
            if rng.chance(1, 8) && !v.is_empty() { v.pop(); }
            v
        }
        "CaaTag" => {
            let l = match rng.below(5) { 0 => 0, 1 => rng.range(250, 258) as usize, _ => rng.range(1, 16) as usize };
            (0..l).map(|_| if rng.chance(1, 12) { *rng.pick(&[b'-', b' ', 0u8, 0xE9, b'_', b'.']) } else { *rng.pick(b"abcxyzABCXYZ0189") }).collect()
        }
        _ => { let l = len_pick(rng); rng.bytes(l) }
    };
    // reference verdict: Some(true) must accept, Some(false) must refuse, None either
    let walk_txt = |b: &[u8]| -> bool { let mut p = 0; while p < b.len() { let l = b[p] as usize; if p + 1 + l > b.len() { return false; } p += 1 + l; } true };
    let want: Option<bool> = match kind {
        "CharStr" | "Nsec3Salt" | "OwnerHash" => Some(b.len() <= 255),
        "Txt" => if !walk_txt(&b) || b.len() > 65535 { Some(false) } else if b.is_empty() { None } else { Some(true) },
        // (a window whose last octet is zero, or windows out of order, break rules for senders, RFC 4034 4.1.2; a reader may take them)
        "RtypeBitmap" => if w::valid_bitmap(&b) { Some(true) } else {
            let mut strip = b.clone();
            let mut p = 0;
            let mut structurally_ok = true;
            let mut last: i32 = -1;
            while p < strip.len() {
                if p + 2 > strip.len() { structurally_ok = false; break; }
                let (wn, l) = (strip[p] as i32, strip[p + 1] as usize);
                let _ = wn; // (the established reader does not insist on ascending windows either: tolerated on input)
                if l == 0 || l > 32 || p + 2 + l > strip.len() { structurally_ok = false; break; }
                last = wn;
                p += 2 + l;
            }
            strip.clear();
            if structurally_ok { None } else { Some(false) }
        },
        _ => { let alnum = b.iter().all(|x| x.is_ascii_alphanumeric()); if !alnum || b.len() > 255 { Some(false) } else if b.is_empty() { None } else { Some(true) } }
    };
    let ex = || json!({"kind": kind, "octets": hex(&b)});
    // (accepted over the owned route, over the borrowed route, octets the value composes to, what it serializes to, text round trip ok)
    type Obs = (bool, bool, Option<Vec<u8>>, Option<Wrote>, Option<bool>);
    macro_rules! drive {
        ($ty:ty, $compose:expr) => {{
            let o = sd::de_owned::<$ty>(&b).ok();
            let bo = sd::de_borrowed::<$ty>(&b).is_ok();
            let composed = o.as_ref().map($compose);
            let wrote = o.as_ref().and_then(|v| sd::ser_compact(v).ok());
            let text_ok = o.as_ref().map(|v| match sd::ser_text(v) { Ok(t) => sd::de_text::<$ty>(&t).ok().map(|v2| &v2 == v).unwrap_or(false), Err(_) => false });
            (o.is_some(), bo, composed, wrote, text_ok)
        }};
    }
    let r: Option<Obs> = c.guard(fam, idx, ex, || match kind {
        "CharStr" => drive!(CharStr<Vec<u8>>, |v: &CharStr<Vec<u8>>| { let mut t = Vec::new(); v.compose(&mut t).unwrap(); t }),
        "Nsec3Salt" => drive!(Nsec3Salt<Vec<u8>>, |v: &Nsec3Salt<Vec<u8>>| { let mut t = vec![v.as_slice().len() as u8]; t.extend_from_slice(v.as_slice()); t }),
        "OwnerHash" => drive!(OwnerHash<Vec<u8>>, |v: &OwnerHash<Vec<u8>>| { let mut t = vec![v.as_slice().len() as u8]; t.extend_from_slice(v.as_slice()); t }),
        "Txt" => {
            let o = sd::de_owned::<Txt<Vec<u8>>>(&b).ok();
            let bo = sd::de_borrowed::<Txt<Vec<u8>>>(&b).is_ok();
            let composed = o.as_ref().map(|v| { let mut t = Vec::new(); v.compose_rdata(&mut t).unwrap(); t });
            let wrote = o.as_ref().and_then(|v| sd::ser_compact(v).ok());
            (o.is_some(), bo, composed, wrote, None)
        }
        "RtypeBitmap" => {
            let o = sd::de_owned::<RtypeBitmap<Vec<u8>>>(&b).ok();
            let bo = sd::de_borrowed::<RtypeBitmap<Vec<u8>>>(&b).is_ok();
            let composed = o.as_ref().map(|v| v.as_slice().to_vec());
            let wrote = o.as_ref().and_then(|v| sd::ser_compact(v).ok());
            (o.is_some(), bo, composed, wrote, None)
        }
        _ => drive!(CaaTag<Vec<u8>>, |v: &CaaTag<Vec<u8>>| { let mut t = Vec::new(); v.compose(&mut t).unwrap(); t }),
    });
    let Some((acc_o, acc_b, composed, wrote, text_ok)) = r else { return };
    for (route, acc) in [("owned", acc_o), ("borrowed", acc_b)] {
        match want {
            Some(true) if !acc => c.violation(&format!("serde-reject-valid:{}:{}", kind, route), &format!("the compact serde route ({}) refuses valid {} octets ({} octets)", route, kind, b.len()), c.replay_of(fam, idx, ex())),
            Some(false) if acc => c.violation(&format!("serde-accept-invalid:{}:{}", kind, route), &format!("the compact serde route ({}) accepts {} octets as {} that no other constructor would: {}", route, b.len(), kind, hex(&b[..b.len().min(40)])), c.replay_of(fam, idx, ex())),
            _ => {}
        }
    }
    if let Some(got) = &composed {
        let expect: Vec<u8> = match kind {
            "Txt" | "RtypeBitmap" => b.clone(),
            _ => { let mut t = vec![b.len() as u8]; t.extend_from_slice(&b); t }
        };
        if want != Some(false) && got != &expect {
            c.violation(&format!("serde-value-composes-differently:{}", kind), &format!("a {} made from {} octets over serde composes to {} octets", kind, b.len(), got.len()), c.replay_of(fam, idx, ex()));
        }
        if want != Some(false) && wrote != Some(Wrote::Bytes(b.clone())) {
            c.violation(&format!("serde-roundtrip:compact:{}", kind), &format!("a {} made from its octets serializes to something else: {:?}", kind, wrote.as_ref().map(|w_| format!("{:?}", w_).chars().take(80).collect::<String>())), c.replay_of(fam, idx, ex()));
        }
        if text_ok == Some(false) && want == Some(true) {
            c.violation(&format!("serde-roundtrip:text:{}", kind), &format!("a {} written over the human readable route does not read back equal", kind), c.replay_of(fam, idx, ex()));
        }
        c.count("serde_values", 1);
    } else {
        c.count("serde_refusals", 1);
    }
    c.eval(&("serde", kind, want, acc_o, acc_b, b.len().min(300) / 32));
}

pub fn run(c: &mut Ctx) {
    c.families(4);
    let fam = "builders";
    let total = c.total(120_000, 10_000_000);
    for idx in c.cases(fam, total) {
        if c.out_of_time() {
            break;
        }
        let mut rng = c.case_rng(fam, idx);
        builders_case(c, fam, idx, &mut rng);
    }
    let fam = "serde";
    let total = c.total(120_000, 10_000_000);
    for idx in c.cases(fam, total) {
        if c.out_of_time() {
            break;
        }
        let mut rng = c.case_rng(fam, idx);
        serde_fields(c, fam, idx, &mut rng);
    }
    let fam = "svcb-builder";
    let total = c.total(100_000, 10_000_000);
    for idx in c.cases(fam, total) {
        if c.out_of_time() {
            break;
        }
        let mut rng = c.case_rng(fam, idx);
        svcb_builder_case(c, fam, idx, &mut rng);
    }
    let mut per_type: BTreeMap<String, u64> = BTreeMap::new();
    let fam = "values";
    let total = c.total(800_000, 100_000_000);
    for idx in c.cases(fam, total) {
        if c.out_of_time() {
            break;
        }
        let mut rng = c.case_rng(fam, idx);
        // cycle through the known types so that each gets cases, plus unknown ones
        let t = if idx % 5 == 4 {
            g::pick_type(&mut rng, true)
        } else {
            let k = w::KNOWN_TYPES.len() as u64 + 2;
            let j = (idx / 5 * 4 + idx % 5) % k;
            if (j as usize) < w::KNOWN_TYPES.len() { w::KNOWN_TYPES[j as usize] } else { *rng.pick(&[99u16, 1234, 65280, 65534, 300]) }
        };
        let pool = g::NamePool::new(&mut rng, 6);
        let mut np = |r: &mut Rng| if r.chance(1, 6) { names::abs_name(r) } else { pool.pick(r) };
        let fs = g::fields(&mut rng, t, &mut np);
        if c.want_sample() && idx % 17 == 3 {
            let wv = w::compose_fields(&fs);
            c.sample(json!({"rtype": tname(t), "rdata_hex": hex(&wv[..wv.len().min(48)]), "rdlen": wv.len()}));
        }
        one_value(c, fam, idx, &mut rng, t, &fs, &mut per_type);
        if rng.chance(1, 2) {
            one_mutant(c, fam, idx, &mut rng, t, &fs);
        }
    }
    for (t, n) in &per_type {
        c.count(&format!("type_{}", t), *n);
    }
    if !c.replaying() {
        for t in w::KNOWN_TYPES {
            c.floor(&format!("type_{}", w::type_name(*t)), 1);
        }
        c.floor("type_UNKNOWN", 1);
        c.floor("values_roundtripped", 1000);
        c.floor("compressed_input_accepted", 100);
        c.floor("compressing_target_compressed", 100);
        c.floor("svcb_builder_out_of_order_3plus", 100);
        c.floor("zone_enum_values", 1000);
        c.floor("zone_enum_compressed_checked", 100);
        c.floor("mutants_accepted", 100);
        c.floor("mutants_rejected", 100);
        c.floor("opt_records", 10);
        c.floor("serde_values", 1000);
        c.floor("builder_values", 1000);
        c.floor("bitmap_builder_3plus_windows_out_of_order", 100);
        c.floor("serde_refusals", 1000);
    }
}
