//! C06 — records written in presentation format read back equal.
use crate::ctx::{self, hex, Ctx};
use crate::gen::names;
use crate::gen::rdata as g;
use crate::refimpl::wire::{self as w, Fv};
use crate::rng::Rng;
use bytes::Bytes;
use domain::base::iana::{Class, Rtype};
use domain::base::name::{FlattenInto, Name, ParsedName, ToName};
use domain::base::rdata::{ComposeRecordData, ParseRecordData};
use domain::base::record::{Record, Ttl};
use domain::base::zonefile_fmt::{DisplayKind, ZonefileFmt};
use domain::rdata::ZoneRecordData;
use domain::zonefile::inplace::{Entry, Zonefile};
use octseq::parse::Parser;
use serde_json::json;
use std::collections::BTreeMap;

pub type ZData = ZoneRecordData<Vec<u8>, Name<Vec<u8>>>;
pub type ZRecord = Record<Name<Vec<u8>>, ZData>;

/// Library value of a zone record from reference-composed RDATA.
pub fn zone_record(owner: &[u8], t: u16, class: u16, ttl: u32, fs: &[Fv]) -> Option<ZRecord> {
    let wire = w::compose_fields(fs);
    let mut buf = vec![0u8; 12];
    buf.extend_from_slice(&wire);
    let mut p = Parser::from_ref(&buf[..]);
    p.advance(12).ok()?;
    let mut sub = p.parse_parser(wire.len()).ok()?;
    let d = ZoneRecordData::<&[u8], ParsedName<&[u8]>>::parse_rdata(Rtype::from_int(t), &mut sub).ok()??;
    if sub.remaining() != 0 {
        return None;
    }
    let d: ZData = d.try_flatten_into().ok()?;
    Some(Record::new(Name::from_octets(owner.to_vec()).ok()?, Class::from_int(class), Ttl::from_secs(ttl), d))
}

/// Read all records of a zone-file text; Err carries the error text.
pub fn read_zonefile(text: &[u8], origin: Option<&[u8]>, allow_invalid: bool) -> Result<Vec<(Vec<u8>, u16, u32, u16, Vec<u8>)>, String> {
    let mut zf = Zonefile::from(text);
    if allow_invalid {
        zf = zf.allow_invalid();
    }
    if let Some(o) = origin {
        zf.set_origin(Name::from_octets(Bytes::copy_from_slice(o)).map_err(|e| e.to_string())?);
    }
    let mut out = Vec::new();
    let mut guard = 0usize;
    loop {
        guard += 1;
        if guard > text.len() + 2 {
            return Err("harness: more entries than octets".into());
        }
        match zf.next_entry() {
            Ok(Some(Entry::Record(r))) => {
                let owner = r.owner().to_vec().as_slice().to_vec();
                let mut rd = Vec::new();
                r.data().compose_rdata(&mut rd).map_err(|_| "compose".to_string())?;
                out.push((owner, r.class().to_int(), r.ttl().as_secs(), r.rtype().to_int(), rd));
            }
            Ok(Some(Entry::Include { path, origin })) => {
                out.push((origin.map(|o| o.as_slice().to_vec()).unwrap_or_default(), 0, 0, 0, path.as_bytes().to_vec()));
            }
            Ok(None) => return Ok(out),
            Err(e) => return Err(e.to_string()),
        }
    }
}

fn kind_name(k: usize) -> &'static str {
    ["simple", "tabbed", "multiline"][k]
}

pub fn mk_kind(k: usize) -> DisplayKind {
    match k {
        0 => DisplayKind::Simple,
        1 => DisplayKind::Tabbed,
        _ => DisplayKind::Multiline,
    }
}

fn special_class(owner: &[u8]) -> String {
    // which zone-file-significant octets occur in the owner's labels
    let mut s = String::new();
    for l in w::labels(owner) {
        for (i, &c) in l.iter().enumerate() {
            let tag = match c {
                b'"' => Some("dquote"),
                b';' => Some("semicolon"),
                b'(' => Some("lparen"),
                b')' => Some("rparen"),
                b'$' if i == 0 => Some("leading-dollar"),
                b'@' if l.len() == 1 => Some("lone-at"),
                _ => None,
            };
            if let Some(t) = tag {
                if !s.contains(t) {
                    if !s.is_empty() {
                        s.push('+');
                    }
                    s.push_str(t);
                }
            }
        }
    }
    s
}

/// Round trip of one record in one kind: Ok(()) or a short failure class.
fn roundtrip(owner: &[u8], t: u16, class: u16, ttl: u32, fs: &[Fv], kind: usize) -> Result<(), String> {
    let rec = zone_record(owner, t, class, ttl, fs).ok_or("unconstructible")?;
    let text = format!("{}\n", rec.display_zonefile(mk_kind(kind)));
    let v = read_zonefile(text.as_bytes(), None, true).map_err(|e| e.split(':').last().unwrap_or("").trim().chars().filter(|c| !c.is_ascii_digit()).take(40).collect::<String>())?;
    if v.len() != 1 {
        return Err("entry-count".into());
    }
    if v[0].4 != w::compose_fields(fs) {
        return Err("differs".into());
    }
    Ok(())
}

/// For a failing SVCB/HTTPS record: which parameters fail on their own?
fn svcb_culprits(t: u16, fs: &[Fv], kind: usize) -> Vec<String> {
    let mut out = Vec::new();
    let Some(Fv::Raw(params)) = fs.last() else { return out };
    let mut p = 0;
    while p + 4 <= params.len() {
        let k = u16::from_be_bytes([params[p], params[p + 1]]);
        let l = u16::from_be_bytes([params[p + 2], params[p + 3]]) as usize;
        if p + 4 + l > params.len() {
            break;
        }
        let single = params[p..p + 4 + l].to_vec();
        // "mandatory" alone would list absent keys; test it together with what it lists is not isolating, skip it
        if k != 0 {
            let one = vec![Fv::Raw(vec![0, 1]), Fv::Name { wire: vec![0], lc: false, compress: false }, Fv::Raw(single)];
            if let Err(e) = ctx::catch(|| roundtrip(&[1, b'x', 0], t, 1, 60, &one, kind)).unwrap_or(Err("panic".into())) {
                let kn = match k {
                    1 => "alpn".to_string(),
                    2 => "no-default-alpn".into(),
                    3 => "port".into(),
                    4 => "ipv4hint".into(),
                    5 => "ech".into(),
                    6 => "ipv6hint".into(),
                    7 => "dohpath".into(),
                    8 => "ohttp".into(),
                    9 => "tls-supported-groups".into(),
                    _ => "keyNNNNN".into(),
                };
                out.push(format!("{}:{}", kn, e));
            }
        }
        p += 4 + l;
    }
    out.sort();
    out.dedup();
    out
}

fn one_record(c: &mut Ctx, fam: &str, idx: u64, rng: &mut Rng, per_type: &mut BTreeMap<String, u64>) {
    let zone_types = g::zone_types();
    let t = if idx % 9 == 8 { *rng.pick(&[99u16, 1234, 65280, 65534, 300]) } else { zone_types[(idx % zone_types.len() as u64) as usize] };
    let pool = g::NamePool::new(rng, 5);
    let plain_owner = rng.chance(1, 2);
    let owner = if plain_owner {
        // letters/digits/hyphen only
        let n = rng.range(1, 4);
        let ls: Vec<Vec<u8>> = (0..n).map(|_| (0..rng.clone().range(1, 10)).map(|_| *rng.pick(b"abcdefghijklmnopqrstuvwxyz0123456789-")).collect()).collect();
        names::from_labels(&ls)
    } else if rng.chance(1, 2) {
        pool.pick(rng)
    } else {
        names::abs_name(rng)
    };
    let mut np = |r: &mut Rng| if r.chance(1, 4) { names::abs_name(r) } else { pool.pick(r) };
    let fs = g::fields(rng, t, &mut np);
    if w::compose_fields(&fs).len() > 20000 {
        return;
    }
    let class = match rng.below(8) { 0 => 3u16, 1 => 4, 2 => 254, 3 => rng.u16(), _ => 1 };
    let ttl = match rng.below(5) { 0 => 0, 1 => u32::MAX, 2 => 0x7FFF_FFFF, 3 => 0x8000_0000, _ => rng.u32() };
    let Some(rec) = zone_record(&owner, t, class, ttl, &fs) else {
        c.count("value_not_constructible", 1);
        return;
    };
    let tn = if w::layout(t).is_some() { w::type_name(t).to_string() } else { "UNKNOWN".into() };
    *per_type.entry(tn.clone()).or_insert(0) += 1;
    let want_rd = w::compose_fields(&fs);
    let origin: Option<Vec<u8>> = if rng.bool() { Some(pool.pick(rng)) } else { None };
    for kind in 0..3usize {
        let ex = || json!({"owner": hex(&owner), "rtype": t, "class": class, "ttl": ttl, "rdata": hex(&want_rd), "kind": kind_name(kind)});
        let r = ctx::catch(|| {
            ctx::step("Record::display_zonefile");
            let text = format!("{}\n", rec.display_zonefile(mk_kind(kind)));
            ctx::step("Zonefile::next_entry");
            let parsed = read_zonefile(text.as_bytes(), origin.as_deref(), true);
            (text, parsed)
        });
        let (text, parsed) = match r {
            Ok(x) => x,
            Err(pi) => {
                let rp = c.replay_of(fam, idx, ex());
                c.violation(&format!("panic:{}", pi.site()), &format!("panic writing/reading a {} record: {} at {}:{}", tn, pi.msg, pi.file, pi.line), rp);
                continue;
            }
        };
        let exx = || json!({"owner": hex(&owner), "rtype": t, "class": class, "ttl": ttl, "rdata": hex(&want_rd), "kind": kind_name(kind), "text": text});
        match parsed {
            Err(e) => {
                let e_class: String = e.split(':').last().unwrap_or("").trim().chars().filter(|c| !c.is_ascii_digit()).take(40).collect();
                let culprits = if t == w::T_SVCB || t == w::T_HTTPS { svcb_culprits(t, &fs, kind) } else { vec![] };
                let sigs: Vec<String> = if !culprits.is_empty() { culprits.iter().map(|x| format!("svcb-param:{}", x)).collect() } else { vec![format!("reader-error:{}:{}", tn, e_class)] };
                for sig in sigs {
                    let rp = c.replay_of(fam, idx, exx());
                    c.violation(&sig, &format!("{} form of a {} record does not read back: {} -- text: {:?}", kind_name(kind), tn, e, &text[..text.len().min(300)]), rp);
                }
            }
            Ok(v) => {
                if v.len() != 1 {
                    let rp = c.replay_of(fam, idx, exx());
                    c.violation(&format!("entry-count:{}", tn), &format!("{} form of one {} record reads back as {} entries", kind_name(kind), tn, v.len()), rp);
                    continue;
                }
                let (o, cl, tt, ty, rd) = &v[0];
                let field = if o != &owner {
                    Some("owner")
                } else if *cl != class {
                    Some("class")
                } else if *tt != ttl {
                    Some("ttl")
                } else if *ty != t {
                    Some("type")
                } else if rd != &want_rd {
                    Some("rdata")
                } else {
                    None
                };
                if let Some(f) = field {
                    let culprits = if f == "rdata" && (t == w::T_SVCB || t == w::T_HTTPS) { svcb_culprits(t, &fs, kind) } else { vec![] };
                    let sigs: Vec<String> = if !culprits.is_empty() { culprits.iter().map(|x| format!("svcb-param:{}", x)).collect() } else { vec![format!("differs:{}:{}", tn, f)] };
                    for sig in sigs {
                    let rp = c.replay_of(fam, idx, exx());
                    c.violation(&sig, &format!("{} form of a {} record reads back with a different {}: owner {} class {} ttl {} type {} rdata {} -- text {:?}", kind_name(kind), tn, f, w::name_text(o), cl, tt, ty, hex(&rd[..rd.len().min(40)]), &text[..text.len().min(300)]), rp);
                    }
                } else {
                    c.count("records_read_back_equal", 1);
                }
            }
        }
        c.eval(&(t.min(300), kind_name(kind), plain_owner, want_rd.len().min(600) / 50, class == 1));
        if c.want_sample() && idx % 31 == 6 {
            c.sample(json!({"rtype": tn, "kind": kind_name(kind), "text": &text[..text.len().min(200)]}));
        }
    }
}

pub fn run(c: &mut Ctx) {
    let fam = "records";
    let total = c.total(400_000, 80_000_000);
    let mut per_type: BTreeMap<String, u64> = BTreeMap::new();
    for idx in c.cases(fam, total) {
        if c.out_of_time() {
            break;
        }
        let mut rng = c.case_rng(fam, idx);
        one_record(c, fam, idx, &mut rng, &mut per_type);
    }
    for (t, n) in &per_type {
        c.count(&format!("type_{}", t), *n);
    }
    if !c.replaying() {
        for t in g::zone_types() {
            c.floor(&format!("type_{}", w::type_name(t)), 1);
        }
        c.floor("type_UNKNOWN", 1);
        c.floor("records_read_back_equal", 1000);
    }
}
