//! C07 — the zone-file reader is total and depends only on logical content.
use crate::ctx::{self, hex, unhex, Ctx};
use crate::gen::names;
use crate::p06::read_zonefile;
use crate::refimpl::b64;
use crate::refimpl::wire as w;
use crate::rng::Rng;
use bytes::Bytes;
use domain::base::name::Name;
use domain::zonefile::inplace::Zonefile;
use serde_json::json;

// ------------------------------------------------------ logical files --

#[derive(Clone, Debug)]
enum Tok {
    /// plain token (numbers, mnemonics, hex, base64 chunks): may be re-spaced but not re-written
    Plain(String),
    /// a domain name (uncompressed wire form)
    Name(Vec<u8>),
    /// a character string
    Str(Vec<u8>),
}

#[derive(Clone, Debug)]
struct LRec {
    owner: Vec<u8>,
    ttl: u32,
    rtype: u16,
    mnemonic: String,
    toks: Vec<Tok>,
    rdata: Vec<u8>,
}

#[derive(Clone, Debug)]
struct LFile {
    origin: Vec<u8>,
    class: u16,
    recs: Vec<LRec>,
    /// $INCLUDE directives: (in front of record number, path, origin)
    includes: Vec<(usize, Vec<u8>, Option<Vec<u8>>)>,
}

fn child(rng: &mut Rng, origin: &[u8]) -> Vec<u8> {
    let mut n = Vec::new();
    for _ in 0..rng.range(0, 2) {
        let l = if rng.chance(1, 6) { names::label(rng, 20) } else { names::small_label(rng) };
        n.push(l.len() as u8);
        n.extend_from_slice(&l);
    }
    n.extend_from_slice(origin);
    if n.len() > 255 {
        origin.to_vec()
    } else {
        n
    }
}

fn gen_name(rng: &mut Rng, origin: &[u8]) -> Vec<u8> {
    match rng.below(4) {
        0 => names::abs_name(rng),
        1 => origin.to_vec(),
        _ => child(rng, origin),
    }
}

fn gen_str(rng: &mut Rng) -> Vec<u8> {
    let n = match rng.below(8) { 0 => 0, 1 => rng.range(100, 255), _ => rng.range(1, 12) };
    let style = rng.below(4);
    (0..n)
        .map(|_| match style {
            0 => rng.u8(),
            1 => *rng.pick(&[b' ', b'"', b'\\', b';', b'(', b')', b'\t', b'\n', b'@', b'$', b'#', 0, 0x7f, 0xff]),
            _ => *rng.pick(b"abcdefghijklmnopqrstuvwxyz0123456789 =-._#"),
        })
        .collect()
}

fn gen_rec(rng: &mut Rng, origin: &[u8], owner: Vec<u8>) -> LRec {
    let ttl = match rng.below(5) { 0 => 0, 1 => 3600, 2 => 86400, _ => rng.u32() >> rng.below(20) };
    let mut rd = Vec::new();
    let (rtype, mn, toks): (u16, &str, Vec<Tok>) = match rng.below(13) {
        0 => {
            let a = rng.bytes(4);
            rd.extend_from_slice(&a);
            (1, "A", vec![Tok::Plain(format!("{}.{}.{}.{}", a[0], a[1], a[2], a[3]))])
        }
        1 => {
            let a: [u8; 16] = rng.bytes(16).try_into().unwrap();
            rd.extend_from_slice(&a);
            (28, "AAAA", vec![Tok::Plain(format!("{}", std::net::Ipv6Addr::from(a)))])
        }
        2 | 3 => {
            let n = gen_name(rng, origin);
            rd.extend_from_slice(&n);
            let (t, m) = if rng.bool() { (2, "NS") } else { (5, "CNAME") };
            (t, m, vec![Tok::Name(n)])
        }
        4 => {
            let p = rng.u16();
            let n = gen_name(rng, origin);
            rd.extend_from_slice(&p.to_be_bytes());
            rd.extend_from_slice(&n);
            (15, "MX", vec![Tok::Plain(p.to_string()), Tok::Name(n)])
        }
        5 => {
            let k = rng.range(1, 4);
            let mut t = Vec::new();
            for _ in 0..k {
                let s = gen_str(rng);
                rd.push(s.len() as u8);
                rd.extend_from_slice(&s);
                t.push(Tok::Str(s));
            }
            (16, "TXT", t)
        }
        6 => {
            let m = gen_name(rng, origin);
            let r = gen_name(rng, origin);
            let nums: Vec<u32> = (0..5).map(|_| rng.u32() >> rng.below(24)).collect();
            rd.extend_from_slice(&m);
            rd.extend_from_slice(&r);
            let mut t = vec![Tok::Name(m), Tok::Name(r)];
            for x in &nums {
                rd.extend_from_slice(&x.to_be_bytes());
                t.push(Tok::Plain(x.to_string()));
            }
            (6, "SOA", t)
        }
        7 => {
            let v: Vec<u16> = (0..3).map(|_| rng.u16()).collect();
            let n = gen_name(rng, origin);
            let mut t = Vec::new();
            for x in &v {
                rd.extend_from_slice(&x.to_be_bytes());
                t.push(Tok::Plain(x.to_string()));
            }
            rd.extend_from_slice(&n);
            t.push(Tok::Name(n));
            (33, "SRV", t)
        }
        8 => {
            let kt = rng.u16();
            let alg = rng.u8();
            let dt = rng.u8();
            let dg = rng.bytes(rng.clone().range(1, 48));
            rd.extend_from_slice(&kt.to_be_bytes());
            rd.push(alg);
            rd.push(dt);
            rd.extend_from_slice(&dg);
            let hexs = b64::enc16(&dg);
            let mut t = vec![Tok::Plain(kt.to_string()), Tok::Plain(alg.to_string()), Tok::Plain(dt.to_string())];
            // hex may be split into several tokens
            let mut rest = &hexs[..];
            while !rest.is_empty() {
                let k = if rng.chance(1, 3) { rest.len() } else { (2 * rng.range(1, 8)).min(rest.len()) };
                t.push(Tok::Plain(if rng.bool() { rest[..k].to_lowercase() } else { rest[..k].to_string() }));
                rest = &rest[k..];
            }
            (43, "DS", t)
        }
        9 => {
            let fl = rng.u16();
            let pr = rng.u8();
            let alg = rng.u8();
            let key = rng.bytes(rng.clone().range(1, 70));
            rd.extend_from_slice(&fl.to_be_bytes());
            rd.push(pr);
            rd.push(alg);
            rd.extend_from_slice(&key);
            let b = b64::enc64(&key);
            let mut t = vec![Tok::Plain(fl.to_string()), Tok::Plain(pr.to_string()), Tok::Plain(alg.to_string())];
            let mut rest = &b[..];
            while !rest.is_empty() {
                let k = if rng.chance(1, 3) { rest.len() } else { rng.range(1, 20).min(rest.len()) };
                t.push(Tok::Plain(rest[..k].to_string()));
                rest = &rest[k..];
            }
            (48, "DNSKEY", t)
        }
        10 => {
            let n = gen_name(rng, origin);
            let mut types: Vec<u16> = (0..rng.range(1, 6)).map(|_| *rng.pick(&[1u16, 2, 5, 6, 15, 16, 28, 33, 43, 46, 47, 48, 257, 1234, 65280])).collect();
            types.sort_unstable();
            types.dedup();
            rd.extend_from_slice(&n);
            rd.extend_from_slice(&crate::gen::rdata::bitmap_of(&types));
            let mut t = vec![Tok::Name(n)];
            for ty in &types {
                let m = match ty { 1 => "A", 2 => "NS", 5 => "CNAME", 6 => "SOA", 15 => "MX", 16 => "TXT", 28 => "AAAA", 33 => "SRV", 43 => "DS", 46 => "RRSIG", 47 => "NSEC", 48 => "DNSKEY", 257 => "CAA", _ => "" };
                t.push(Tok::Plain(if m.is_empty() { format!("TYPE{}", ty) } else { m.to_string() }));
            }
            (47, "NSEC", t)
        }
        11 => {
            let fl = *rng.pick(&[0u8, 128, 1]);
            let tag: Vec<u8> = (0..rng.range(1, 10)).map(|_| *rng.pick(b"abcdefghijklmnopqrstuvwxyz0123456789")).collect();
            let val = gen_str(rng);
            rd.push(fl);
            rd.push(tag.len() as u8);
            rd.extend_from_slice(&tag);
            rd.extend_from_slice(&val);
            (257, "CAA", vec![Tok::Plain(fl.to_string()), Tok::Plain(String::from_utf8(tag).unwrap()), Tok::Str(val)])
        }
        _ => {
            let t = *rng.pick(&[65280u16, 1234, 99]);
            let data = rng.bytes(rng.clone().range(0, 40));
            rd.extend_from_slice(&data);
            let mut toks = vec![Tok::Plain("\\#".into()), Tok::Plain(data.len().to_string())];
            let hexs = b64::enc16(&data);
            let mut rest = &hexs[..];
            while !rest.is_empty() {
                let k = if rng.bool() { rest.len() } else { (2 * rng.range(1, 6)).min(rest.len()) };
                toks.push(Tok::Plain(rest[..k].to_string()));
                rest = &rest[k..];
            }
            return LRec { owner, ttl, rtype: t, mnemonic: format!("TYPE{}", t), toks, rdata: rd };
        }
    };
    LRec { owner, ttl, rtype, mnemonic: mn.to_string(), toks, rdata: rd }
}

fn gen_file(rng: &mut Rng) -> LFile {
    let origin = match rng.below(4) {
        0 => vec![0],
        _ => {
            let mut o = names::from_labels(&[b"example".to_vec(), names::small_label(rng)]);
            if rng.chance(1, 5) {
                o = names::abs_name(rng);
                if o.len() > 100 {
                    o = vec![7, b'e', b'x', b'a', b'm', b'p', b'l', b'e', 0];
                }
            }
            o
        }
    };
    let class = if rng.chance(1, 8) { 3 } else { 1 };
    let n = rng.range(1, 8);
    let mut recs = Vec::new();
    let mut owner = child(rng, &origin);
    for _ in 0..n {
        if rng.chance(1, 2) {
            owner = if rng.chance(1, 5) { origin.clone() } else if rng.chance(1, 6) { names::abs_name(rng) } else { child(rng, &origin) };
        }
        recs.push(gen_rec(rng, &origin, owner.clone()));
    }
    let mut includes = Vec::new();
    if rng.chance(1, 4) {
        for _ in 0..rng.range(1, 2) {
            let l = rng.range(1, 12);
            let path: Vec<u8> = (0..l).map(|_| *rng.pick(b"abcxyz019/._- \";()@$#")).collect();
            let o = if rng.chance(1, 3) { Some(names::from_labels(&[names::small_label(rng), b"example".to_vec()])) } else { None };
            includes.push((rng.below(recs.len() + 1), path, o));
        }
        includes.sort_by_key(|x| x.0);
    }
    LFile { origin, class, recs, includes }
}

// ------------------------------------------------------ layout engine --

/// Name text: relative to `origin` when allowed and possible.
fn name_text(rng: &mut Rng, n: &[u8], origin: Option<&[u8]>, allow_rel: bool) -> String {
    if let Some(o) = origin {
        if allow_rel && n.len() >= o.len() && w::lower(&n[n.len() - o.len()..]) == w::lower(o) && n[n.len() - o.len()..] == *o {
            // check label alignment
            let mut p = 0;
            let cut = n.len() - o.len();
            while p < cut {
                p += 1 + n[p] as usize;
            }
            if p == cut {
                if cut == 0 {
                    return "@".into();
                }
                let mut rel = n[..cut].to_vec();
                rel.push(0);
                let mut t = names::presentation(rng, &rel, false);
                // presentation() of a one-label name without trailing dot
                if t.ends_with('.') && !t.ends_with("\\.") {
                    t.pop();
                }
                return t;
            }
        }
    }
    names::presentation(rng, n, true)
}

fn str_text(rng: &mut Rng, s: &[u8]) -> String {
    // quoted or unquoted-with-escapes
    let quoted = s.is_empty() || rng.bool();
    let mut t = String::new();
    if quoted {
        t.push('"');
    }
    for &c in s {
        let printable = (0x21..0x7f).contains(&c);
        if c == b'"' || c == b'\\' {
            t.push('\\');
            t.push(c as char);
        } else if quoted && c == b' ' {
            t.push(' ');
        } else if !printable || (rng.chance(1, 10)) {
            t.push_str(&format!("\\{:03}", c));
        } else if !quoted && matches!(c, b';' | b'(' | b')' | b'@' | b'$') {
            t.push('\\');
            t.push(c as char);
        } else if !c.is_ascii_digit() && rng.chance(1, 10) && (c != b'#' || (!quoted && s.len() > 1)) {
            // a backslash before any other printable character stands for that character
            // (`\#` alone is the RFC 3597 marker; glued to more characters it is an escaped '#')
            t.push('\\');
            t.push(c as char);
        } else {
            t.push(c as char);
        }
    }
    if quoted {
        t.push('"');
    }
    t
}

#[derive(Clone, Debug, Default)]
struct Knobs {
    comments: bool,
    blank_lines: bool,
    parens: bool,
    tabs: bool,
    relative: bool,
    inherit_owner: bool,
    omit_ttl: bool,
    dollar_ttl: bool,
    omit_class: bool,
    class_first: bool,
    lower_keywords: bool,
    crlf: bool,
    no_final_newline: bool,
    reorigin: bool,
}

fn sep(rng: &mut Rng, k: &Knobs) -> String {
    if k.tabs {
        match rng.below(3) { 0 => "\t".into(), 1 => " \t ".into(), _ => "  ".into() }
    } else {
        " ".into()
    }
}

fn render(rng: &mut Rng, f: &LFile, k: &Knobs) -> Vec<u8> {
    let nl = if k.crlf { "\r\n" } else { "\n" };
    let mut out = String::new();
    let kw = |s: &str| if k.lower_keywords { s.to_lowercase() } else { s.to_string() };
    let mut origin: Option<Vec<u8>> = None;
    if k.relative {
        out.push_str(&format!("{} {}{}", kw("$ORIGIN"), names::presentation(rng, &f.origin, true), nl));
        origin = Some(f.origin.clone());
    }
    let mut dollar: Option<u32> = None;
    if k.dollar_ttl {
        // pick the TTL of some record so that omission is possible
        let t = f.recs[rng.below(f.recs.len())].ttl;
        out.push_str(&format!("{} {}{}", kw("$TTL"), t, nl));
        dollar = Some(t);
    }
    let mut last_owner: Option<Vec<u8>> = None;
    let mut last_ttl: Option<u32> = None;
    let mut class_stated = false;
    let include_line = |rng: &mut Rng, path: &[u8], o: &Option<Vec<u8>>| -> String {
        // (a path is text, not octets: decimal escapes are not characters for `Symbol::into_char`,
        // so only quoting and backslash-character escapes are varied)
        let quoted = path.is_empty() || rng.bool();
        let mut pt = String::new();
        if quoted {
            pt.push('"');
        }
        for &ch in path {
            let special = ch == b'"' || ch == b'\\' || (!quoted && matches!(ch, b' ' | b';' | b'(' | b')' | b'@' | b'$' | b'#'));
            if special || (!ch.is_ascii_digit() && rng.chance(1, 8) && !(quoted && ch == b'#')) {
                pt.push('\\');
            }
            pt.push(ch as char);
        }
        if quoted {
            pt.push('"');
        }
        let mut l = format!("{} {}", kw("$INCLUDE"), pt);
        if let Some(o) = o {
            l.push(' ');
            l.push_str(&names::presentation(rng, o, true));
        }
        if k.comments && rng.chance(1, 2) {
            l.push_str(" ; included");
        }
        l
    };
    for (ri, r) in f.recs.iter().enumerate() {
        for (_, path, o) in f.includes.iter().filter(|x| x.0 == ri) {
            let l = include_line(rng, path, o);
            out.push_str(&l);
            out.push_str(nl);
        }
        if k.blank_lines && rng.chance(1, 2) {
            match rng.below(3) {
                0 => out.push_str(nl),
                1 => out.push_str(&format!("   \t{}", nl)),
                _ => out.push_str(&format!("; just a comment ( \" {}", nl)),
            }
        }
        if k.reorigin && k.relative && ri > 0 && rng.chance(1, 3) {
            // switch the origin to the root or back
            let o = if origin.as_deref() == Some(&[0u8][..]) { f.origin.clone() } else { vec![0] };
            out.push_str(&format!("{} {}{}", kw("$ORIGIN"), names::presentation(rng, &o, true), nl));
            origin = Some(o);
        }
        // owner
        if k.inherit_owner && last_owner.as_deref() == Some(&r.owner[..]) {
            out.push_str(if k.tabs { "\t" } else { "   " });
        } else {
            let t = name_text(rng, &r.owner, origin.as_deref(), k.relative);
            // an owner must not start with '$' or ';' unescaped etc.; presentation() escapes those
            out.push_str(&t);
            out.push_str(&sep(rng, k));
        }
        last_owner = Some(r.owner.clone());
        // ttl / class
        let can_omit_ttl = k.omit_ttl && match dollar { Some(d) => d == r.ttl, None => last_ttl == Some(r.ttl) };
        let ttl_txt = if can_omit_ttl { None } else { Some(r.ttl.to_string()) };
        if ttl_txt.is_some() {
            last_ttl = Some(r.ttl);
        }
        let class_txt = if k.omit_class && class_stated { None } else { Some(kw(if f.class == 1 { "IN" } else { "CH" })) };
        if class_txt.is_some() {
            class_stated = true;
        }
        let mut head: Vec<String> = Vec::new();
        if k.class_first {
            head.extend(class_txt.clone());
            head.extend(ttl_txt.clone());
        } else {
            head.extend(ttl_txt.clone());
            head.extend(class_txt.clone());
        }
        head.push(kw(&r.mnemonic));
        // rdata tokens
        let mut toks: Vec<String> = Vec::new();
        for t in &r.toks {
            toks.push(match t {
                Tok::Plain(s) => s.clone(),
                Tok::Name(n) => name_text(rng, n, origin.as_deref(), k.relative),
                Tok::Str(s) => str_text(rng, s),
            });
        }
        // join with optional parentheses and line breaks
        let all: Vec<String> = head.into_iter().chain(toks).collect();
        let open_at = if k.parens { Some(rng.below(all.len())) } else { None };
        let mut depth = 0;
        for (i, t) in all.iter().enumerate() {
            if Some(i) == open_at && depth == 0 {
                // a parenthesis is a token of its own whether or not white space surrounds it
                out.push_str(if rng.bool() { "(" } else { "( " });
                depth = 1;
            }
            out.push_str(t);
            if Some(i + 1) == open_at && depth == 0 && i + 1 < all.len() && rng.chance(1, 3) {
                // ... also glued to the token in front of it
                out.push('(');
                depth = 1;
            }
            if i + 1 < all.len() {
                if depth > 0 && rng.chance(1, 2) {
                    if k.comments && rng.bool() {
                        // a semicolon starts a comment wherever it stands outside a quoted string, also right behind a token
                        out.push_str(if rng.bool() { " ; inner ) comment \"" } else { ";inner ) comment \"" });
                    }
                    out.push_str(nl);
                    out.push_str(&sep(rng, k));
                } else {
                    out.push_str(&sep(rng, k));
                }
            }
        }
        if depth > 0 {
            if rng.bool() {
                out.push_str(nl);
                out.push_str(" )");
            } else {
                out.push_str(if rng.bool() { ")" } else { " )" });
            }
        }
        if k.comments && rng.bool() {
            out.push_str(if rng.bool() { " ; trailing comment ( \\" } else { ";trailing comment ( \\" });
        }
        if ri + 1 < f.recs.len() || !k.no_final_newline || f.includes.iter().any(|x| x.0 == f.recs.len()) {
            out.push_str(nl);
        }
    }
    let trailing: Vec<_> = f.includes.iter().filter(|x| x.0 == f.recs.len()).collect();
    for (i, (_, path, o)) in trailing.iter().enumerate() {
        let l = include_line(rng, path, o);
        out.push_str(&l);
        if i + 1 < trailing.len() || !k.no_final_newline {
            out.push_str(nl);
        }
    }
    out.into_bytes()
}

fn knob_vector(rng: &mut Rng, variant: usize) -> Knobs {
    if variant == 0 {
        return Knobs::default();
    }
    Knobs {
        comments: rng.bool(),
        blank_lines: rng.bool(),
        parens: rng.bool(),
        tabs: rng.bool(),
        relative: rng.bool(),
        inherit_owner: rng.bool(),
        omit_ttl: rng.bool(),
        dollar_ttl: rng.chance(1, 3),
        omit_class: rng.bool(),
        class_first: rng.bool(),
        lower_keywords: rng.bool(),
        crlf: rng.chance(1, 4),
        no_final_newline: rng.chance(1, 4),
        reorigin: rng.chance(1, 3),
    }
}

type Parsed = Vec<(Vec<u8>, u16, u32, u16, Vec<u8>)>;

fn logical(f: &LFile) -> Parsed {
    let mut out: Parsed = Vec::new();
    for i in 0..=f.recs.len() {
        for (_, path, o) in f.includes.iter().filter(|x| x.0 == i) {
            // (read_zonefile's rendering of an Include entry)
            out.push((o.clone().unwrap_or_default(), 0, 0, 0, path.clone()));
        }
        if let Some(r) = f.recs.get(i) {
            out.push((r.owner.clone(), f.class, r.ttl, r.rtype, r.rdata.clone()));
        }
    }
    out
}

fn metamorphic(c: &mut Ctx, fam: &str, idx: u64, rng: &mut Rng) {
    let f = gen_file(rng);
    let want = logical(&f);
    let nvar = 5;
    let mut texts: Vec<(Knobs, Vec<u8>)> = Vec::new();
    for v in 0..nvar {
        let k = knob_vector(rng, v);
        let t = render(rng, &f, &k);
        texts.push((k, t));
    }
    for (vi, (k, t)) in texts.iter().enumerate() {
        let ex = || json!({"variant": vi, "knobs": format!("{:?}", k), "text": String::from_utf8_lossy(t)});
        let origin = if k.relative { None } else { Some(&f.origin[..]) };
        let r = ctx::catch(|| read_zonefile(t, origin, false));
        match r {
            Err(pi) => {
                let rp = c.replay_of(fam, idx, ex());
                c.violation(&format!("panic:{}", pi.site()), &format!("panic reading a well-formed zone file: {} at {}:{}", pi.msg, pi.file, pi.line), rp);
            }
            Ok(Err(e)) => {
                let on: Vec<&str> = knob_names(k);
                let ecl: String = e.split(':').last().unwrap_or("").trim().chars().take(30).collect();
                let rp = c.replay_of(fam, idx, ex());
                c.violation(&format!("layout-rejected:{}", ecl), &format!("a layout variant (knobs {:?}) of a well-formed file is rejected: {} -- text {:?}", on, e, String::from_utf8_lossy(&t[..t.len().min(400)])), rp);
            }
            Ok(Ok(got)) => {
                if got != want {
                    let k0 = got.iter().zip(&want).position(|(a, b)| a != b);
                    let field = match k0 {
                        Some(i) => {
                            let (a, b) = (&got[i], &want[i]);
                            if a.0 != b.0 { "owner" } else if a.1 != b.1 { "class" } else if a.2 != b.2 { "ttl" } else if a.3 != b.3 { "type" } else { "rdata" }
                        }
                        None => "count",
                    };
                    let rp = c.replay_of(fam, idx, ex());
                    c.violation(&format!("layout-dependent:{}", field), &format!("layout variant {} (knobs {:?}) reads as a different record sequence ({} vs {} records, first difference at {:?} in {}) -- text {:?}", vi, knob_names(k), got.len(), want.len(), k0, field, String::from_utf8_lossy(&t[..t.len().min(400)])), rp);
                } else {
                    c.count("layout_variants_equal", 1);
                }
            }
        }
        for n in knob_names(k) {
            c.count(&format!("knob_{}", n), 1);
        }
        c.eval(&(knob_names(k), f.recs.len().min(6)));
    }
    // the zonetree front end must accept what the reader accepts (no panic)
    let (k, t) = &texts[0];
    let _ = k;
    let r = ctx::catch(|| {
        let mut zf = Zonefile::from(&t[..]);
        zf.set_origin(Name::from_octets(Bytes::copy_from_slice(&f.origin)).unwrap());
        domain::zonetree::parsed::Zonefile::try_from(zf).is_ok()
    });
    if let Err(pi) = r {
        let rp = c.replay_of(fam, idx, json!({"text": String::from_utf8_lossy(t)}));
        c.violation(&format!("panic:{}", pi.site()), &format!("panic in zonetree::parsed::Zonefile: {}", pi.msg), rp);
    }
    if c.want_sample() && idx % 17 == 4 {
        c.sample(json!({"family": "metamorphic", "variant_text": String::from_utf8_lossy(&texts[1].1[..texts[1].1.len().min(300)]), "knobs": knob_names(&texts[1].0), "records": f.recs.len()}));
    }
}

fn knob_names(k: &Knobs) -> Vec<&'static str> {
    let mut v = Vec::new();
    macro_rules! kn { ($($f:ident),*) => { $( if k.$f { v.push(stringify!($f)); } )* } }
    kn!(comments, blank_lines, parens, tabs, relative, inherit_owner, omit_ttl, dollar_ttl, omit_class, class_first, lower_keywords, crlf, no_final_newline, reorigin);
    v
}

// ---------------------------------------------------------- hostile ----

const NASTY: &[&[u8]] = &[
    b"(", b")", b"((", b"( ( ) )", b"a ( b", b"a ) b", b"\"", b"\"abc", b"a \"b\nc\" d", b"\\", b"a\\", b"\\1", b"\\12", b"\\256", b"\\999 IN A 1.2.3.4",
    b"$ORIGIN", b"$ORIGIN\n", b"$ORIGIN a b\n", b"$TTL", b"$TTL x\n", b"$TTL 1 2\n", b"$INCLUDE", b"$INCLUDE f\n", b"$INCLUDE f a. b\n", b"$UNKNOWN\n",
    b"@", b"@ IN", b"@ IN A", b"@ IN A 1.2.3\n", b". 1 IN TYPE1 \\# 4 00\n", b". IN TYPE65536 \\# 0\n", b". IN A \\# 4 01020304\n", b". IN TXT \\# 2 0161\n",
    b". IN DS 1 1 1 zz\n", b". IN DNSKEY 1 1 1 ====\n", b". IN NSEC3 1 0 0 - zzzz A\n", b". IN SOA . . 1 2 3 4\n", b". 99999999999 IN A 1.1.1.1\n", b". IN IN A 1.1.1.1\n",
    b"a..b 3600 IN A 192.0.2.1\n", b"c. 3600 IN CNAME x..y.\n", b"a.b.. IN NS ..\n", b"m 1 IN MX 1 a..\n", b"\\046..x IN A 1.1.1.1\n",
    b"\r", b"\r\n", b"a\rb\n", b"\x00", b"\xff\xfe", b"a.\x80. IN A 1.1.1.1\n", b";\n;", b" \t \n", b"\n\n\n", b"a. IN TXT \"\xc3\x28\"\n", b". IN CAA 0 issue\n", b". IN SVCB 1 . key=\n",
    b". IN HTTPS 1 . alpn=\n", b". IN IPSECKEY 1 3 1 . AA==\n", b". IN NAPTR 1 1 \"\" \"\" \"\" .\n", b". IN TLSA 1 1 1\n", b". IN ZONEMD 1 1 1 00\n", b". IN NSEC . TYPE0\n", b". IN NSEC . A A\n",
];

/// Every name in every entry the reader returns is a valid name: the octets the owner composes
/// to pass the independent validator and agree with its label iteration, and the RDATA of known
/// types decodes (embedded names included) with the independent decoder.
fn entries_well_formed(text: &[u8], origin: Option<&[u8]>, allow_invalid: bool) -> Result<usize, String> {
    use domain::base::name::ToName;
    use domain::base::rdata::ComposeRecordData;
    use domain::zonefile::inplace::Entry;
    let mut zf = Zonefile::from(text);
    if allow_invalid {
        zf = zf.allow_invalid();
    }
    if let Some(o) = origin {
        zf.set_origin(Name::from_octets(Bytes::copy_from_slice(o)).map_err(|e| e.to_string())?);
    }
    let mut n = 0usize;
    loop {
        if n > text.len() + 2 {
            return Ok(n);
        }
        match zf.next_entry() {
            Ok(Some(Entry::Record(r))) => {
                n += 1;
                let mut raw = Vec::new();
                r.owner().compose(&mut raw).map_err(|_| "compose".to_string())?;
                if let Err(e) = w::validate_abs_name(&raw) {
                    return Err(format!("owner of entry {} composes to {} which is not a valid name: {:?}", n, hex(&raw[..raw.len().min(80)]), e));
                }
                if raw != r.owner().to_vec().as_slice() {
                    return Err(format!("owner of entry {} composes to {} but iterates as {}", n, hex(&raw[..raw.len().min(80)]), w::name_text(r.owner().to_vec().as_slice())));
                }
                // the RDATA goes on the wire and comes back through the library's own parser as it
                // was (an embedded "name" with an empty label inside ends early and leaves octets over)
                let t = r.rtype().to_int();
                let mut rd = vec![0u8; 12];
                r.data().compose_rdata(&mut rd).map_err(|_| "compose".to_string())?;
                let back = (|| -> Result<Vec<u8>, String> {
                    use domain::base::rdata::ParseAnyRecordData;
                    let mut p = octseq::parse::Parser::from_ref(&rd[..]);
                    p.advance(12).map_err(|e| e.to_string())?;
                    let d = domain::rdata::AllRecordData::<&[u8], domain::base::name::ParsedName<&[u8]>>::parse_any_rdata(r.rtype(), &mut p).map_err(|e| e.to_string())?;
                    if p.remaining() != 0 {
                        return Err(format!("{} octets left over", p.remaining()));
                    }
                    let mut b = Vec::new();
                    d.compose_rdata(&mut b).map_err(|_| "compose".to_string())?;
                    Ok(b)
                })();
                // (only types that embed names are judged: what else the scanner admits and the
                // wire parser refuses, like a ZONEMD digest of one octet, is not about names)
                // (RFC 3597 generic data is carried as opaque octets whatever its type: no name value exists there)
                let has_names = w::layout(t).map_or(false, |l| l.iter().any(|f| matches!(f, w::F::Name { .. } | w::F::IpsecGateway))) && !matches!(r.data(), domain::rdata::ZoneRecordData::Unknown(_));
                match back {
                    _ if !has_names => {}
                    Ok(b) if b[..] == rd[12..] => {}
                    Ok(_) => return Err(format!("RDATA of entry {} (type {}) is {} and reads back from the wire as something else", n, w::type_name(t), hex(&rd[12..rd.len().min(92)]))),
                    Err(e) => return Err(format!("RDATA of entry {} (type {}) is {} which the library's own wire parser refuses: {}", n, w::type_name(t), hex(&rd[12..rd.len().min(92)]), e)),
                }
            }
            Ok(Some(_)) => n += 1,
            Ok(None) => return Ok(n),
            Err(_) => return Ok(n),
        }
    }
}

/// One raw octet that is not printable ASCII inside a name or a string: whether it is let
/// through or refused must not depend on whether some *other* character of the same token is
/// written as an escape (the reader has a fast path for tokens without escapes).
fn raw_octet_case(c: &mut Ctx, fam: &str, idx: u64, rng: &mut Rng) {
    let x: Vec<u8> = match rng.below(8) {
        0 => vec![0x7f],
        1 => vec![0x00],
        2 => vec![*rng.pick(&[0x01u8, 0x08, 0x0b, 0x0c, 0x0e, 0x1b, 0x1f])],
        3 => vec![0x80],
        4 => vec![0xff],
        5 => vec![0xc3, 0xa9],
        6 => vec![0xe2, 0x9c, 0x93],
        _ => vec![*rng.pick(&[0x7fu8, 0x7e, 0x21, 0xa0])],
    };
    let pre: Vec<u8> = (0..rng.range(1, 4)).map(|_| *rng.pick(b"abcxyz")).collect();
    let post: Vec<u8> = (0..rng.range(1, 4)).map(|_| *rng.pick(b"abcxyz")).collect();
    let esc = |b: &[u8], which: usize| -> Vec<u8> {
        let mut v = Vec::new();
        for (i, ch) in b.iter().enumerate() {
            if i == which {
                v.extend_from_slice(format!("\\{:03}", ch).as_bytes())
            } else {
                v.push(*ch)
            }
        }
        v
    };
    let in_name = rng.bool();
    let quoted = !in_name && rng.bool();
    let tok = |pre: &[u8], post: &[u8]| -> Vec<u8> {
        let mut t = Vec::new();
        if quoted {
            t.push(b'"')
        }
        t.extend_from_slice(pre);
        t.extend_from_slice(&x);
        t.extend_from_slice(post);
        if quoted {
            t.push(b'"')
        }
        t
    };
    let wb = rng.below(pre.len());
    let wa = rng.below(post.len());
    let variants: Vec<(&str, Vec<u8>)> = vec![("plain", tok(&pre, &post)), ("escape-before", tok(&esc(&pre, wb), &post)), ("escape-after", tok(&pre, &esc(&post, wa)))];
    let mut verdicts: Vec<(&str, Result<Parsed, String>)> = Vec::new();
    for (name, t) in &variants {
        let mut text: Vec<u8> = Vec::new();
        if in_name {
            text.extend_from_slice(t);
            text.extend_from_slice(b".example. 300 IN A 192.0.2.1\n");
        } else {
            text.extend_from_slice(b"t.example. 300 IN TXT ");
            text.extend_from_slice(t);
            text.push(b'\n');
        }
        match ctx::catch(|| read_zonefile(&text, None, false)) {
            Ok(r) => verdicts.push((name, r.map_err(|e| e.split(':').last().unwrap_or("").trim().to_string()))),
            Err(pi) => {
                c.violation(&format!("panic:{}", pi.site()), &format!("panic reading a token with a raw octet: {} at {}:{}", pi.msg, pi.file, pi.line), c.replay_of(fam, idx, json!({"text": hex(&text)})));
                return;
            }
        }
    }
    let first_ok = verdicts[0].1.is_ok();
    for (name, v) in &verdicts[1..] {
        if v.is_ok() != first_ok || (first_ok && v.as_ref().ok() != verdicts[0].1.as_ref().ok()) {
            let cls = match x[0] {
                0x7f => "DEL",
                0x00..=0x1f => "control",
                0x80..=0xff => "high",
                _ => "printable",
            };
            c.violation(
                &format!("layout-dependent:raw-octet:{}:{}", cls, if in_name { "name" } else if quoted { "quoted-string" } else { "string" }),
                &format!("a token holding the raw octet(s) {} is {} when written without escapes and {} when another of its characters is written as an escape ({})", hex(&x), if first_ok { "accepted" } else { "refused" }, if v.is_ok() { "accepted" } else { "refused" }, name),
                c.replay_of(fam, idx, json!({"token": hex(&variants[0].1), "variant": hex(&variants.iter().find(|t| t.0 == *name).unwrap().1)})),
            );
            return;
        }
    }
    c.count(if first_ok { "raw_octet_tokens_accepted_either_way" } else { "raw_octet_tokens_refused_either_way" }, 1);
    c.eval(&("raw-octet", x[0], in_name, quoted, first_ok));
}

fn hostile_one(c: &mut Ctx, fam: &str, idx: u64, text: &[u8], kind: &str) {
    ctx::slot_write(idx, &format!("{}|{}", fam, kind), text);
    let ex = || json!({"input_hex": hex(text), "kind": kind});
    for with_origin in [false, true] {
        ctx::step("Zonefile::next_entry");
        let r = ctx::catch(|| read_zonefile(text, if with_origin { Some(&[7, b'e', b'x', b'a', b'm', b'p', b'l', b'e', 0][..]) } else { None }, with_origin));
        match r {
            Err(pi) => {
                let rp = c.replay_of(fam, idx, ex());
                c.violation(&format!("panic:{}", pi.site()), &format!("panic reading a {}-octet zone file ({}): {} at {}:{}", text.len(), kind, pi.msg, pi.file, pi.line), rp);
            }
            Ok(Err(e)) => {
                // an error comes with a position line:col (both >= 1)
                let mut it = e.splitn(3, ':');
                let line = it.next().and_then(|x| x.trim().parse::<usize>().ok());
                let col = it.next().and_then(|x| x.trim().parse::<usize>().ok());
                if e.starts_with("harness:") {
                    let rp = c.replay_of(fam, idx, ex());
                    c.violation("cap:entries", "the reader yields more entries than the file has octets", rp);
                } else if !matches!((line, col), (Some(l), Some(cc)) if l >= 1 && cc >= 1) {
                    let rp = c.replay_of(fam, idx, ex());
                    c.violation("error-without-position", &format!("error without a plausible position: {:?}", e), rp);
                }
                c.count("hostile_errors", 1);
                let cls: String = e.split(':').last().unwrap_or("").trim().chars().filter(|c| !c.is_ascii_digit()).take(24).collect();
                c.sig(&("err", cls));
            }
            Ok(Ok(v)) => {
                c.count("hostile_accepted", 1);
                c.sig(&("ok", v.len().min(5), kind));
            }
        }
        ctx::step("entries well-formed");
        match ctx::catch(|| entries_well_formed(text, if with_origin { Some(&[7, b'e', b'x', b'a', b'm', b'p', b'l', b'e', 0][..]) } else { None }, with_origin)) {
            Ok(Ok(n)) => c.count("hostile_entries_checked_for_valid_names", n as u64),
            Ok(Err(e)) => {
                let cls = if e.contains("owner") { "owner" } else { "rdata" };
                let rp = c.replay_of(fam, idx, ex());
                c.violation(&format!("reader-yields-invalid-name:{}", cls), &e, rp);
            }
            Err(pi) => {
                let rp = c.replay_of(fam, idx, ex());
                c.violation(&format!("panic:{}", pi.site()), &format!("panic inspecting the entries of a zone file ({}): {} at {}:{}", kind, pi.msg, pi.file, pi.line), rp);
            }
        }
    }
    // streaming construction: data appended to an empty Zonefile, possibly not yet complete
    ctx::step("Zonefile::new+extend_from_slice");
    let r = ctx::catch(|| {
        let mut zf = Zonefile::new().allow_invalid();
        zf.extend_from_slice(text);
        let mut n = 0usize;
        loop {
            match zf.next_entry() {
                Ok(Some(_)) => n += 1,
                Ok(None) => return Ok(n),
                Err(e) => return Err(e.to_string()),
            }
            if n > text.len() + 2 {
                return Err("harness: more entries than octets".into());
            }
        }
    });
    match r {
        Err(pi) => {
            let rp = c.replay_of(fam, idx, ex());
            c.violation(&format!("panic:{}", pi.site()), &format!("panic reading streamed zone data ({} octets, {}): {} at {}:{}", text.len(), kind, pi.msg, pi.file, pi.line), rp);
        }
        Ok(Err(e)) if e.starts_with("harness:") => {
            let rp = c.replay_of(fam, idx, ex());
            c.violation("cap:entries", "the reader yields more entries than the data has octets", rp);
        }
        _ => {}
    }
    ctx::step("zonetree::parsed::Zonefile::try_from");
    let r = ctx::catch(|| {
        let mut zf = Zonefile::from(text);
        zf.set_origin(Name::from_octets(Bytes::from_static(b"\x07example\x00")).unwrap());
        domain::zonetree::parsed::Zonefile::try_from(zf).is_ok()
    });
    if let Err(pi) = r {
        let rp = c.replay_of(fam, idx, ex());
        c.violation(&format!("panic:{}", pi.site()), &format!("panic in zonetree::parsed::Zonefile on a {}-octet input: {}", text.len(), pi.msg), rp);
    }
    c.evals_n(1);
    c.count(&format!("hostile_{}", kind), 1);
}


// ------------------------------------------------------------ field limits ----

/// One way of writing the octets of a character string.
fn spell_charstr(rng: &mut Rng, s: &[u8], mode: usize) -> String {
    let esc_at = if s.is_empty() { usize::MAX } else { rng.below(s.len()) };
    let mut t = String::new();
    let quoted = matches!(mode, 1 | 2 | 4 | 6);
    if quoted {
        t.push('"');
    }
    for (i, &b) in s.iter().enumerate() {
        let special = !(b.is_ascii_alphanumeric() || b == b'-' || b == b'_' || (quoted && b == b' '));
        match mode {
            // every octet as a decimal escape
            5 | 6 => t.push_str(&format!("\\{:03}", b)),
            // one octet as a decimal escape
            3 | 4 if i == esc_at => t.push_str(&format!("\\{:03}", b)),
            // one octet as a character escape
            7 if i == esc_at && b.is_ascii_alphabetic() => {
                t.push('\\');
                t.push(b as char);
            }
            _ if special => t.push_str(&format!("\\{:03}", b)),
            _ => t.push(b as char),
        }
    }
    if quoted {
        t.push('"');
    }
    if t.is_empty() {
        t.push_str("\"\"");
    }
    t
}

fn charstr_content(rng: &mut Rng, len: usize, mode: usize) -> Vec<u8> {
    (0..len)
        .map(|i| match mode {
            2 if i % 17 == 5 => b' ',
            5 | 6 => rng.u8(),
            _ => *rng.pick(b"abcxyzABC0189-_"),
        })
        .collect()
}

/// One record whose variable-length field sits on, just below or just above the limit its type
/// puts on it (character strings 255 octets, NSEC3 salts and hashes 255, CAA tags 255, RDATA
/// 65535), written in every spelling the format offers. At or below the limit the reader must
/// give exactly that record; above it the reader must refuse - a value that the type cannot
/// hold must not come out (it would panic or write a wrong length octet when composed).
fn field_limit_case(c: &mut Ctx, fam: &str, idx: u64, rng: &mut Rng) {
    use crate::refimpl::b64 as rb;
    use domain::base::rdata::ComposeRecordData;
    use domain::zonefile::inplace::Entry;
    let len = *rng.pick(&[0usize, 1, 2, 63, 64, 127, 128, 200, 253, 254, 255, 255, 255, 256, 256, 256, 257, 258, 300, 511, 512]);
    let mode = rng.below(8);
    let kind = rng.below(11);
    let cs = |v: &[u8]| -> Vec<u8> {
        let mut o = vec![v.len() as u8];
        o.extend_from_slice(v);
        o
    };
    // (type mnemonic, RDATA text, expected RDATA or None for "must be refused", what the field is)
    let (ty, text, want, what): (&str, String, Option<Vec<u8>>, &str) = match kind {
        0 | 1 => {
            // TXT: the string under test among others
            let s = charstr_content(rng, len, mode);
            let before = rng.below(3);
            let after = rng.below(3);
            let mut t = String::new();
            let mut rd = Vec::new();
            let mut all_ok = len <= 255;
            for _ in 0..before {
                let m = rng.below(8);
                let l = *rng.pick(&[0usize, 3, 255, 254]);
                let o = charstr_content(rng, l, m);
                t.push_str(&spell_charstr(rng, &o, m));
                t.push(' ');
                rd.extend(cs(&o));
            }
            t.push_str(&spell_charstr(rng, &s, mode));
            rd.extend(if len <= 255 { cs(&s) } else { vec![] });
            for _ in 0..after {
                let m = rng.below(8);
                let l = *rng.pick(&[0usize, 3, 255, 256]);
                let o = charstr_content(rng, l, m);
                t.push(' ');
                t.push_str(&spell_charstr(rng, &o, m));
                if l > 255 {
                    all_ok = false;
                } else {
                    rd.extend(cs(&o));
                }
            }
            ("TXT", t, if all_ok { Some(rd) } else { None }, "character string of TXT")
        }
        2 => {
            let s = charstr_content(rng, len, mode);
            let os = charstr_content(rng, 3, 0);
            let first = rng.bool();
            let (a, b) = if first { (&s, &os) } else { (&os, &s) };
            let t = format!("{} {}", spell_charstr(rng, a, if first { mode } else { 0 }), spell_charstr(rng, b, if first { 0 } else { mode }));
            let mut rd = cs(a);
            rd.extend(cs(b));
            ("HINFO", t, if len <= 255 { Some(rd) } else { None }, "character string of HINFO")
        }
        3 => {
            // NAPTR order pref flags services regexp replacement
            let s = charstr_content(rng, len, mode);
            let which = rng.below(3);
            let short = b"u".to_vec();
            let f: [&[u8]; 3] = [if which == 0 { &s } else { &short }, if which == 1 { &s } else { &short }, if which == 2 { &s } else { &short }];
            let t = format!("10 20 {} {} {} .", spell_charstr(rng, f[0], if which == 0 { mode } else { 1 }), spell_charstr(rng, f[1], if which == 1 { mode } else { 1 }), spell_charstr(rng, f[2], if which == 2 { mode } else { 1 }));
            let mut rd = vec![0, 10, 0, 20];
            for x in f {
                rd.extend(cs(x));
            }
            rd.push(0);
            ("NAPTR", t, if len <= 255 { Some(rd) } else { None }, "character string of NAPTR")
        }
        4 | 5 => {
            // NSEC3PARAM / NSEC3 salt
            let salt = rng.bytes(len);
            let st = if len == 0 { "-".to_string() } else if rng.bool() { rb::enc16(&salt) } else { rb::enc16(&salt).to_lowercase() };
            if kind == 4 {
                let mut rd = vec![1, 0, 0, 5, len as u8];
                rd.extend_from_slice(&salt);
                ("NSEC3PARAM", format!("1 0 5 {}", st), if len <= 255 { Some(rd) } else { None }, "salt of NSEC3PARAM")
            } else {
                let h = rng.bytes(20);
                let mut rd = vec![1, 1, 0, 5, len as u8];
                rd.extend_from_slice(&salt);
                rd.push(20);
                rd.extend_from_slice(&h);
                rd.extend_from_slice(&[0, 1, 0x40]);
                ("NSEC3", format!("1 1 5 {} {} A", st, rb::enc32hex(&h)), if len <= 255 { Some(rd) } else { None }, "salt of NSEC3")
            }
        }
        6 => {
            // NSEC3 next hashed owner name (whole 5-octet groups, so that no padding is involved)
            let hl = *rng.pick(&[5usize, 20, 250, 255, 260, 300]);
            let h = rng.bytes(hl);
            let mut rd = vec![1, 0, 0, 1, 2, 0xab, 0xcd, hl as u8];
            rd.extend_from_slice(&h);
            rd.extend_from_slice(&[0, 1, 0x40]);
            ("NSEC3", format!("1 0 1 abcd {} A", rb::enc32hex(&h)), if hl <= 255 { Some(rd) } else { None }, "next hashed owner of NSEC3")
        }
        7 => {
            // CAA tag: letters and digits, 1..255
            let tl = *rng.pick(&[1usize, 5, 15, 254, 255, 256, 300]);
            let tag: Vec<u8> = (0..tl).map(|_| *rng.pick(b"abcissuewild019")).collect();
            let val = charstr_content(rng, rng.clone().range(0, 300), 1);
            let mut rd = vec![128, tl as u8];
            rd.extend_from_slice(&tag);
            rd.extend_from_slice(&val);
            ("CAA", format!("128 {} {}", String::from_utf8_lossy(&tag), spell_charstr(rng, &val, 1)), if tl <= 255 { Some(rd) } else { None }, "tag of CAA")
        }
        8 => {
            // RFC 3597 generic data at the RDATA limit
            let dl = *rng.pick(&[0usize, 1, 255, 256, 65534, 65535, 65536, 65540]);
            let d = rng.bytes(dl);
            let hexs = rb::enc16(&d);
            // spread over several tokens
            let mut t = format!("\\# {}", dl);
            let mut i = 0;
            while i < hexs.len() {
                let n = (rng.range(1, 400) * 2).min(hexs.len() - i);
                t.push(' ');
                t.push_str(&hexs[i..i + n]);
                i += n;
            }
            ("TYPE65280", t, if dl <= 65535 { Some(d) } else { None }, "generic RDATA")
        }
        9 => {
            // TXT RDATA beyond 65535 octets: 256 or 257 strings of 255
            let n = *rng.pick(&[255usize, 256, 257]);
            let one = charstr_content(rng, 255, 0);
            let sp = spell_charstr(rng, &one, 0);
            let mut t = String::with_capacity(n * 257);
            let mut rd = Vec::with_capacity(n * 256);
            for i in 0..n {
                if i > 0 {
                    t.push(' ');
                }
                t.push_str(&sp);
                rd.extend(cs(&one));
            }
            ("TXT", t, if rd.len() <= 65535 { Some(rd) } else { None }, "RDATA length of TXT")
        }
        _ => {
            // DS digest: no limit of its own
            let d = rng.bytes(len.max(1));
            let mut rd = vec![0x30, 0x39, 13, 2];
            rd.extend_from_slice(&d);
            ("DS", format!("12345 13 2 {}", rb::enc16(&d)), Some(rd), "digest of DS")
        }
    };
    let paren = rng.chance(1, 4);
    let line = if paren { format!("x.example. 3600 IN {} ( {} )\n", ty, text) } else { format!("x.example. 3600 IN {} {}\n", ty, text) };
    ctx::slot_write(idx, &format!("{}|{}", fam, what), line.as_bytes());
    let ex = json!({"type": ty, "field": what, "length": len, "spelling": mode, "text": if line.len() > 1500 { format!("{}...", &line[..1500]) } else { line.clone() }});
    let bytes = line.as_bytes().to_vec();
    let res = ctx::catch(|| {
        let mut zf = Zonefile::from(&bytes[..]).allow_invalid();
        match zf.next_entry() {
            Ok(Some(Entry::Record(r))) => {
                let mut rd = Vec::new();
                let adv = r.data().rdlen(false);
                match r.data().compose_rdata(&mut rd) {
                    Ok(()) => Ok(Some((rd, adv, r.rtype().to_int()))),
                    Err(_) => Err("compose failed".to_string()),
                }
            }
            Ok(_) => Err("no record".to_string()),
            Err(e) => Ok(None).and_then(|x: Option<(Vec<u8>, Option<u16>, u16)>| { let _ = e; Ok(x) }),
        }
    });
    let within = want.is_some();
    c.eval(&("field-limit", ty, what, len.min(300), mode, within, paren));
    match res {
        Err(pi) => {
            c.violation(&format!("field-limit:panic:{}", what.replace(' ', "-")), &format!("a {} of {} octets: reading the record and composing what the reader returned panics: {} at {}:{}", what, len, pi.msg, pi.file, pi.line), c.replay_of(fam, idx, ex));
        }
        Ok(Err(e)) => {
            if within {
                c.violation(&format!("field-limit:unusable-entry:{}", what.replace(' ', "-")), &format!("a {} of {} octets is within the limit: {}", what, len, e), c.replay_of(fam, idx, ex));
            } else {
                c.count("field_limit_refused_late", 1);
            }
        }
        Ok(Ok(None)) => {
            if within {
                c.violation(&format!("field-limit:refused-within-limit:{}", what.replace(' ', "-")), &format!("a {} of {} octets (spelling {}) is within the limit but the record is refused", what, len, mode), c.replay_of(fam, idx, ex));
            } else {
                c.count("field_limit_over_limit_refused", 1);
            }
        }
        Ok(Ok(Some((rd, adv, _t)))) => {
            if let Some(a) = adv {
                if a as usize != rd.len() {
                    c.violation(&format!("field-limit:rdlen:{}", what.replace(' ', "-")), &format!("a {} of {} octets: the record the reader returned says its RDATA is {} octets and writes {}", what, len, a, rd.len()), c.replay_of(fam, idx, ex));
                    return;
                }
            }
            match want {
                Some(wd) => {
                    if rd != wd {
                        let p = rd.iter().zip(wd.iter()).position(|(a, b)| a != b).unwrap_or(rd.len().min(wd.len()));
                        c.violation(&format!("field-limit:content:{}", what.replace(' ', "-")), &format!("a {} of {} octets (spelling {}): the record reads as {} octets of RDATA, {} expected; first difference at {}: {} / {}", what, len, mode, rd.len(), wd.len(), p, hex(&rd[p.min(rd.len())..rd.len().min(p + 12)]), hex(&wd[p.min(wd.len())..wd.len().min(p + 12)])), c.replay_of(fam, idx, ex));
                    } else {
                        c.count("field_limit_within_limit_read_exactly", 1);
                        if len == 255 {
                            c.count("field_limit_exactly_on_the_limit", 1);
                        }
                    }
                }
                None => {
                    c.violation(&format!("field-limit:accepted-over-limit:{}", what.replace(' ', "-")), &format!("a {} of {} octets (spelling {}) is more than the field can hold, yet the reader returns a record; its RDATA composes to {} octets starting {}", what, len, mode, rd.len(), hex(&rd[..rd.len().min(16)])), c.replay_of(fam, idx, ex));
                }
            }
        }
    }
}

pub fn run(c: &mut Ctx) {
    c.families(5);
    if let Some(r) = c.replay.clone() {
        if let Some(h) = r.get("extra").and_then(|e| e.get("input_hex")).and_then(|h| h.as_str()) {
            let t = unhex(h);
            hostile_one(c, "replay", 0, &t, "replay");
            return;
        }
    }
    let miri = c.mode == "miri";
    let fam = "meta";
    let total = c.total(100_000, 8_000_000);
    for idx in c.cases(fam, total) {
        if c.out_of_time() {
            break;
        }
        let mut rng = c.case_rng(fam, idx);
        metamorphic(c, fam, idx, &mut rng);
    }
    // names at the 63-octet label limit and the 255-octet name limit, spelled with and without escapes (the reader has a
    // separate copying path for tokens with escapes): accepted exactly when valid, and then the octets of the name
    // (the family C03 runs on the reader as a name constructor)
    crate::p03::scanner_names(c);
    let fam = "raw-octet";
    let total = c.total(40_000, 2_000_000);
    for idx in c.cases(fam, total) {
        if c.out_of_time() {
            break;
        }
        let mut rng = c.case_rng(fam, idx);
        raw_octet_case(c, fam, idx, &mut rng);
    }
    let fam = "field-limit";
    let total = c.total(30_000, 1_500_000);
    for idx in c.cases(fam, total) {
        if c.out_of_time() {
            break;
        }
        let mut rng = c.case_rng(fam, idx);
        field_limit_case(c, fam, idx, &mut rng);
    }
    let fam = "hostile";
    let total = c.total(600_000, 40_000_000);
    for idx in c.cases(fam, total) {
        if c.out_of_time() {
            break;
        }
        let mut rng = c.case_rng(fam, idx);
        let (text, kind): (Vec<u8>, &str) = match rng.below(10) {
            0 => (rng.bytes(rng.clone().range(0, 200)), "random"),
            1 => {
                // random printable-ish
                let n = rng.range(0, 300);
                ((0..n).map(|_| *rng.pick(b"abc.123 \t\n();\"\\$@INATXT-_*\r\x00\xff")).collect(), "random-tokens")
            }
            2 | 3 => {
                // nasty snippets glued together
                let mut t = Vec::new();
                for _ in 0..rng.range(1, 4) {
                    let sn: &[u8] = NASTY[rng.below(NASTY.len())];
                    t.extend_from_slice(sn);
                    if rng.bool() {
                        t.push(b'\n');
                    }
                }
                (t, "nasty")
            }
            4 => {
                // very long token
                let n = if miri { 300 } else { rng.range(1000, 100_000) };
                let mut t = b"a. IN TXT ".to_vec();
                t.extend(std::iter::repeat(*rng.pick(b"x\"\\(")).take(n));
                t.push(b'\n');
                (t, "long-token")
            }
            _ => {
                // a valid rendering, mutated
                let f = gen_file(&mut rng);
                let k = knob_vector(&mut rng, 1);
                let mut t = render(&mut rng, &f, &k);
                for _ in 0..rng.range(1, 4) {
                    if t.is_empty() {
                        break;
                    }
                    let p = rng.below(t.len());
                    match rng.below(8) {
                        0 => t[p] = rng.u8(),
                        1 => t[p] = *rng.pick(b"()\"\\;\n\r\t $@\x00"),
                        2 => {
                            t.remove(p);
                        }
                        3 => t.insert(p, *rng.pick(b"()\"\\;\n\r\t $@\x00\xff")),
                        4 => t.truncate(p),
                        5 => {
                            let q = rng.below(t.len());
                            t.swap(p, q);
                        }
                        6 => {
                            let ins = NASTY[rng.below(NASTY.len())].to_vec();
                            for (i, b) in ins.iter().enumerate() {
                                t.insert(p + i, *b);
                            }
                        }
                        _ => t[p] ^= 1 << rng.below(8),
                    }
                }
                (t, "mutated-valid")
            }
        };
        hostile_one(c, fam, idx, &text, kind);
        if c.want_sample() && idx % 41 == 9 {
            c.sample(json!({"family": "hostile", "kind": kind, "text": String::from_utf8_lossy(&text[..text.len().min(120)])}));
        }
    }
    // every nasty snippet on its own, with and without a final newline
    if c.shard == 0 {
        for (i, n) in NASTY.iter().enumerate() {
            hostile_one(c, "nasty-corpus", i as u64, n, "corpus");
            let mut m = n.to_vec();
            m.push(b'\n');
            hostile_one(c, "nasty-corpus", i as u64, &m, "corpus");
        }
    }
    if !c.replaying() && !miri {
        c.floor("layout_variants_equal", 1000);
        c.floor("hostile_errors", 1000);
        c.floor("hostile_accepted", 100);
        c.floor("raw_octet_tokens_refused_either_way", 100);
        c.floor("field_limit_within_limit_read_exactly", 100);
        c.floor("field_limit_over_limit_refused", 100);
        c.floor("field_limit_exactly_on_the_limit", 10);
        for k in ["comments", "blank_lines", "parens", "tabs", "relative", "inherit_owner", "omit_ttl", "dollar_ttl", "omit_class", "class_first", "lower_keywords", "crlf", "no_final_newline", "reorigin"] {
            c.floor(&format!("knob_{}", k), 10);
        }
    }
}
