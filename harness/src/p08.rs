//! C08 — zone answers follow RFC 1034/4592 and depend only on current content.
use crate::ctx::{self, hex, Ctx};
use crate::refimpl::wire as w;
use crate::rng::Rng;
use crate::zlib::*;
use crate::zmodel::*;
use bytes::Bytes;
use domain::base::iana::{Class, Rtype};
use domain::base::name::{Label, Name};
use domain::base::record::Record;
use domain::rdata::ZoneRecordData;
use domain::zonetree::types::ZoneUpdate;
use domain::zonetree::update::ZoneUpdater;
use domain::zonetree::{Zone, ZoneBuilder};
use serde_json::json;
use std::collections::BTreeSet;

#[derive(Clone, Copy, PartialEq, Eq, Debug)]
pub enum Hist {
    Builder,
    Text,
    UpdaterFull,
    WriteIface,
    Incremental,
    AbandonThenRedo,
    AbandonThenOther,
    DeleteThenAbandonedReadd,
}

impl Hist {
    fn name(self) -> &'static str {
        match self {
            Hist::Builder => "builder",
            Hist::Text => "zonefile",
            Hist::UpdaterFull => "updater-replace",
            Hist::WriteIface => "write-interface",
            Hist::Incremental => "updater-incremental",
            Hist::AbandonThenRedo => "abandon-then-redo",
            Hist::AbandonThenOther => "abandon-then-other",
            Hist::DeleteThenAbandonedReadd => "delete-then-abandoned-readd",
        }
    }
}

type URec = Record<Name<Bytes>, ZoneRecordData<Bytes, Name<Bytes>>>;

fn urec(name: &[u8], t: u16, ttl: u32, rd: &[u8]) -> URec {
    srecord(name, t, ttl, rd)
}

/// Replace the whole content through the updater: DeleteAllRecords, AddRecord*, Finished(soa).
pub async fn updater_replace(zone: &Zone, z: &ZoneC) -> Result<(), String> {
    let mut up = ZoneUpdater::<Name<Bytes>>::new(zone.clone()).await.map_err(|e| format!("updater new: {:?}", e))?;
    up.apply(ZoneUpdate::DeleteAllRecords).await.map_err(|e| format!("DeleteAllRecords: {:?}", e))?;
    let mut soa = None;
    for (o, t, ttl, d) in z.records() {
        if t == T_SOA {
            soa = Some(urec(&o, t, ttl, &d));
            continue;
        }
        up.apply(ZoneUpdate::AddRecord(urec(&o, t, ttl, &d))).await.map_err(|e| format!("AddRecord: {:?}", e))?;
    }
    up.apply(ZoneUpdate::Finished(soa.ok_or("no soa")?)).await.map_err(|e| format!("Finished: {:?}", e))?;
    Ok(())
}

/// Move a zone from content `from` to content `to` by record-level deletes and adds.
pub async fn updater_incremental(zone: &Zone, from: &ZoneC, to: &ZoneC, rng: &mut Rng) -> Result<(), String> {
    let mut up = ZoneUpdater::<Name<Bytes>>::new(zone.clone()).await.map_err(|e| format!("updater new: {:?}", e))?;
    let old: BTreeSet<_> = from.records().into_iter().map(|(o, t, ttl, d)| (w::lower(&o), t, ttl, d)).collect();
    let new: BTreeSet<_> = to.records().into_iter().map(|(o, t, ttl, d)| (w::lower(&o), t, ttl, d)).collect();
    let mut dels: Vec<_> = old.difference(&new).cloned().collect();
    let mut adds: Vec<_> = new.difference(&old).cloned().collect();
    rng.shuffle(&mut dels);
    rng.shuffle(&mut adds);
    for (o, t, ttl, d) in dels {
        if t == T_SOA {
            continue;
        }
        up.apply(ZoneUpdate::DeleteRecord(urec(&o, t, ttl, &d))).await.map_err(|e| format!("DeleteRecord: {:?}", e))?;
    }
    for (o, t, ttl, d) in adds {
        if t == T_SOA {
            continue;
        }
        // adds use the target zone's spelling of the owner
        let name = to.get(&o, t).map(|r| r.name.clone()).unwrap_or(o);
        up.apply(ZoneUpdate::AddRecord(urec(&name, t, ttl, &d))).await.map_err(|e| format!("AddRecord: {:?}", e))?;
    }
    let s = to.get(&to.apex, T_SOA).ok_or("no soa")?;
    up.apply(ZoneUpdate::Finished(urec(&s.name, T_SOA, s.ttl, &s.rdatas[0]))).await.map_err(|e| format!("Finished: {:?}", e))?;
    Ok(())
}

/// An update that empties some names (every record of theirs deleted one by one) is
/// abandoned; a later update that touches none of them commits. Content is unchanged.
pub async fn abandon_deletes_then_commit(zone: &Zone, z: &ZoneC, rng: &mut Rng) -> Result<(), String> {
    {
        let mut up = ZoneUpdater::<Name<Bytes>>::new(zone.clone()).await.map_err(|e| format!("updater new: {:?}", e))?;
        let mut recs = z.records();
        rng.shuffle(&mut recs);
        let victims: Vec<Vec<u8>> = z.names().into_iter().filter(|n| !z.is_apex(n) && rng.chance(1, 2)).map(|n| w::lower(&n)).collect();
        for (o, t, ttl, d) in recs {
            if t == T_SOA || !victims.contains(&w::lower(&o)) {
                continue;
            }
            up.apply(ZoneUpdate::DeleteRecord(urec(&o, t, ttl, &d))).await.map_err(|e| format!("DeleteRecord: {:?}", e))?;
        }
        // dropped without Finished: rolled back
    }
    let mut up = ZoneUpdater::<Name<Bytes>>::new(zone.clone()).await.map_err(|e| format!("updater new (2): {:?}", e))?;
    let s = z.get(&z.apex, T_SOA).ok_or("no soa")?;
    up.apply(ZoneUpdate::Finished(urec(&s.name, T_SOA, s.ttl, &s.rdatas[0]))).await.map_err(|e| format!("Finished: {:?}", e))?;
    Ok(())
}

/// The zone once held more: extra RRsets at names that keep other data. Their deletion is committed; a later update
/// adds them again and is abandoned. What a version once deleted must stay deleted.
pub async fn delete_then_abandoned_readd(z: &ZoneC, rng: &mut Rng) -> Result<Zone, String> {
    let cuts: Vec<Vec<u8>> = z.names().into_iter().filter(|n| z.is_cut(n)).collect();
    let mut big = ZoneC { apex: z.apex.clone(), rrsets: z.rrsets.clone() };
    let mut extras: Vec<RRset> = Vec::new();
    for n in z.names() {
        if cuts.iter().any(|c| is_at_or_below(&n, c)) || z.get(&n, T_CNAME).is_some() || z.types_at(&n).is_empty() || z.get(&n, 13).is_some() {
            continue;
        }
        if z.is_apex(&n) || rng.bool() {
            let r = RRset { name: z.get(&n, z.types_at(&n)[0]).map(|r| r.name.clone()).unwrap_or(n.clone()), rtype: 13, ttl: 120, rdatas: vec![vec![1, b'x', 1, b'y']] };
            big.insert(r.clone());
            extras.push(r);
        }
    }
    let zone = build_with_builder(&big)?;
    let s = z.get(&z.apex, T_SOA).ok_or("no soa")?;
    {
        let mut up = ZoneUpdater::<Name<Bytes>>::new(zone.clone()).await.map_err(|e| format!("updater new: {:?}", e))?;
        for e in &extras {
            up.apply(ZoneUpdate::DeleteRecord(urec(&e.name, e.rtype, e.ttl, &e.rdatas[0]))).await.map_err(|e| format!("DeleteRecord: {:?}", e))?;
        }
        up.apply(ZoneUpdate::Finished(urec(&s.name, T_SOA, s.ttl, &s.rdatas[0]))).await.map_err(|e| format!("Finished: {:?}", e))?;
    }
    {
        let mut up = ZoneUpdater::<Name<Bytes>>::new(zone.clone()).await.map_err(|e| format!("updater new (2): {:?}", e))?;
        for e in &extras {
            up.apply(ZoneUpdate::AddRecord(urec(&e.name, e.rtype, e.ttl, &e.rdatas[0]))).await.map_err(|e| format!("AddRecord: {:?}", e))?;
        }
        // dropped without Finished: rolled back
    }
    Ok(zone)
}

/// Write the content through the WritableZone node interface into an empty zone.
pub async fn write_iface(zone: &Zone, z: &ZoneC, commit: bool) -> Result<(), String> {
    let mut wz = zone.write().await;
    let root = wz.open(false).await.map_err(|e| e.to_string())?;
    for r in z.rrsets.values() {
        // descend label by label from the apex
        let labels = w::labels(&r.name);
        let apex_labels = w::labels(&z.apex).len();
        let rel: Vec<&[u8]> = labels[..labels.len() - apex_labels].to_vec();
        let rr = shared_rrset(r);
        if rel.is_empty() {
            root.update_rrset(rr).await.map_err(|e| e.to_string())?;
        } else {
            let mut node = root.update_child(Label::from_slice(rel[rel.len() - 1]).unwrap()).await.map_err(|e| e.to_string())?;
            for l in rel[..rel.len() - 1].iter().rev() {
                node = node.update_child(Label::from_slice(l).unwrap()).await.map_err(|e| e.to_string())?;
            }
            node.update_rrset(rr).await.map_err(|e| e.to_string())?;
        }
    }
    drop(root);
    if commit {
        wz.commit(false).await.map_err(|e| e.to_string())?;
    }
    Ok(())
}

fn empty_zone(z: &ZoneC) -> Zone {
    ZoneBuilder::new(sname(&z.apex), Class::IN).build()
}

/// Root cause class of a disagreement on a zone that was reached through updates,
/// computed from the two contents alone (never from the library's answer).
fn cause(z: &ZoneC, prev: &ZoneC, h: Hist, qname: &[u8]) -> &'static str {
    let q = w::lower(qname);
    let mut path: Vec<Vec<u8>> = Vec::new();
    let mut cur = q.clone();
    loop {
        path.push(cur.clone());
        if z.is_apex(&cur) {
            break;
        }
        match parent(&cur) {
            Some(p) => cur = p,
            None => break,
        }
    }
    // wildcard siblings of every name on the path can take part in the answer
    let mut wcs: Vec<Vec<u8>> = path.iter().skip(1).map(|n| { let mut v = vec![1, b'*']; v.extend_from_slice(n); v }).collect();
    wcs.extend(path.iter().cloned());
    if h == Hist::AbandonThenRedo {
        // the zone itself was built by the typed builder; only what the abandoned writer
        // touched can matter: names it created that have nothing in the real content
        let prev_names = prev.names();
        if wcs.iter().any(|n| z.types_at(n).is_empty() && prev_names.iter().any(|p| is_at_or_below(p, n))) {
            return "empty-node-left-by-abandoned-writer";
        }
        return "other";
    }
    if path.iter().any(|n| z.is_cut(n)) {
        return "delegation-stored-as-plain-rrset";
    }
    if wcs.iter().any(|n| z.get(n, T_CNAME).is_some()) {
        return "cname-stored-as-plain-rrset";
    }
    let uses_prev = matches!(h, Hist::Incremental | Hist::AbandonThenRedo | Hist::UpdaterFull);
    if uses_prev && h != Hist::AbandonThenRedo && (path.iter().any(|n| prev.is_cut(n)) || wcs.iter().any(|n| prev.get(n, T_CNAME).is_some())) {
        return "cut-or-cname-of-previous-content-not-removed";
    }
    if wcs.iter().any(|n| !z.is_apex(n) && z.types_at(n).is_empty() && (path.contains(n))) {
        return "node-without-own-rrsets";
    }
    if uses_prev {
        // a name on the path (or its wildcard sibling) that only the other content has or had below it
        let prev_names = prev.names();
        if wcs.iter().any(|n| z.types_at(n).is_empty() && prev_names.iter().any(|p| is_at_or_below(p, n))) {
            return "empty-node-left-by-other-content";
        }
    }
    "other"
}

async fn build(h: Hist, z: &ZoneC, prev: &ZoneC, rng: &mut Rng, seed: u64) -> Result<Zone, String> {
    match h {
        Hist::Builder => build_with_builder(z),
        Hist::Text => build_from_text(z, seed),
        Hist::UpdaterFull => {
            // start from another zone's content built with the builder, then replace everything
            let zone = build_with_builder(prev)?;
            updater_replace(&zone, z).await?;
            Ok(zone)
        }
        Hist::WriteIface => {
            let zone = empty_zone(z);
            write_iface(&zone, z, true).await?;
            Ok(zone)
        }
        Hist::Incremental => {
            let zone = build_with_builder(prev)?;
            updater_incremental(&zone, prev, z, rng).await?;
            Ok(zone)
        }
        Hist::AbandonThenRedo => {
            let zone = build_with_builder(z)?;
            // a writer puts another zone's records in and is dropped without commit
            write_iface(&zone, prev, false).await?;
            Ok(zone)
        }
        Hist::AbandonThenOther => {
            let zone = build_with_builder(z)?;
            abandon_deletes_then_commit(&zone, z, rng).await?;
            Ok(zone)
        }
        Hist::DeleteThenAbandonedReadd => delete_then_abandoned_readd(z, rng).await,
    }
}

fn one_zone(c: &mut Ctx, rt: &tokio::runtime::Runtime, fam: &str, idx: u64) {
    let mut rng = c.case_rng(fam, idx);
    let z = gen_zone(&mut rng, 10);
    let prev = gen_zone(&mut rng, 9);
    let qnames = query_names(&mut rng, &z);
    let ex = |h: Hist| json!({"history": h.name(), "zone": z.records().iter().map(|(o, t, ttl, d)| format!("{} {} {} {}", w::name_text(o), ttl, t, hex(d))).collect::<Vec<_>>()});
    let hists = [Hist::Builder, Hist::Text, Hist::UpdaterFull, Hist::WriteIface, Hist::Incremental, Hist::AbandonThenRedo, Hist::AbandonThenOther, Hist::DeleteThenAbandonedReadd];
    for h in hists {
        let built = ctx::catch(|| rt.block_on(build(h, &z, &prev, &mut rng, idx)));
        let zone = match built {
            Ok(Ok(zn)) => zn,
            Ok(Err(e)) => {
                let rp = c.replay_of(fam, idx, ex(h));
                let cls: String = e.chars().filter(|c| !c.is_ascii_digit()).take(40).collect();
                c.violation(&format!("build-failed:{}:{}", h.name(), cls), &format!("history {} could not build a well-formed zone: {}", h.name(), e), rp);
                continue;
            }
            Err(pi) => {
                let rp = c.replay_of(fam, idx, ex(h));
                c.violation(&format!("panic:{}", pi.site()), &format!("panic while building a zone through {}: {} at {}:{}", h.name(), pi.msg, pi.file, pi.line), rp);
                continue;
            }
        };
        c.count(&format!("zones_{}", h.name()), 1);
        // content by walk(): exactly the model's records
        let walked = ctx::catch(|| walk_records(&zone));
        match walked {
            Ok(wr) => {
                // occluded records (below a delegation, not glue) are not part of what C08 is about;
                // walk() does not report them (see C09/C10)
                let cuts: Vec<Vec<u8>> = z.names().into_iter().filter(|n| z.is_cut(n)).collect();
                let top_cuts: Vec<Vec<u8>> = cuts.iter().filter(|cn| !cuts.iter().any(|o| is_at_or_below(cn, o) && o != *cn)).cloned().collect();
                let glue: std::collections::BTreeSet<(Vec<u8>, u16)> = top_cuts.iter().flat_map(|cn| glue_of(&z, z.get(cn, T_NS).unwrap()).into_iter().map(|g| (g.0, g.1))).collect();
                let visible = |r: &(Vec<u8>, u16, u32, Vec<u8>)| !cuts.iter().any(|cn| is_at_or_below(&r.0, cn) && r.0 != w::lower(cn)) || glue.contains(&(r.0.clone(), r.1));
                let mrv: Vec<_> = model_records(&z).into_iter().filter(|r| visible(r)).collect();
                let mut wrv: Vec<_> = wr.iter().filter(|r| visible(r)).cloned().collect();
                // an address record that is glue of several delegations (a name server shared between cuts) is kept
                // once per cut and enumerated once per cut: the same record several times, not another record
                let before = wrv.len();
                let mut i = 1;
                while i < wrv.len() {
                    if wrv[i] == wrv[i - 1] && glue.contains(&(wrv[i].0.clone(), wrv[i].1)) {
                        wrv.remove(i);
                    } else {
                        i += 1;
                    }
                }
                c.count("shared_glue_enumerated_once_per_cut", (before - wrv.len()) as u64);
                c.count("occluded_records_not_compared", (model_records(&z).len() - mrv.len()) as u64);
                if wrv != mrv {
                    let rp = c.replay_of(fam, idx, ex(h));
                    let sig = format!("walk-differs:{}", h.name());
                    let mr = mrv.clone();
                    let wr = wrv.clone();
                    let missing: Vec<String> = mr.iter().filter(|r| !wr.contains(r)).take(3).map(|r| format!("{} TYPE{}", w::name_text(&r.0), r.1)).collect();
                    let extra: Vec<String> = wr.iter().filter(|r| !mr.contains(r)).take(3).map(|r| format!("{} TYPE{}", w::name_text(&r.0), r.1)).collect();
                    c.violation(&sig, &format!("walk() of a zone built through {} enumerates {} records, the content has {}; missing {:?} extra {:?}", h.name(), wr.len(), mr.len(), missing, extra), rp);
                }
            }
            Err(pi) => {
                let rp = c.replay_of(fam, idx, ex(h));
                c.violation(&format!("panic:{}", pi.site()), &format!("panic in walk(): {}", pi.msg), rp);
            }
        }
        let reader = zone.read();
        for qn in &qnames {
            for &qt in &QTYPES {
                let (exp, facts) = lookup(&z, qn, qt);
                let res = ctx::catch(|| reader.query(qname_of(qn), Rtype::from_int(qt)));
                let ans = match res {
                    Ok(a) => a,
                    Err(pi) => {
                        let rp = c.replay_of(fam, idx, json!({"history": h.name(), "qname": hex(qn), "qtype": qt}));
                        c.violation(&format!("panic:{}", pi.site()), &format!("panic in query(): {}", pi.msg), rp);
                        continue;
                    }
                };
                c.evals_n(1);
                let fact_s = (facts.exact, facts.ent, facts.wildcard, facts.below_cut, facts.at_cut);
                c.sig(&(h.name(), exp.kind(), fact_s, qt == 255, qt == T_DS));
                c.count(&format!("expected_{}", exp.kind()), 1);
                let verdict: Result<(), (String, String)> = match (&exp, ans) {
                    (Shape::OutOfZone, Err(_)) => Ok(()),
                    (Shape::OutOfZone, Ok(_)) => Err(("answered".into(), "an out-of-zone name was answered".into())),
                    (_, Err(_)) => Err(("out-of-zone".into(), "an in-zone name was refused as out of zone".into())),
                    (_, Ok(a)) => match observe(&a, qn, qt) {
                        Ok(o) => matches(&z, qn, &exp, &o).map_err(|e| (obs_kind(&o).to_string(), e)),
                        Err(e) => Err(("unobservable".into(), e)),
                    },
                };
                if let Err((got, why)) = verdict {
                    let upd = matches!(h, Hist::UpdaterFull | Hist::WriteIface | Hist::Incremental | Hist::AbandonThenRedo);
                    let sig = if upd {
                        let ca = cause(&z, &prev, h, qn);
                        if ca == "other" { format!("zone-answer:{}:other:{}->{}", h.name(), exp.kind(), got) } else { format!("zone-answer:{}:{}", h.name(), ca) }
                    } else {
                        format!("zone-answer:{}:{}->{}{}", h.name(), exp.kind(), got, if facts.wildcard { ":wildcard" } else if facts.ent { ":ent" } else if facts.at_cut || facts.below_cut { ":cut" } else { "" })
                    };
                    let rp = c.replay_of(fam, idx, json!({"history": h.name(), "qname": hex(qn), "qtype": qt, "zone": ex(h)["zone"]}));
                    c.violation(&sig, &format!("zone built through {}: query {} type {} expected {} ({:?}) but got {}: {}", h.name(), w::name_text(qn), qt, exp.kind(), fact_s, got, why), rp);
                }
            }
        }
    }
    if c.want_sample() && idx % 13 == 3 {
        c.sample(json!({"zone": z.records().iter().take(8).map(|(o, t, ttl, _)| format!("{} {} TYPE{}", w::name_text(o), ttl, t)).collect::<Vec<_>>(), "queries": qnames.len() * QTYPES.len(), "histories": 7}));
    }
}


// ------------------------------------------------------------- zone sets ----

/// A `ZoneTree` is looked up before any zone is: after any sequence of insertions and removals it
/// holds exactly the zones that were inserted and not removed since, and `find_zone` gives the one
/// whose apex is the longest suffix of the query name (in the query's class) - a function of the
/// current set only.
fn zone_set_case(c: &mut Ctx, fam: &str, idx: u64) {
    use domain::zonetree::ZoneTree;
    let mut rng = c.case_rng(fam, idx);
    let labels: [&[u8]; 3] = [b"a", b"b", b"c"];
    let mk = |rng: &mut Rng| -> Vec<u8> {
        let depth = rng.below(5);
        let mut n = Vec::new();
        for _ in 0..depth {
            let l = *rng.pick(&labels);
            n.push(l.len() as u8);
            n.extend_from_slice(l);
        }
        n.extend_from_slice(if rng.chance(1, 6) { b"\x00" } else { b"\x04test\x00" });
        n
    };
    let classes = [Class::IN, Class::IN, Class::IN, Class::CH];
    let mut tree = ZoneTree::new();
    let mut model: BTreeSet<(u16, Vec<u8>)> = BTreeSet::new();
    let mut trace: Vec<String> = Vec::new();
    let nops = rng.range(4, 40);
    for _ in 0..nops {
        let apex = mk(&mut rng);
        let class = *rng.pick(&classes);
        let key = (class.to_int(), w::lower(&apex));
        let nm = Name::from_octets(Bytes::from(apex.clone())).unwrap();
        let insert = rng.chance(3, 5);
        let ex = |trace: &Vec<String>| json!({"ops": trace});
        let r = ctx::catch(|| {
            if insert {
                let z = ZoneBuilder::new(nm.clone(), class).build();
                (true, tree.insert_zone(z).is_ok())
            } else {
                (false, tree.remove_zone(&nm, class).is_ok())
            }
        });
        let (was_insert, ok) = match r {
            Ok(x) => x,
            Err(pi) => {
                c.violation(&format!("panic:{}", pi.site()), &format!("panic in ZoneTree: {} at {}:{}", pi.msg, pi.file, pi.line), c.replay_of(fam, idx, ex(&trace)));
                return;
            }
        };
        trace.push(format!("{} {} {} -> {}", if was_insert { "insert" } else { "remove" }, w::name_text(&apex), class, if ok { "ok" } else { "err" }));
        let present = model.contains(&key);
        if was_insert {
            if ok == present {
                c.violation(if ok { "zone-set:insert:second-zone-for-an-apex-accepted" } else { "zone-set:insert:refused" }, &format!("inserting a zone for {} (present before: {}) returned {}", w::name_text(&apex), present, if ok { "Ok" } else { "Err" }), c.replay_of(fam, idx, ex(&trace)));
                return;
            }
            model.insert(key.clone());
        } else {
            if present && !ok {
                c.violation("zone-set:remove:refused", &format!("removing the zone {} that is in the tree failed", w::name_text(&apex)), c.replay_of(fam, idx, ex(&trace)));
                return;
            }
            model.remove(&key);
        }
        // the tree against the model: every apex of the pool, queries at, below and beside them, the iterator
        let listed: BTreeSet<(u16, Vec<u8>)> = tree.iter_zones().map(|z| (z.class().to_int(), w::lower(z.apex_name().as_slice()))).collect();
        if listed != model {
            let lost: Vec<String> = model.difference(&listed).map(|k| w::name_text(&k.1)).collect();
            let extra: Vec<String> = listed.difference(&model).map(|k| w::name_text(&k.1)).collect();
            let sig = if !was_insert && !lost.is_empty() { "zone-set:remove:other-zones-gone" } else if !lost.is_empty() { "zone-set:zones-lost" } else { "zone-set:zones-left-behind" };
            c.violation(sig, &format!("after {:?} the tree lists other zones than were inserted and not removed: missing {:?}, unexpected {:?}", trace.last().unwrap(), lost, extra), c.replay_of(fam, idx, ex(&trace)));
            return;
        }
        for _ in 0..12 {
            let mut q = mk(&mut rng);
            if rng.chance(1, 3) {
                let mut p = vec![1, b'x'];
                p.extend_from_slice(&q);
                q = p;
            }
            if rng.chance(1, 4) {
                for b in q.iter_mut() {
                    if b.is_ascii_lowercase() && rng.bool() {
                        *b = b.to_ascii_uppercase();
                    }
                }
            }
            let qc = *rng.pick(&classes);
            let qn = Name::from_octets(Bytes::from(q.clone())).unwrap();
            // the longest apex that is a suffix of the query name
            let ql = w::lower(&q);
            let want: Option<Vec<u8>> = model.iter().filter(|k| k.0 == qc.to_int() && is_at_or_below(&ql, &k.1)).map(|k| k.1.clone()).max_by_key(|a| a.len());
            let got = tree.find_zone(&qn, qc).map(|z| w::lower(z.apex_name().as_slice()));
            if got != want {
                c.violation("zone-set:find_zone", &format!("find_zone({}, {}) gives {:?}, the zones in the tree make it {:?}", w::name_text(&q), qc, got.as_ref().map(|g| w::name_text(g)), want.as_ref().map(|g| w::name_text(g))), c.replay_of(fam, idx, ex(&trace)));
                return;
            }
            let got_exact = tree.get_zone(&qn, qc).map(|z| w::lower(z.apex_name().as_slice()));
            let want_exact = model.get(&(qc.to_int(), ql.clone())).map(|k| k.1.clone());
            if got_exact != want_exact {
                c.violation("zone-set:get_zone", &format!("get_zone({}) gives {:?}, expected {:?}", w::name_text(&q), got_exact.is_some(), want_exact.is_some()), c.replay_of(fam, idx, ex(&trace)));
                return;
            }
            c.count("zone_set_lookups", 1);
        }
        if !was_insert && present && model.iter().any(|k| k.0 == key.0) {
            c.count("zone_set_removals_with_relatives_left", 1);
        }
    }
    c.count("zone_set_cases", 1);
    c.eval(&("zone-set", model.len().min(8), nops / 8));
}

pub fn run(c: &mut Ctx) {
    let rt = tokio::runtime::Builder::new_current_thread().enable_all().build().expect("tokio runtime");
    c.families(2);
    let fam = "zone-set";
    let total = c.total(20_000, 2_000_000);
    for idx in c.cases(fam, total) {
        if c.out_of_time() {
            break;
        }
        zone_set_case(c, fam, idx);
    }
    let fam = "zones";
    let total = c.total(1_500, 150_000);
    for idx in c.cases(fam, total) {
        if c.out_of_time() {
            break;
        }
        ctx::slot_write(idx, "zones|zone", &[]);
        one_zone(c, &rt, fam, idx);
    }
    if !c.replaying() {
        c.floor("zone_set_lookups", 1000);
        c.floor("zone_set_removals_with_relatives_left", 10);
        for k in ["data", "cname", "nodata", "nxdomain", "referral", "out-of-zone"] {
            c.floor(&format!("expected_{}", k), 10);
        }
        for h in ["builder", "zonefile", "updater-replace", "write-interface", "updater-incremental", "abandon-then-redo", "abandon-then-other"] {
            c.floor(&format!("zones_{}", h), 10);
        }
    }
}
