//! C09 — zone readers see one committed version; commits are atomic; aborts
//! are invisible; writers are serialised; walk == the reader's version.
use crate::ctx::{self, Ctx};
use crate::refimpl::wire as w;
use crate::rng::Rng;
use crate::zlib::*;
use crate::zmodel::*;
use domain::base::iana::{Class, Rtype};
use domain::base::name::Label;
use domain::base::rdata::ComposeRecordData;
use domain::zonetree::types::StoredName;
use domain::zonetree::{AnswerContent, ReadableZone, Rrset, SharedRrset, WritableZone, WritableZoneNode, Zone, ZoneBuilder};
use serde_json::json;
use std::collections::{BTreeMap, BTreeSet};
use std::sync::atomic::{AtomicI32, AtomicU32, AtomicU64, Ordering};
use std::sync::{Arc, Mutex};

const APEX: &[u8] = b"\x07example\x00";
/// Owner names as label paths, leftmost label first: a, b.a, c.b.a, d, e.d (below the apex), so
/// that versioned items sit one, two and three levels below the apex.
const NAMES: [&[&[u8]]; 5] = [&[b"a"], &[b"b", b"a"], &[b"c", b"b", b"a"], &[b"d"], &[b"e", b"d"]];
const ABANDON_BASE: u32 = 1 << 30;

fn name_of(i: usize) -> Vec<u8> {
    nm(NAMES[i], APEX)
}

/// An address record every ancestor of a written name holds, so that no name on the way is
/// without RRsets of its own (the write path marks such names NXDOMAIN, a C08 finding that would
/// otherwise hide the names below from queries).
fn anchor_rrset() -> SharedRrset {
    let mut r = Rrset::new(Rtype::A, domain::base::Ttl::from_secs(5));
    r.push_data(sdata(T_A, &[192, 0, 2, 99]));
    SharedRrset::new(r)
}

/// The write node for name `n`, created label by label from the version's root node.
async fn descend(root: &dyn WritableZoneNode, n: usize) -> Result<Box<dyn WritableZoneNode>, std::io::Error> {
    let path = NAMES[n];
    let mut node = root.update_child(Label::from_slice(path[path.len() - 1]).unwrap()).await?;
    for l in path[..path.len() - 1].iter().rev() {
        node.update_rrset(anchor_rrset()).await?;
        node = node.update_child(Label::from_slice(l).unwrap()).await?;
    }
    Ok(node)
}

fn txt_rdata(stamp: u32) -> Vec<u8> {
    let s = format!("v{}", stamp);
    let mut v = vec![s.len() as u8];
    v.extend_from_slice(s.as_bytes());
    v
}

fn stamp_of(rd: &[u8]) -> Option<u32> {
    if rd.len() < 2 || rd[1] != b'v' {
        return None;
    }
    std::str::from_utf8(&rd[2..]).ok()?.parse().ok()
}

fn txt_rrset(stamp: u32) -> SharedRrset {
    let mut rs = Rrset::new(Rtype::TXT, domain::base::Ttl::from_secs(60));
    rs.push_data(sdata(T_TXT, &txt_rdata(stamp)));
    rs.into_shared()
}

/// Stamps a reader sees for one name (empty if no data).
fn query_stamps(r: &dyn ReadableZone, i: usize) -> Vec<u32> {
    match r.query(qname_of(&name_of(i)), Rtype::TXT) {
        Ok(a) => match a.content() {
            AnswerContent::Data(rr) => rr
                .data()
                .iter()
                .filter_map(|d| {
                    let mut b = Vec::new();
                    d.compose_rdata(&mut b).ok()?;
                    stamp_of(&b)
                })
                .collect(),
            _ => vec![],
        },
        Err(_) => vec![u32::MAX],
    }
}

/// (name index, stamp) of every TXT record walk() enumerates.
fn walk_stamps(r: &dyn ReadableZone) -> BTreeSet<(Vec<u8>, u32)> {
    let out: Arc<Mutex<BTreeSet<(Vec<u8>, u32)>>> = Arc::new(Mutex::new(BTreeSet::new()));
    let o2 = out.clone();
    r.walk(Box::new(move |owner: StoredName, rrset: &SharedRrset, _cut: bool| {
        if rrset.rtype() != Rtype::TXT {
            return;
        }
        for d in rrset.data() {
            let mut b = Vec::new();
            if d.compose_rdata(&mut b).is_ok() {
                if let Some(s) = stamp_of(&b) {
                    o2.lock().unwrap().insert((w::lower(owner.as_slice()), s));
                }
            }
        }
    }));
    let v = out.lock().unwrap().clone();
    v
}

/// H2: structural facts of the version bookkeeping at a quiescent point.
fn check_invariants(zone: &Zone, expect_current: Option<u32>) -> Result<(u32, usize), String> {
    let Some((cur, items)) = domain::zonetree::verif_inspect_zone(zone) else { return Err("zone is not an in-memory zone".into()) };
    if let Some(e) = expect_current {
        if e != cur {
            return Err(format!("current version is {} but {} commits were made", cur, e));
        }
    }
    for it in &items {
        let mut last: Option<u32> = None;
        for (v, _) in &it.versions {
            if let Some(l) = last {
                if *v <= l {
                    return Err(format!("versions of {} at {:?} are not strictly increasing: {:?}", it.what, it.path.iter().map(|l| String::from_utf8_lossy(l).to_string()).collect::<Vec<_>>(), it.versions));
                }
            }
            last = Some(*v);
            if *v > cur {
                return Err(format!("{} at {:?} has an entry of version {} although the current version is {} and no writer is open (left over from an abandoned writer?)", it.what, it.path.iter().map(|l| String::from_utf8_lossy(l).to_string()).collect::<Vec<_>>(), v, cur));
            }
        }
    }
    Ok((cur, items.len()))
}

// ------------------------------------------------ deterministic histories --

type Content = BTreeMap<usize, u32>; // name index -> stamp; SOA_KEY -> serial of the apex SOA
const SOA_KEY: usize = 1000;

fn query_soa(r: &dyn ReadableZone) -> Vec<u32> {
    match r.query(qname_of(APEX), Rtype::SOA) {
        Ok(a) => match a.content() {
            AnswerContent::Data(rr) => rr
                .data()
                .iter()
                .filter_map(|d| {
                    let mut b = Vec::new();
                    d.compose_rdata(&mut b).ok()?;
                    Some(u32::from_be_bytes(b[b.len() - 20..b.len() - 16].try_into().ok()?))
                })
                .collect(),
            _ => vec![],
        },
        Err(_) => vec![u32::MAX],
    }
}

/// The serial of the SOA a negative answer carries in its authority section (a type no name has is asked for), seen the
/// way a client sees it: through Answer::to_message and the reference reader. None: no SOA there.
fn negative_answer_soa(r: &dyn ReadableZone, i: usize) -> Option<u32> {
    let qn = name_of(i);
    let a = r.query(qname_of(&qn), Rtype::MX).ok()?;
    let o = observe(&a, &qn, 15).ok()?;
    if !o.answer.is_empty() {
        return None;
    }
    let soa = o.authority.iter().find(|x| x.1 == T_SOA)?;
    let rd = &soa.3;
    Some(u32::from_be_bytes(rd[rd.len() - 20..rd.len() - 16].try_into().ok()?))
}

#[derive(Debug, Clone)]
enum Op {
    Acquire(usize),
    Query(usize, usize),
    Walk(usize),
    Release(usize),
    WOpen(bool),
    WUpdate(usize),
    WRemove(usize),
    WRemoveAll,
    /// commit, with or without the automatic SOA serial bump; then either drop the writer or open it again
    /// straight away (the way ZoneUpdater goes from one batch of an incremental transfer to the next)
    WCommit(bool, bool),
    WAbandon,
    /// the writer goes away while its thread unwinds from a panic (of the application's, between its edits and its commit)
    WPanic,
    /// write access is asked for while the current writer is still at work: the future is made and polled once,
    /// and gets its turn when the writer is done
    WRequestNext,
}

fn history(c: &mut Ctx, rt: &tokio::runtime::Runtime, fam: &str, idx: u64) {
    let mut rng = c.case_rng(fam, idx);
    // initial content through the builder
    let mut init: Content = BTreeMap::new();
    let mut b = ZoneBuilder::new(sname(APEX), Class::IN);
    for i in 0..NAMES.len() {
        b.insert_rrset(&sname(&name_of(i)), anchor_rrset()).unwrap();
        if rng.bool() {
            init.insert(i, 0);
            b.insert_rrset(&sname(&name_of(i)), txt_rrset(0)).unwrap();
        }
    }
    if rng.chance(3, 4) {
        let serial = *rng.pick(&[5000u32, 0xffff_ffff, 0x7fff_ffff]);
        b.insert_rrset(&sname(APEX), shared_rrset(&RRset { name: APEX.to_vec(), rtype: T_SOA, ttl: 3600, rdatas: vec![rd_soa(APEX, serial)] })).unwrap();
        init.insert(SOA_KEY, serial);
    }
    let zone = b.build();
    let mut committed: Vec<Content> = vec![init];
    let mut readers: Vec<Option<(Box<dyn ReadableZone>, usize)>> = (0..3).map(|_| None).collect();
    let mut writer: Option<(Box<dyn WritableZone>, Box<dyn WritableZoneNode>, Content)> = None;
    let mut pending: Option<std::pin::Pin<Box<dyn std::future::Future<Output = Box<dyn WritableZone>> + Send + Sync>>> = None;
    let mut next_stamp = 1u32;
    let mut trace: Vec<String> = Vec::new();
    let nops = rng.range(8, 60);
    let mut sig_events: Vec<u8> = Vec::new();
    for _ in 0..nops {
        let op = match rng.below(20) {
            0..=2 => Op::Acquire(rng.below(3)),
            3..=6 => Op::Query(rng.below(3), rng.below(NAMES.len() + 1)),
            7 | 8 => Op::Walk(rng.below(3)),
            9 => Op::Release(rng.below(3)),
            10 | 11 => Op::WOpen(rng.bool()),
            12..=14 => Op::WUpdate(rng.below(NAMES.len())),
            15 | 16 => Op::WRemove(rng.below(NAMES.len())),
            17 => {
                if rng.chance(1, 3) { Op::WRemoveAll } else { Op::WCommit(rng.bool(), rng.chance(1, 3)) }
            }
            18 => Op::WCommit(rng.bool(), rng.chance(1, 3)),
            _ => match rng.below(4) {
                0 => Op::WPanic,
                1 => Op::WRequestNext,
                _ => Op::WAbandon,
            },
        };
        let ex = |trace: &Vec<String>| json!({"ops": trace});
        let r = ctx::catch(|| -> Result<(), (String, String)> {
            match op.clone() {
                Op::Acquire(i) => {
                    readers[i] = Some((zone.read(), committed.len() - 1));
                    trace.push(format!("R{} acquire (sees version {})", i, committed.len() - 1));
                    sig_events.push(if writer.is_some() { 1 } else { 0 });
                }
                Op::Query(i, n) => {
                    if let Some((r, pinned)) = &readers[i] {
                        let (got, key) = if n == NAMES.len() { (query_soa(r.as_ref()), SOA_KEY) } else { (query_stamps(r.as_ref(), n), n) };
                        let want: Vec<u32> = committed[*pinned].get(&key).map(|s| vec![*s]).unwrap_or_default();
                        trace.push(format!("R{} query {} -> {:?}", i, n, got));
                        c.count("reader_queries", 1);
                        if writer.is_some() || committed.len() - 1 > *pinned {
                            c.count("reader_queries_while_zone_moved_on", 1);
                        }
                        if got != want {
                            let kind = if got.iter().any(|s| *s >= ABANDON_BASE) { "abandoned-data-visible" } else if writer.is_some() { "sees-open-writer-or-other-version" } else { "sees-other-version" };
                            return Err((format!("snapshot:{}", kind), format!("reader pinned at version {} sees stamps {:?} for name {}, its version has {:?}", pinned, got, n, want)));
                        }
                        // what a negative answer says in its authority section is part of what the reader sees
                        if n < NAMES.len() {
                            if let Some(want_soa) = committed[*pinned].get(&SOA_KEY) {
                                if let Some(got_soa) = negative_answer_soa(r.as_ref(), n) {
                                    c.count("negative_answers_with_soa_checked", 1);
                                    if got_soa != *want_soa {
                                        return Err(("snapshot:negative-answer-soa-of-other-version".into(), format!("reader pinned at version {} (SOA serial {}) gets a negative answer for name {} whose authority section carries SOA serial {}", pinned, want_soa, n, got_soa)));
                                    }
                                }
                            }
                        }
                    }
                }
                Op::Walk(i) => {
                    if let Some((r, pinned)) = &readers[i] {
                        let got = walk_stamps(r.as_ref());
                        let want: BTreeSet<(Vec<u8>, u32)> = committed[*pinned].iter().filter(|(n, _)| **n != SOA_KEY).map(|(n, s)| (w::lower(&name_of(*n)), *s)).collect();
                        trace.push(format!("R{} walk -> {} records", i, got.len()));
                        c.count("reader_walks", 1);
                        if got != want {
                            return Err(("snapshot:walk-differs".into(), format!("walk of a reader pinned at version {} enumerates {:?}, its version has {:?}", pinned, got.iter().map(|x| x.1).collect::<Vec<_>>(), want.iter().map(|x| x.1).collect::<Vec<_>>())));
                        }
                    }
                }
                Op::Release(i) => {
                    readers[i] = None;
                    trace.push(format!("R{} release", i));
                }
                Op::WOpen(diff) => {
                    if writer.is_none() {
                        let wz = match pending.take() {
                            Some(f) => {
                                c.count("writers_that_asked_while_another_was_at_work", 1);
                                sig_events.push(7);
                                rt.block_on(f)
                            }
                            None => rt.block_on(zone.write()),
                        };
                        let node = rt.block_on(wz.open(diff)).map_err(|e| ("writer:open-failed".to_string(), e.to_string()))?;
                        writer = Some((wz, node, committed.last().unwrap().clone()));
                        trace.push(format!("W open (diff {})", diff));
                        sig_events.push(2);
                    }
                }
                Op::WUpdate(n) => {
                    if let Some((_, node, work)) = &mut writer {
                        let st = next_stamp;
                        next_stamp += 1;
                        let ch = rt.block_on(descend(node.as_ref(), n)).map_err(|e| ("writer:update_child".to_string(), e.to_string()))?;
                        rt.block_on(ch.update_rrset(txt_rrset(st))).map_err(|e| ("writer:update_rrset".to_string(), e.to_string()))?;
                        work.insert(n, st);
                        trace.push(format!("W update {} = v{}", n, st));
                    }
                }
                Op::WRemove(n) => {
                    if let Some((_, node, work)) = &mut writer {
                        let ch = rt.block_on(descend(node.as_ref(), n)).map_err(|e| ("writer:update_child".to_string(), e.to_string()))?;
                        rt.block_on(ch.remove_rrset(Rtype::TXT)).map_err(|e| ("writer:remove_rrset".to_string(), e.to_string()))?;
                        work.remove(&n);
                        trace.push(format!("W remove {}", n));
                    }
                }
                Op::WRemoveAll => {
                    if let Some((_, node, work)) = &mut writer {
                        rt.block_on(node.remove_all()).map_err(|e| ("writer:remove_all".to_string(), e.to_string()))?;
                        work.clear();
                        trace.push("W remove_all".into());
                    }
                }
                Op::WCommit(bump, reuse) => {
                    if let Some((mut wz, node, mut work)) = writer.take() {
                        drop(node);
                        // the automatic bump: the old SOA with its serial increased, unless the writer supplied a new SOA
                        if bump {
                            if let Some(old) = committed.last().unwrap().get(&SOA_KEY).copied() {
                                if work.get(&SOA_KEY).map(|s| *s == old).unwrap_or(true) {
                                    work.insert(SOA_KEY, old.wrapping_add(1));
                                }
                            }
                        }
                        rt.block_on(wz.commit(bump)).map_err(|e| ("writer:commit".to_string(), e.to_string()))?;
                        committed.push(work);
                        trace.push(format!("W commit(bump {}) -> version {}", bump, committed.len() - 1));
                        sig_events.push(3);
                        c.count("commits", 1);
                        check_invariants(&zone, Some((committed.len() - 1) as u32)).map_err(|e| ("invariant:after-commit".to_string(), e))?;
                        if reuse {
                            // the same writer goes on to the next version: nothing of it may show before its next commit
                            let node = rt.block_on(wz.open(!bump)).map_err(|e| ("writer:open-failed".to_string(), e.to_string()))?;
                            writer = Some((wz, node, committed.last().unwrap().clone()));
                            trace.push("W open again (same writer)".into());
                            sig_events.push(5);
                            c.count("writers_reopened_after_commit", 1);
                        } else {
                            drop(wz);
                        }
                    }
                }
                Op::WPanic => {
                    if let Some((wz, node, _)) = writer.take() {
                        // (resume_unwind does not run the panic hook: nothing is recorded as a panic of the library's)
                        let r = std::panic::catch_unwind(std::panic::AssertUnwindSafe(move || {
                            let _held = (node, wz);
                            std::panic::resume_unwind(Box::new("the application panics between its edits and its commit"));
                        }));
                        assert!(r.is_err());
                        trace.push("W lost to a panic of its task".into());
                        sig_events.push(6);
                        c.count("writers_lost_to_a_panic", 1);
                        check_invariants(&zone, Some((committed.len() - 1) as u32)).map_err(|e| ("invariant:after-abandon".to_string(), e))?;
                    }
                }
                Op::WRequestNext => {
                    if writer.is_some() && pending.is_none() {
                        let mut f = zone.write();
                        let wk = futures_util::task::noop_waker();
                        let mut cx = std::task::Context::from_waker(&wk);
                        if let std::task::Poll::Ready(_) = f.as_mut().poll(&mut cx) {
                            return Err(("writers:not-serialised".into(), "write access was granted while another writer was at work".into()));
                        }
                        pending = Some(f);
                        trace.push("W2 asks for write access (has to wait)".into());
                    }
                }
                Op::WAbandon => {
                    if let Some((wz, node, _)) = writer.take() {
                        drop(node);
                        drop(wz);
                        trace.push("W abandon".into());
                        sig_events.push(4);
                        c.count("abandoned_writers", 1);
                        check_invariants(&zone, Some((committed.len() - 1) as u32)).map_err(|e| ("invariant:after-abandon".to_string(), e))?;
                    }
                }
            }
            Ok(())
        });
        match r {
            Ok(Ok(())) => {}
            Ok(Err((sig, what))) => {
                let rp = c.replay_of(fam, idx, ex(&trace));
                c.violation(&sig, &format!("{} -- last ops: {:?}", what, trace.iter().rev().take(8).rev().collect::<Vec<_>>()), rp);
                return;
            }
            Err(pi) => {
                let rp = c.replay_of(fam, idx, ex(&trace));
                c.violation(&format!("panic:{}", pi.site()), &format!("panic in {:?}: {} at {}:{}", op, pi.msg, pi.file, pi.line), rp);
                return;
            }
        }
    }
    // a fresh reader at the end sees the last committed content
    drop(writer.take());
    drop(pending.take());
    let r = zone.read();
    let got = walk_stamps(r.as_ref());
    let want: BTreeSet<(Vec<u8>, u32)> = committed.last().unwrap().iter().filter(|(n, _)| **n != SOA_KEY).map(|(n, s)| (w::lower(&name_of(*n)), *s)).collect();
    if got != want {
        let rp = c.replay_of(fam, idx, json!({"ops": trace}));
        c.violation("snapshot:final-content", &format!("a reader acquired at the end sees {:?}, the last committed version has {:?}", got.iter().map(|x| x.1).collect::<Vec<_>>(), want.iter().map(|x| x.1).collect::<Vec<_>>()), rp);
    }
    c.eval(&sig_events);
    if c.want_sample() && idx % 19 == 4 {
        c.sample(json!({"family": "history", "ops": trace.iter().take(14).collect::<Vec<_>>()}));
    }
}

// ------------------------------------------------------------- stress ----

struct Shared {
    zone: Zone,
    started: AtomicU32,
    finished: AtomicU32,
    inside: AtomicI32,
    max_inside: AtomicI32,
    last_committed: AtomicU32,
    stop: AtomicU32,
    pause_ctr: AtomicU64,
    violations: Mutex<Vec<(String, String)>>,
    reads: AtomicU64,
    overlaps: AtomicU64,
    held_rechecks: AtomicU64,
    commits: AtomicU64,
    abandons: AtomicU64,
    ilv: Mutex<BTreeSet<(u32, u32, bool)>>,
}

fn install_pause(seed: u64, sh: &Arc<Shared>, miri: bool) {
    let sh2 = sh.clone();
    domain::verif_hooks::set_pause(Some(Box::new(move |site: &'static str| {
        let n = sh2.pause_ctr.fetch_add(1, Ordering::Relaxed);
        let h = crate::ctx::hash64(&(seed, n, site));
        match h % 8 {
            0 | 1 => std::thread::yield_now(),
            2 if !miri => std::thread::sleep(std::time::Duration::from_micros(20 + (h >> 8) % 200)),
            _ => {}
        }
    })));
}

async fn writer_task(sh: Arc<Shared>, id: u32, rounds: u32, seed: u64) {
    let mut rng = Rng::new(&[seed, id as u64, 99]);
    let mut abandon_ctr = 0u32;
    for _ in 0..rounds {
        if sh.stop.load(Ordering::Relaxed) != 0 {
            break;
        }
        let mut wz = sh.zone.write().await;
        let ins = sh.inside.fetch_add(1, Ordering::SeqCst) + 1;
        sh.max_inside.fetch_max(ins, Ordering::SeqCst);
        if ins > 1 {
            sh.violations.lock().unwrap().push(("writers:not-serialised".into(), format!("{} writers hold the zone's write access at the same time", ins)));
        }
        let node = match wz.open(rng.bool()).await {
            Ok(n) => n,
            Err(_) => {
                sh.inside.fetch_sub(1, Ordering::SeqCst);
                continue;
            }
        };
        let abandon = rng.chance(1, 3);
        let stamp = if abandon {
            abandon_ctr += 1;
            ABANDON_BASE + id * 1_000_000 + abandon_ctr
        } else {
            sh.last_committed.load(Ordering::SeqCst) + 1
        };
        // rewrite every name with the stamp of this version; sometimes remove and re-add in the same version
        let mut order: Vec<usize> = (0..NAMES.len()).collect();
        rng.shuffle(&mut order);
        for &n in &order {
            let ch = descend(node.as_ref(), n).await.unwrap();
            if rng.chance(1, 4) {
                let _ = ch.remove_rrset(Rtype::TXT).await;
                tokio::task::yield_now().await;
            }
            ch.update_rrset(txt_rrset(stamp)).await.unwrap();
            if rng.chance(1, 3) {
                tokio::task::yield_now().await;
            }
        }
        drop(node);
        if abandon {
            sh.inside.fetch_sub(1, Ordering::SeqCst);
            drop(wz);
            sh.abandons.fetch_add(1, Ordering::Relaxed);
        } else {
            sh.started.store(stamp, Ordering::SeqCst);
            let _ = wz.commit(false).await;
            sh.last_committed.store(stamp, Ordering::SeqCst);
            sh.finished.store(stamp, Ordering::SeqCst);
            sh.inside.fetch_sub(1, Ordering::SeqCst);
            drop(wz);
            sh.commits.fetch_add(1, Ordering::Relaxed);
        }
        tokio::task::yield_now().await;
    }
}

fn reader_thread(sh: Arc<Shared>, id: u32, seed: u64) {
    let mut rng = Rng::new(&[seed, id as u64, 7]);
    let mut held: Option<(Box<dyn ReadableZone>, u32)> = None;
    while sh.stop.load(Ordering::Relaxed) == 0 {
        let fb = sh.finished.load(Ordering::SeqCst);
        let writer_open_before = sh.inside.load(Ordering::SeqCst) > 0;
        let r = sh.zone.read();
        let sa = sh.started.load(Ordering::SeqCst);
        let mut stamps: BTreeSet<u32> = BTreeSet::new();
        let mut missing = 0;
        let mut order: Vec<usize> = (0..NAMES.len()).collect();
        rng.shuffle(&mut order);
        for &n in &order {
            let s = query_stamps(r.as_ref(), n);
            if s.is_empty() {
                missing += 1;
            }
            stamps.extend(s);
            if rng.chance(1, 4) {
                std::thread::yield_now();
            }
        }
        // the other query types go through code of their own: ANY and a type the name does not have
        let mut any_stamps: BTreeSet<u32> = BTreeSet::new();
        for &n in order.iter().take(2) {
            if let Ok(a) = r.query(qname_of(&name_of(n)), Rtype::ANY) {
                if let AnswerContent::Data(rr) = a.content() {
                    if rr.rtype() == Rtype::TXT {
                        for d in rr.data() {
                            let mut b = Vec::new();
                            if d.compose_rdata(&mut b).is_ok() {
                                any_stamps.extend(stamp_of(&b));
                            }
                        }
                    }
                }
            }
            let _ = r.query(qname_of(&name_of(n)), Rtype::MX);
        }
        let wk = walk_stamps(r.as_ref());
        let wstamps: BTreeSet<u32> = wk.iter().map(|x| x.1).collect();
        sh.reads.fetch_add(1, Ordering::Relaxed);
        if !any_stamps.is_subset(&stamps) {
            sh.violations.lock().unwrap().push(("snapshot:any-query-other-version".to_string(), format!("ANY queries of a reader saw stamps {:?}, its TXT queries {:?}", any_stamps, stamps)));
        }
        let mut bad = |sig: &str, what: String| sh.violations.lock().unwrap().push((sig.to_string(), what));
        if stamps.iter().chain(wstamps.iter()).any(|s| *s >= ABANDON_BASE && *s != u32::MAX) {
            bad("snapshot:abandoned-data-visible", format!("a reader saw the stamp of an abandoned writer: queries {:?} walk {:?}", stamps, wstamps));
        } else if stamps.len() != 1 || missing != 0 {
            bad("snapshot:mixed-versions", format!("one reader saw stamps {:?} ({} names without data) across its queries", stamps, missing));
        } else if wstamps != stamps || wk.len() != NAMES.len() {
            bad("snapshot:walk-differs", format!("walk saw stamps {:?} in {} records, queries saw {:?}", wstamps, wk.len(), stamps));
        } else {
            let v = *stamps.iter().next().unwrap();
            if v < fb || v > sa {
                bad("snapshot:version-not-current-at-acquisition", format!("reader sees version {} but {} was already finished before read() and only {} was started after it returned", v, fb, sa));
            }
            if sa > fb || writer_open_before {
                sh.overlaps.fetch_add(1, Ordering::Relaxed);
            }
            sh.ilv.lock().unwrap().insert(((v - fb.min(v)).min(3), (sa.max(v) - v).min(3), writer_open_before));
            // sometimes keep the reader and re-check it later
            if let Some((hr, hv)) = held.take() {
                let again: BTreeSet<u32> = (0..NAMES.len()).flat_map(|n| query_stamps(hr.as_ref(), n)).collect();
                let wagain: BTreeSet<u32> = walk_stamps(hr.as_ref()).iter().map(|x| x.1).collect();
                sh.held_rechecks.fetch_add(1, Ordering::Relaxed);
                if again.len() != 1 || *again.iter().next().unwrap() != hv || wagain != again {
                    bad("snapshot:held-reader-changed", format!("a reader held across commits first saw version {} and later {:?} (walk {:?})", hv, again, wagain));
                }
            }
            if rng.chance(1, 3) {
                held = Some((r, v));
                continue;
            }
        }
        drop(r);
    }
}

fn stress(c: &mut Ctx, round: u64, readers: u32, writers: u32, rounds: u32, worker_threads: usize, miri: bool) {
    let mut b = ZoneBuilder::new(sname(APEX), Class::IN);
    for i in 0..NAMES.len() {
        b.insert_rrset(&sname(&name_of(i)), anchor_rrset()).unwrap();
        b.insert_rrset(&sname(&name_of(i)), txt_rrset(0)).unwrap();
    }
    let sh = Arc::new(Shared {
        zone: b.build(),
        started: AtomicU32::new(0),
        finished: AtomicU32::new(0),
        inside: AtomicI32::new(0),
        max_inside: AtomicI32::new(0),
        last_committed: AtomicU32::new(0),
        stop: AtomicU32::new(0),
        pause_ctr: AtomicU64::new(0),
        violations: Mutex::new(Vec::new()),
        reads: AtomicU64::new(0),
        overlaps: AtomicU64::new(0),
        held_rechecks: AtomicU64::new(0),
        commits: AtomicU64::new(0),
        abandons: AtomicU64::new(0),
        ilv: Mutex::new(BTreeSet::new()),
    });
    install_pause(c.seed ^ round, &sh, miri);
    let rt = tokio::runtime::Builder::new_multi_thread().worker_threads(worker_threads).enable_all().build().expect("tokio runtime");
    let rthreads: Vec<_> = (0..readers)
        .map(|i| {
            let s = sh.clone();
            let seed = c.seed ^ round;
            std::thread::spawn(move || reader_thread(s, i, seed))
        })
        .collect();
    let seed = c.seed ^ round;
    // a stall monitor: no read, commit or abandon for 20 s of wall time during which the whole process used next to
    // no CPU time is a deadlock (threads blocked on each other burn nothing; a loaded machine still gives some progress)
    let stalled = rt.block_on(async {
        let hs: Vec<_> = (0..writers).map(|i| tokio::spawn(writer_task(sh.clone(), i, rounds, seed))).collect();
        let mut all = Box::pin(async move {
            for h in hs {
                let _ = h.await;
            }
        });
        let progress = |sh: &Shared| sh.reads.load(Ordering::Relaxed) + sh.commits.load(Ordering::Relaxed) + sh.abandons.load(Ordering::Relaxed);
        let mut last = progress(&sh);
        let mut since = std::time::Instant::now();
        let mut cpu_at = ctx::process_cpu_s();
        loop {
            tokio::select! {
                _ = &mut all => break false,
                _ = tokio::time::sleep(std::time::Duration::from_millis(500)) => {
                    ctx::beat();
                    let p = progress(&sh);
                    if p != last {
                        last = p;
                        since = std::time::Instant::now();
                        cpu_at = ctx::process_cpu_s();
                    } else if !miri && since.elapsed().as_secs_f64() > 20.0 {
                        if ctx::process_cpu_s() - cpu_at < 2.0 {
                            break true;
                        }
                        since = std::time::Instant::now();
                        cpu_at = ctx::process_cpu_s();
                    }
                }
            }
        }
    });
    sh.stop.store(1, Ordering::SeqCst);
    if stalled {
        // the threads are stuck for good: leave them behind, report, and run nothing further in this process
        domain::verif_hooks::set_pause(None);
        rt.shutdown_background();
        std::mem::forget(rthreads);
        let rp = c.replay_of("stress", round, json!({"readers": readers, "writers": writers, "rounds": rounds}));
        c.violation("deadlock:readers-and-writers", &format!("{} reader threads (TXT, ANY and MX queries, walks) and {} writers on one zone: no read, commit or abandon for 20 s while the process used no CPU time; {} reads, {} commits, {} abandons had been made", readers, writers, sh.reads.load(Ordering::Relaxed), sh.commits.load(Ordering::Relaxed), sh.abandons.load(Ordering::Relaxed)), rp);
        c.count("stress_deadlocked", 1);
        return;
    }
    for t in rthreads {
        let _ = t.join();
    }
    domain::verif_hooks::set_pause(None);
    // quiescent: structural invariants, final content
    if let Err(e) = check_invariants(&sh.zone, Some(sh.commits.load(Ordering::SeqCst) as u32)) {
        sh.violations.lock().unwrap().push(("invariant:after-stress".into(), e));
    }
    let fin = walk_stamps(sh.zone.read().as_ref());
    let lc = sh.last_committed.load(Ordering::SeqCst);
    if fin.len() != NAMES.len() || fin.iter().any(|x| x.1 != lc) {
        sh.violations.lock().unwrap().push(("snapshot:final-content".into(), format!("after all writers finished the zone holds {:?}, the last commit was {}", fin.iter().map(|x| x.1).collect::<Vec<_>>(), lc)));
    }
    if let Some(pi) = ctx::take_any_panic() {
        sh.violations.lock().unwrap().push((format!("panic:{}", pi.site()), format!("panic in a reader thread or writer task: {} at {}:{}", pi.msg, pi.file, pi.line)));
    }
    c.count("stress_reads", sh.reads.load(Ordering::Relaxed));
    c.count("stress_overlap_windows", sh.overlaps.load(Ordering::Relaxed));
    c.count("stress_held_reader_rechecks", sh.held_rechecks.load(Ordering::Relaxed));
    c.count("stress_commits", sh.commits.load(Ordering::Relaxed));
    c.count("stress_abandons", sh.abandons.load(Ordering::Relaxed));
    c.count("stress_pause_hits", sh.pause_ctr.load(Ordering::Relaxed));
    c.count("stress_max_writers_inside", sh.max_inside.load(Ordering::Relaxed) as u64);
    for s in sh.ilv.lock().unwrap().iter() {
        c.sig(&("ilv", *s));
    }
    c.evals_n(sh.reads.load(Ordering::Relaxed));
    let vs = sh.violations.lock().unwrap().clone();
    for (sig, what) in vs {
        let rp = c.replay_of("stress", round, json!({"readers": readers, "writers": writers, "rounds": rounds}));
        c.violation(&sig, &what, rp);
    }
    if c.want_sample() {
        c.sample(json!({"family": "stress", "reads": sh.reads.load(Ordering::Relaxed), "commits": sh.commits.load(Ordering::Relaxed), "abandons": sh.abandons.load(Ordering::Relaxed), "overlap_windows": sh.overlaps.load(Ordering::Relaxed), "interleaving_classes": sh.ilv.lock().unwrap().iter().map(|x| format!("{:?}", x)).collect::<Vec<_>>()}));
    }
}

/// One writer whose node interface is used from several threads at once (a zone loaded in parallel): every thread creates
/// the same, not yet existing, child names at the same moment and puts an RRset of a type of its own there. After the
/// commit every RRset that was written is there - for queries and for walk().
fn parallel_writer(c: &mut Ctx, round: u64, miri: bool) {
    let nthreads = 3usize;
    let labels: usize = if miri { 6 } else { 400 };
    let zone = {
        let mut b = ZoneBuilder::new(sname(APEX), Class::IN);
        b.insert_rrset(&sname(APEX), anchor_rrset()).unwrap();
        b.build()
    };
    let rt = tokio::runtime::Builder::new_current_thread().enable_all().build().expect("tokio runtime");
    let mut wz = rt.block_on(zone.write());
    let root: Arc<Box<dyn WritableZoneNode>> = match rt.block_on(wz.open(false)) {
        Ok(n) => Arc::new(n),
        Err(_) => return,
    };
    let types = [Rtype::TXT, Rtype::A, Rtype::AAAA];
    // a meeting point per name, with a time limit: a thread that is late (or gone) does not hold up the others for good
    let arrived = Arc::new(AtomicU64::new(0));
    let progress: Arc<Vec<AtomicU64>> = Arc::new((0..nthreads).map(|_| AtomicU64::new(0)).collect());
    let failed = Arc::new(AtomicU64::new(0));
    let hs: Vec<_> = (0..nthreads)
        .map(|t| {
            let root = root.clone();
            let arrived = arrived.clone();
            let progress = progress.clone();
            let failed = failed.clone();
            std::thread::spawn(move || {
                let rt = tokio::runtime::Builder::new_current_thread().build().expect("tokio runtime");
                for k in 0..labels {
                    let l = format!("p{}r{}", k, round);
                    let label = Label::from_slice(l.as_bytes()).unwrap();
                    let mut rs = Rrset::new(types[t], domain::base::Ttl::from_secs(60));
                    let rd: Vec<u8> = match t {
                        0 => txt_rdata(k as u32 + 1),
                        1 => vec![192, 0, 2, (k % 250) as u8],
                        _ => { let mut v = vec![0x20, 0x01, 0x0d, 0xb8]; v.extend_from_slice(&[0; 11]); v.push((k % 250) as u8); v }
                    };
                    rs.push_data(sdata(types[t].to_int(), &rd));
                    // all threads go for the same new name at the same moment
                    arrived.fetch_add(1, Ordering::SeqCst);
                    let t0 = std::time::Instant::now();
                    while arrived.load(Ordering::SeqCst) < ((k + 1) * nthreads) as u64 && t0.elapsed().as_millis() < 2000 {
                        std::hint::spin_loop();
                        if t0.elapsed().as_micros() > 300 {
                            // (a partner that is late is waited for without burning the CPU time the stall monitor goes by)
                            std::thread::sleep(std::time::Duration::from_micros(100));
                        }
                    }
                    progress[t].fetch_add(1, Ordering::Relaxed);
                    let r = rt.block_on(async {
                        let ch = root.update_child(label).await?;
                        ch.update_rrset(rs.into_shared()).await
                    });
                    if r.is_err() {
                        failed.fetch_add(1, Ordering::Relaxed);
                    }
                }
            })
        })
        .collect();
    // (threads blocked on each other burn nothing: no progress for 20 s while the process uses no CPU time is a deadlock)
    // (judged per thread: one that is not caught in the deadlock goes on alone, slowly, and must not hide the others)
    let snapshot = |pr: &Vec<AtomicU64>, hs: &Vec<std::thread::JoinHandle<()>>| -> Vec<(u64, bool)> { pr.iter().zip(hs.iter()).map(|(p, h)| (p.load(Ordering::Relaxed), h.is_finished())).collect() };
    let mut last = snapshot(&progress, &hs);
    let mut since = std::time::Instant::now();
    let mut cpu_at = ctx::process_cpu_s();
    while hs.iter().any(|h| !h.is_finished()) {
        std::thread::sleep(std::time::Duration::from_millis(50));
        ctx::beat();
        let now = snapshot(&progress, &hs);
        // every thread that is still at work has moved on since the window began: start a new window
        if now.iter().zip(last.iter()).all(|(n, l)| n.1 || n.0 != l.0) {
            last = now;
            since = std::time::Instant::now();
            cpu_at = ctx::process_cpu_s();
        } else if !miri && since.elapsed().as_secs_f64() > 20.0 {
            let p: u64 = now.iter().map(|x| x.0).sum();
            if ctx::process_cpu_s() - cpu_at < 4.0 {
                let rp = c.replay_of("parallel-writer", round, json!({"threads": nthreads, "names": labels}));
                c.violation("deadlock:parallel-writer", &format!("{} threads using one writer's node interface: no update for 20 s while the process used no CPU time; {} of {} updates had been made", nthreads, p, nthreads * labels), rp);
                c.count("stress_deadlocked", 1);
                std::mem::forget(hs);
                std::mem::forget(root);
                std::mem::forget(wz);
                return;
            }
            last = now;
            since = std::time::Instant::now();
            cpu_at = ctx::process_cpu_s();
        }
    }
    for h in hs {
        let _ = h.join();
    }
    drop(root);
    if rt.block_on(wz.commit(false)).is_err() {
        failed.fetch_add(1, Ordering::Relaxed);
    }
    drop(wz);
    let rp = c.replay_of("parallel-writer", round, json!({"threads": nthreads, "names": labels}));
    if let Some(pi) = ctx::take_any_panic() {
        c.violation(&format!("panic:{}", pi.site()), &format!("panic in a thread sharing one writer: {} at {}:{}", pi.msg, pi.file, pi.line), rp);
        return;
    }
    if failed.load(Ordering::Relaxed) > 0 {
        c.violation("parallel-writer:update-failed", "update_child / update_rrset / commit failed for a writer used from several threads", rp);
        return;
    }
    let r = zone.read();
    let mut missing = Vec::new();
    for k in 0..labels {
        let l = format!("p{}r{}", k, round);
        let mut qn = vec![l.len() as u8];
        qn.extend_from_slice(l.as_bytes());
        qn.extend_from_slice(APEX);
        for ty in types {
            let there = matches!(r.query(qname_of(&qn), ty).map(|a| matches!(a.content(), AnswerContent::Data(_))), Ok(true));
            if !there {
                missing.push(format!("{} {}", l, ty));
            }
        }
    }
    let walked = Arc::new(AtomicU64::new(0));
    let w2 = walked.clone();
    r.walk(Box::new(move |_o: StoredName, rr: &SharedRrset, _cut: bool| {
        if rr.rtype() == Rtype::TXT || rr.rtype() == Rtype::A || rr.rtype() == Rtype::AAAA {
            w2.fetch_add(1, Ordering::Relaxed);
        }
    }));
    c.evals_n((labels * nthreads) as u64);
    c.count("parallel_writer_rrsets_written", (labels * nthreads) as u64);
    if !missing.is_empty() {
        c.violation("parallel-writer:committed-rrset-missing", &format!("{} of the {} RRsets that {} threads wrote through one writer (each thread a type of its own, all threads creating the same new names at the same moment) are not there after the commit, e.g. {:?}", missing.len(), labels * nthreads, nthreads, &missing[..missing.len().min(4)]), rp);
    } else if walked.load(Ordering::Relaxed) != (labels * nthreads) as u64 + 1 {
        c.violation("parallel-writer:walk-differs", &format!("walk() enumerates {} address/text RRsets, {} were committed", walked.load(Ordering::Relaxed), labels * nthreads + 1), rp);
    }
}

pub fn run(c: &mut Ctx) {
    let miri = c.mode == "miri";
    let tsan = c.mode == "tsan";
    if !miri && !tsan {
        let rt = tokio::runtime::Builder::new_current_thread().enable_all().build().expect("tokio runtime");
        let fam = "history";
        let total = c.total(20_000, 20_000_000);
        for idx in c.cases(fam, total) {
            if c.out_of_time() {
                break;
            }
            history(c, &rt, fam, idx);
        }
    }
    // real threads: each shard runs its own zone(s)
    let (rounds_n, readers, writers, rounds, workers) = if miri {
        (c.total(1, 3), 2u32, 2u32, 3u32, 2usize)
    } else if tsan {
        (c.total(2, 300), 4, 2, 60, 2)
    } else {
        (c.total(3, 600), 3, 2, 400, 2)
    };
    for round in 0..rounds_n {
        if c.replaying() || c.out_of_time() || c.get_count("stress_deadlocked") > 0 {
            break;
        }
        parallel_writer(c, round * 1000 + c.shard, miri);
        stress(c, round * 1000 + c.shard, readers, writers, rounds, workers, miri);
    }
    if !c.replaying() && !miri && !tsan {
        c.floor("reader_queries_while_zone_moved_on", 100);
        c.floor("abandoned_writers", 100);
        c.floor("commits", 100);
        c.floor("writers_reopened_after_commit", 100);
        c.floor("writers_lost_to_a_panic", 50);
        c.floor("negative_answers_with_soa_checked", 100);
        c.floor("writers_that_asked_while_another_was_at_work", 50);
        c.floor("stress_overlap_windows", 10);
        c.floor("stress_abandons", 10);
        c.floor("stress_commits", 10);
        c.floor("stress_held_reader_rechecks", 10);
    }
}
