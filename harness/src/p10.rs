//! C10 — zone transfers reproduce the sender's zone; bad streams are rejected cleanly.
use crate::ctx::{self, hex, Ctx};
use crate::refimpl::wire as w;
use crate::rng::Rng;
use crate::zlib::*;
use crate::zmodel::*;
use bytes::Bytes;
use domain::base::iana::{Class, Rtype};
use domain::base::message::Message;
use domain::base::message_builder::MessageBuilder;
use domain::base::name::{Label, Name, ParsedName};
use domain::base::record::Record;
use domain::base::wire::ParseError;
use domain::base::{Serial, Ttl};
use domain::net::server::message::{NonUdpTransportContext, Request, TransportSpecificContext, UdpTransportContext};
use domain::net::server::middleware::xfr::{XfrData, XfrDataProvider, XfrDataProviderError, XfrMiddlewareSvc};
use domain::net::server::service::{Service, ServiceError, ServiceResult};
use domain::net::xfr::protocol::XfrResponseInterpreter;
use domain::rdata::{Soa, ZoneRecordData};
use domain::zonetree::types::ZoneUpdate;
use domain::zonetree::update::ZoneUpdater;
use domain::zonetree::{InMemoryZoneDiff, Zone, ZoneBuilder};
use futures_util::stream::{once, Once, StreamExt};
use serde_json::json;
use std::collections::{BTreeMap, BTreeSet};
use std::future::{ready, Future, Ready};
use std::pin::Pin;
use std::sync::Arc;

const T_AXFR: u16 = 252;
const T_IXFR: u16 = 251;

/// (owner lower-cased, type, ttl, uncompressed rdata)
pub type Rec = (Vec<u8>, u16, u32, Vec<u8>);
pub type Content = BTreeSet<Rec>;

/// A record on the wire.
#[derive(Clone, Debug, PartialEq, Eq)]
pub struct WRec {
    pub owner: Vec<u8>,
    pub rtype: u16,
    pub ttl: u32,
    pub rdata: Vec<u8>,
}

fn content(z: &ZoneC) -> Content {
    z.records().into_iter().map(|(o, t, ttl, d)| (w::lower(&o), t, ttl, norm(t, &d))).collect()
}

/// RDATA with embedded domain names lower-cased: names compare case-insensitively, and a
/// compressing sender may legitimately point at a differently spelled earlier occurrence.
fn norm(t: u16, rd: &[u8]) -> Vec<u8> {
    match t {
        T_NS | T_CNAME => w::lower(rd),
        T_MX if rd.len() > 2 => {
            let mut v = rd[..2].to_vec();
            v.extend(w::lower(&rd[2..]));
            v
        }
        T_SOA => rdata_lc(T_SOA, rd),
        _ => rd.to_vec(),
    }
}

fn soa_of(z: &ZoneC) -> WRec {
    let s = z.get(&z.apex, T_SOA).unwrap();
    WRec { owner: s.name.clone(), rtype: T_SOA, ttl: s.ttl, rdata: s.rdatas[0].clone() }
}

fn serial_of_rdata(rd: &[u8]) -> u32 {
    u32::from_be_bytes(rd[rd.len() - 20..rd.len() - 16].try_into().unwrap())
}

fn rdata_lc(t: u16, rd: &[u8]) -> Vec<u8> {
    // embedded names of SOA lower-cased for the "same SOA" comparison
    if t != T_SOA {
        return rd.to_vec();
    }
    let mut p = 0;
    let mut out = Vec::new();
    for _ in 0..2 {
        let start = p;
        while rd[p] != 0 {
            p += 1 + rd[p] as usize;
        }
        p += 1;
        out.extend(w::lower(&rd[start..p]));
    }
    out.extend_from_slice(&rd[p..]);
    out
}

// ------------------------------------------------------- version chains ----

fn set_serial(z: &mut ZoneC, serial: u32) {
    let apex = z.apex.clone();
    let ttl = z.get(&apex, T_SOA).map(|s| s.ttl).unwrap_or(3600);
    z.insert(RRset { name: apex.clone(), rtype: T_SOA, ttl, rdatas: vec![rd_soa(&apex, serial)] });
}

fn compatible(z: &ZoneC, r: &RRset) -> bool {
    let here = z.types_at(&r.name);
    if z.is_apex(&r.name) {
        return !matches!(r.rtype, T_SOA | T_CNAME | T_DS);
    }
    if r.rtype == T_CNAME {
        return here.is_empty() || here == vec![T_CNAME];
    }
    if here.contains(&T_CNAME) {
        return false;
    }
    if matches!(r.rtype, T_NS | T_DS) {
        return here.iter().all(|t| matches!(*t, T_A | T_AAAA | T_NS | T_DS));
    }
    if here.contains(&T_NS) {
        return matches!(r.rtype, T_A | T_AAAA);
    }
    true
}

/// Next version: a few RRsets removed, replaced, extended or added.
fn next_version(rng: &mut Rng, z: &ZoneC, serial: u32) -> ZoneC {
    let mut n = z.clone();
    let donor = gen_zone(rng, serial);
    let edits = rng.range(0, 6);
    for _ in 0..edits {
        match rng.below(4) {
            0 => {
                // remove an RRset (never apex SOA/NS)
                let keys: Vec<_> = n.rrsets.keys().filter(|k| !(n.is_apex(&k.0) && matches!(k.1, T_SOA | T_NS))).cloned().collect();
                if !keys.is_empty() {
                    let k = rng.pick(&keys).clone();
                    n.rrsets.remove(&k);
                    // a DS without NS makes no sense
                    if k.1 == T_NS {
                        n.rrsets.remove(&(k.0.clone(), T_DS));
                    }
                }
            }
            1 => {
                // change TTL or drop one record of a multi-record RRset
                let keys: Vec<_> = n.rrsets.keys().filter(|k| k.1 != T_SOA).cloned().collect();
                if !keys.is_empty() {
                    let k = rng.pick(&keys).clone();
                    let r = n.rrsets.get_mut(&k).unwrap();
                    if r.rdatas.len() > 1 && rng.bool() {
                        let i = rng.below(r.rdatas.len());
                        r.rdatas.remove(i);
                    } else {
                        r.ttl = r.ttl % 900 + 100 * rng.range(1, 9) as u32;
                    }
                }
            }
            _ => {
                // take an RRset from the donor zone (new name, new type at a name, or new data for an RRset)
                let ks: Vec<_> = donor.rrsets.values().filter(|r| r.rtype != T_SOA).cloned().collect();
                if !ks.is_empty() {
                    let r = rng.pick(&ks).clone();
                    if n.get(&r.name, r.rtype).is_some() || compatible(&n, &r) {
                        if let Some(old) = n.get(&r.name, r.rtype).cloned() {
                            if rng.bool() {
                                // extend the existing RRset
                                let mut m = old.clone();
                                for d in &r.rdatas {
                                    if !m.rdatas.contains(d) {
                                        m.rdatas.push(d.clone());
                                    }
                                }
                                m.rdatas.sort();
                                n.insert(m);
                                continue;
                            }
                        }
                        if r.rtype == T_DS && n.get(&r.name, T_NS).is_none() {
                            continue;
                        }
                        n.insert(r);
                    }
                }
            }
        }
    }
    set_serial(&mut n, serial);
    n
}

// ----------------------------------------------------------- reference ----

#[derive(Debug, Clone, PartialEq, Eq)]
pub enum Verdict {
    Valid,
    Invalid(&'static str),
    Unspecified(&'static str),
}

#[derive(Debug, Clone)]
pub struct RefOut {
    /// complete versions in the order in which they become current
    pub states: Vec<Content>,
    pub finished: bool,
    pub verdict: Verdict,
    pub axfr_style: bool,
    /// a record met an RRset with another TTL: contents are not pinned down from there on
    pub ttl_clash: bool,
}

/// Does applying this record meet an RRset whose TTL differs from the record's (RFC 2181 5.2 leaves the outcome open)?
fn ttl_clash(cur: &Content, r: &WRec) -> bool {
    let o = w::lower(&r.owner);
    cur.iter().any(|c| c.0 == o && c.1 == r.rtype && c.2 != r.ttl)
}

fn apply_del(cur: &mut Content, r: &WRec) {
    let o = w::lower(&r.owner);
    let rd = norm(r.rtype, &r.rdata);
    let victims: Vec<Rec> = cur.iter().filter(|c| c.0 == o && c.1 == r.rtype && c.3 == rd).cloned().collect();
    for v in victims {
        cur.remove(&v);
    }
}

fn apply_add(cur: &mut Content, r: &WRec) {
    let o = w::lower(&r.owner);
    // the RRset takes the TTL of the record added last
    let same: Vec<Rec> = cur.iter().filter(|c| c.0 == o && c.1 == r.rtype).cloned().collect();
    for v in same {
        cur.remove(&v);
        cur.insert((v.0, v.1, r.ttl, v.3));
    }
    cur.insert((o, r.rtype, r.ttl, norm(r.rtype, &r.rdata)));
}

fn set_soa(cur: &mut Content, apex_lc: &[u8], r: &WRec) {
    let old: Vec<Rec> = cur.iter().filter(|c| c.0 == apex_lc && c.1 == T_SOA).cloned().collect();
    for v in old {
        cur.remove(&v);
    }
    cur.insert((apex_lc.to_vec(), T_SOA, r.ttl, norm(T_SOA, &r.rdata)));
}

/// RFC 5936 §2.2 / RFC 1995 §4 framing applied to a flat record sequence.
pub fn ref_run(qtype: u16, recs: &[WRec], pre: &Content, apex: &[u8]) -> RefOut {
    let apex_lc = w::lower(apex);
    let mut out = RefOut { states: vec![], finished: false, verdict: Verdict::Valid, axfr_style: qtype == T_AXFR, ttl_clash: false };
    if recs.is_empty() {
        out.verdict = Verdict::Invalid("no-records");
        return out;
    }
    if recs[0].rtype != T_SOA {
        out.verdict = Verdict::Invalid("first-record-not-soa");
        return out;
    }
    let first = rdata_lc(T_SOA, &recs[0].rdata);
    let is_first = |r: &WRec| r.rtype == T_SOA && rdata_lc(T_SOA, &r.rdata) == first;
    let axfr = qtype == T_AXFR || (recs.len() >= 2 && recs[1].rtype != T_SOA);
    out.axfr_style = axfr;
    if recs.len() == 1 {
        out.verdict = if qtype == T_IXFR { Verdict::Unspecified("single-soa") } else { Verdict::Valid };
        return out;
    }
    if axfr {
        let mut cur = Content::new();
        for (i, r) in recs.iter().enumerate().skip(1) {
            if is_first(r) {
                set_soa(&mut cur, &apex_lc, r);
                out.states.push(cur.clone());
                out.finished = true;
                if i + 1 < recs.len() {
                    out.verdict = Verdict::Unspecified("records-after-final-soa");
                }
                return out;
            }
            if r.rtype == T_SOA {
                out.verdict = Verdict::Unspecified("other-soa-inside-axfr");
            }
            if !is_at_or_below(&r.owner, apex) {
                out.verdict = Verdict::Invalid("record-outside-zone");
            }
            if ttl_clash(&cur, r) {
                out.ttl_clash = true;
                if out.verdict == Verdict::Valid {
                    out.verdict = Verdict::Unspecified("ttl-differs-within-rrset");
                }
            }
            apply_add(&mut cur, r);
        }
        return out;
    }
    // incremental
    let mut cur = pre.clone();
    let pre_serial = pre.iter().find(|c| c.0 == apex_lc && c.1 == T_SOA).map(|c| serial_of_rdata(&c.3));
    let mut i = 1;
    let mut last_new: Option<u32> = None;
    loop {
        if i >= recs.len() {
            return out; // unfinished
        }
        // at a boundary: either the closing SOA or the old SOA of the next difference sequence
        let r = &recs[i];
        if r.rtype != T_SOA {
            // cannot happen: boundaries are only entered at SOA records
            out.verdict = Verdict::Invalid("internal");
            return out;
        }
        if is_first(r) {
            set_soa(&mut cur, &apex_lc, r);
            if out.states.last() != Some(&cur) {
                out.states.push(cur.clone());
            }
            out.finished = true;
            if i + 1 < recs.len() {
                out.verdict = Verdict::Unspecified("records-after-final-soa");
            }
            if let Some(n) = last_new {
                if n != serial_of_rdata(&recs[0].rdata) && out.verdict == Verdict::Valid {
                    out.verdict = Verdict::Unspecified("last-difference-does-not-reach-current-serial");
                }
            }
            return out;
        }
        // old SOA
        let old_serial = serial_of_rdata(&r.rdata);
        let expect = last_new.or(pre_serial);
        if expect != Some(old_serial) && out.verdict == Verdict::Valid {
            out.verdict = Verdict::Unspecified("difference-sequence-does-not-start-at-current-serial");
        }
        if i > 1 {
            // the previous difference sequence is complete and becomes current here
            out.states.push(cur.clone());
        }
        i += 1;
        while i < recs.len() && recs[i].rtype != T_SOA {
            if !is_at_or_below(&recs[i].owner, apex) {
                out.verdict = Verdict::Invalid("record-outside-zone");
            }
            if ttl_clash(&cur, &recs[i]) {
                out.ttl_clash = true;
                if out.verdict == Verdict::Valid {
                    out.verdict = Verdict::Unspecified("ttl-differs-within-rrset");
                }
            }
            apply_del(&mut cur, &recs[i]);
            i += 1;
        }
        if i >= recs.len() {
            return out;
        }
        // new SOA
        set_soa(&mut cur, &apex_lc, &recs[i]);
        last_new = Some(serial_of_rdata(&recs[i].rdata));
        i += 1;
        while i < recs.len() && recs[i].rtype != T_SOA {
            if !is_at_or_below(&recs[i].owner, apex) {
                out.verdict = Verdict::Invalid("record-outside-zone");
            }
            if ttl_clash(&cur, &recs[i]) {
                out.ttl_clash = true;
                if out.verdict == Verdict::Valid {
                    out.verdict = Verdict::Unspecified("ttl-differs-within-rrset");
                }
            }
            apply_add(&mut cur, &recs[i]);
            i += 1;
        }
    }
}

/// The sequence a correct sender emits for a full transfer of `z`.
fn axfr_seq(rng: &mut Rng, z: &ZoneC) -> Vec<WRec> {
    let soa = soa_of(z);
    let mut body: Vec<WRec> = z.records().into_iter().filter(|r| r.1 != T_SOA).map(|(o, t, ttl, d)| WRec { owner: o, rtype: t, ttl, rdata: d }).collect();
    rng.shuffle(&mut body);
    let mut v = vec![soa.clone()];
    v.extend(body);
    v.push(soa);
    v
}

/// ... and for an incremental transfer along `vs`.
fn ixfr_seq(rng: &mut Rng, vs: &[ZoneC]) -> Vec<WRec> {
    let last = soa_of(vs.last().unwrap());
    let mut v = vec![last.clone()];
    for pair in vs.windows(2) {
        let (a, b) = (content(&pair[0]), content(&pair[1]));
        let spelled = |z: &ZoneC, r: &Rec| WRec { owner: z.get(&r.0, r.1).map(|x| x.name.clone()).unwrap_or(r.0.clone()), rtype: r.1, ttl: r.2, rdata: r.3.clone() };
        let mut dels: Vec<WRec> = a.difference(&b).filter(|r| r.1 != T_SOA).map(|r| spelled(&pair[0], r)).collect();
        let mut adds: Vec<WRec> = b.difference(&a).filter(|r| r.1 != T_SOA).map(|r| spelled(&pair[1], r)).collect();
        rng.shuffle(&mut dels);
        rng.shuffle(&mut adds);
        v.push(soa_of(&pair[0]));
        v.extend(dels);
        v.push(soa_of(&pair[1]));
        v.extend(adds);
    }
    v.push(last);
    v
}

// ------------------------------------------------------------ packaging ----

#[derive(Clone, Debug)]
pub struct Packaging {
    pub splits: Vec<usize>, // message i carries recs[splits[i-1]..splits[i]]
    pub question_in_followups: bool,
    pub compress: bool,
}

fn question_wire(apex: &[u8], qtype: u16) -> Vec<u8> {
    let mut q = apex.to_vec();
    q.extend_from_slice(&qtype.to_be_bytes());
    q.extend_from_slice(&1u16.to_be_bytes());
    q
}

fn pack(recs: &[WRec], apex: &[u8], qtype: u16, id: u16, p: &Packaging) -> Vec<Vec<u8>> {
    let mut msgs = Vec::new();
    let mut start = 0;
    for (mi, end) in p.splits.iter().enumerate() {
        let part = &recs[start..*end];
        start = *end;
        let with_q = mi == 0 || p.question_in_followups;
        if p.compress {
            let mut mb = MessageBuilder::from_target(domain::base::message_builder::StaticCompressor::new(Vec::new())).unwrap();
            mb.header_mut().set_id(id);
            mb.header_mut().set_qr(true);
            mb.header_mut().set_aa(true);
            let mut qb = mb.question();
            if with_q {
                qb.push((sname(apex), Rtype::from_int(qtype))).unwrap();
            }
            let mut ab = qb.answer();
            for r in part {
                ab.push(srecord(&r.owner, r.rtype, r.ttl, &r.rdata)).unwrap();
            }
            msgs.push(ab.finish().into_target());
        } else {
            let mut m = w::header(id, 0x8400, [with_q as u16, part.len() as u16, 0, 0]);
            if with_q {
                m.extend(question_wire(apex, qtype));
            }
            for r in part {
                m.extend(w::compose_record(&r.owner, r.rtype, 1, r.ttl, &r.rdata));
            }
            msgs.push(m);
        }
    }
    msgs
}

fn gen_packaging(rng: &mut Rng, n: usize, qtype: u16) -> Packaging {
    let mut splits: Vec<usize> = match rng.below(6) {
        0 => vec![],                 // everything in one message
        1 => (1..n).collect(),       // one record per message
        2 => vec![1],                // first SOA alone
        3 => vec![n - 1],            // last SOA alone
        _ => (1..n).filter(|_| rng.chance(1, 4)).collect(),
    };
    splits.retain(|s| *s > 0 && *s < n);
    if qtype == T_IXFR && splits.first() == Some(&1) && !rng.chance(1, 8) {
        // a first message with nothing but the SOA is a special case of its own for IXFR
        splits.remove(0);
    }
    splits.dedup();
    splits.push(n);
    Packaging { splits, question_in_followups: rng.bool(), compress: rng.chance(1, 3) }
}

fn flatten(msgs: &[Vec<u8>]) -> Option<Vec<WRec>> {
    let mut v = Vec::new();
    for m in msgs {
        let pm = w::parse_message(m).ok()?;
        for r in pm.records.iter().filter(|r| r.section == 1) {
            v.push(WRec { owner: r.owner.clone(), rtype: r.rtype, ttl: r.ttl, rdata: r.rdata.clone()? });
        }
    }
    Some(v)
}

// -------------------------------------------------------------- faults ----

#[derive(Clone, Debug)]
pub struct Fault {
    pub kind: &'static str,
    /// the RFC makes rejection mandatory
    pub must_reject: bool,
}

/// Apply one fault to a packaged stream; returns None when it does not apply.
fn inject(rng: &mut Rng, msgs: &mut Vec<Vec<u8>>, recs: &[WRec], apex: &[u8], qtype: u16, id: u16) -> Option<Fault> {
    let n = msgs.len();
    let i = rng.below(n);
    let flip = |m: &mut Vec<u8>, byte: usize, mask: u8| m[byte] ^= mask;
    let f = match rng.below(17) {
        0 => {
            msgs.remove(i);
            Fault { kind: "drop-message", must_reject: false }
        }
        1 => {
            let m = msgs[i].clone();
            msgs.insert(i, m);
            Fault { kind: "duplicate-message", must_reject: false }
        }
        2 if n >= 2 => {
            let j = (i + 1 + rng.below(n - 1)) % n;
            msgs.swap(i, j);
            Fault { kind: "reorder-messages", must_reject: false }
        }
        3 => {
            let l = msgs[i].len();
            let cut = rng.range(0, l - 1);
            msgs[i].truncate(cut);
            Fault { kind: "truncate-message", must_reject: true }
        }
        4 => {
            flip(&mut msgs[i], 2, 0x80);
            Fault { kind: "qr-clear", must_reject: true }
        }
        5 => {
            let op = rng.range(1, 15) as u8;
            msgs[i][2] = (msgs[i][2] & 0x87) | (op << 3);
            Fault { kind: "opcode", must_reject: true }
        }
        6 => {
            let rc = rng.range(1, 15) as u8;
            msgs[i][3] = (msgs[i][3] & 0xf0) | rc;
            Fault { kind: "rcode", must_reject: true }
        }
        7 => {
            flip(&mut msgs[i], 2, 0x02);
            Fault { kind: "tc-set", must_reject: true }
        }
        8 => {
            // wrong question type in the first message
            let qt = *rng.pick(&[1u16, 6, 255, 250, 253]);
            let p = 12 + apex.len();
            msgs[0][p..p + 2].copy_from_slice(&qt.to_be_bytes());
            Fault { kind: "question-type", must_reject: true }
        }
        9 => {
            // wrong question name (same length) or class in the first message
            if rng.bool() {
                msgs[0][13] ^= 0x01;
                Fault { kind: "question-name", must_reject: true }
            } else {
                let p = 12 + apex.len() + 2;
                msgs[0][p + 1] ^= 0x02;
                Fault { kind: "question-class", must_reject: true }
            }
        }
        10 => {
            // first message without a question
            let part_end = 12 + apex.len() + 4;
            let mut m = msgs[0][..12].to_vec();
            m[4] = 0;
            m[5] = 0;
            m.extend_from_slice(&msgs[0][part_end..]);
            if w::parse_message(&m).is_err() {
                return None; // compressed answers pointed into the question
            }
            msgs[0] = m;
            Fault { kind: "first-message-without-question", must_reject: true }
        }
        11 => {
            // the records counted as authority instead of answer
            let an = [msgs[i][6], msgs[i][7]];
            msgs[i][6] = 0;
            msgs[i][7] = 0;
            msgs[i][8] = an[0];
            msgs[i][9] = an[1];
            Fault { kind: "records-in-authority", must_reject: true }
        }
        12 => {
            // final SOA missing
            let seq = &recs[..recs.len() - 1];
            let p = Packaging { splits: vec![seq.len()], question_in_followups: false, compress: false };
            *msgs = pack(seq, apex, qtype, id, &p);
            Fault { kind: "final-soa-missing", must_reject: true }
        }
        13 => {
            // final SOA with another serial
            let mut seq = recs.to_vec();
            let l = seq.len() - 1;
            let rl = seq[l].rdata.len();
            // the serial, or a field a careless comparison would not look at
            let (off, kind) = *rng.pick(&[(17usize, "final-soa-differs"), (13, "final-soa-differs-in-refresh"), (5, "final-soa-differs-in-expire"), (1, "final-soa-differs-in-minimum")]);
            seq[l].rdata[rl - off] ^= 0x40;
            let p = Packaging { splits: vec![seq.len()], question_in_followups: false, compress: false };
            *msgs = pack(&seq, apex, qtype, id, &p);
            Fault { kind, must_reject: true }
        }
        14 => {
            // first record is not the SOA
            let mut seq = recs.to_vec();
            seq.remove(0);
            if seq.is_empty() || seq[0].rtype == T_SOA {
                return None;
            }
            let p = Packaging { splits: vec![seq.len()], question_in_followups: false, compress: false };
            *msgs = pack(&seq, apex, qtype, id, &p);
            Fault { kind: "initial-soa-missing", must_reject: true }
        }
        15 if qtype == T_IXFR => {
            // drop one of the inner SOA records of an incremental transfer
            let inner: Vec<usize> = (1..recs.len() - 1).filter(|k| recs[*k].rtype == T_SOA).collect();
            if inner.len() < 2 {
                return None;
            }
            let k = *rng.pick(&inner);
            let mut seq = recs.to_vec();
            seq.remove(k);
            let p = gen_packaging(rng, seq.len(), qtype);
            *msgs = pack(&seq, apex, qtype, id, &p);
            Fault { kind: "ixfr-inner-soa-missing", must_reject: false }
        }
        16 => {
            // a record outside the zone
            let mut seq = recs.to_vec();
            let k = rng.range(1, seq.len() - 1);
            seq.insert(k, WRec { owner: b"\x05other\x00".to_vec(), rtype: T_A, ttl: 5, rdata: vec![10, 0, 0, 1] });
            let p = gen_packaging(rng, seq.len(), qtype);
            *msgs = pack(&seq, apex, qtype, id, &p);
            Fault { kind: "record-outside-zone", must_reject: true }
        }
        _ => return None,
    };
    Some(f)
}

// ------------------------------------------------------------ receiving ----

#[derive(Debug, Default)]
pub struct Recv {
    pub accepted: bool,
    pub error: Option<String>,
    pub panic: Option<ctx::PanicInfo>,
    /// distinct contents readers could see, in order
    pub seen: Vec<Vec<Rec>>,
    pub updates: usize,
    pub diffs: Vec<InMemoryZoneDiff>,
    /// the message the receiving side stopped at (0-based), and how many answer records the first message had
    pub stopped_at: usize,
    pub first_message_records: usize,
}

fn mk_query(apex: &[u8], qtype: u16, id: u16, serial: u32) -> Message<Vec<u8>> {
    let mut mb = MessageBuilder::new_vec();
    mb.header_mut().set_id(id);
    let mut q = mb.question();
    q.push((sname(apex), Rtype::from_int(qtype))).unwrap();
    if qtype == T_IXFR {
        let mut a = q.authority();
        let soa: Soa<Name<Bytes>> = Soa::new(sname(apex), sname(apex), Serial(serial), Ttl::ZERO, Ttl::ZERO, Ttl::ZERO, Ttl::ZERO);
        a.push((sname(apex), Class::IN, Ttl::ZERO, soa)).unwrap();
        a.into_message()
    } else {
        q.into_message()
    }
}

fn sample(zone: &Zone, seen: &mut Vec<Vec<Rec>>) {
    let mut v: Vec<Rec> = walk_records(zone).into_iter().map(|r| (r.0, r.1, r.2, norm(r.1, &r.3))).collect();
    v.sort();
    if seen.last() != Some(&v) {
        seen.push(v);
    }
}

/// What a secondary does: check the first reply against the query, interpret every
/// message, apply every update, sampling what readers can see after every step.
async fn receive_async(zone: &Zone, query: &Message<Vec<u8>>, msgs: &[Vec<u8>], out: &mut Recv, watch: bool) {
    let mut interp = XfrResponseInterpreter::new();
    let mut up = match ZoneUpdater::<ParsedName<Bytes>>::new(zone.clone()).await {
        Ok(u) => u,
        Err(e) => {
            out.error = Some(format!("updater: {:?}", e));
            return;
        }
    };
    sample(zone, &mut out.seen);
    'outer: for (i, m) in msgs.iter().enumerate() {
        out.stopped_at = i;
        if i == 0 && m.len() >= 12 {
            out.first_message_records = u16::from_be_bytes([m[6], m[7]]) as usize;
        }
        let resp = match Message::from_octets(Bytes::copy_from_slice(m)) {
            Ok(r) => r,
            Err(_) => {
                out.error = Some("short message".into());
                break;
            }
        };
        if i == 0 && !resp.is_answer(query) {
            out.error = Some("first message is not an answer to the query".into());
            break;
        }
        if resp.header().id() != query.header().id() {
            out.error = Some("id".into());
            break;
        }
        let it = match interp.interpret_response(resp) {
            Ok(it) => it,
            Err(e) => {
                out.error = Some(format!("interpret: {}", e));
                break;
            }
        };
        for u in it {
            match u {
                Ok(u) => {
                    out.updates += 1;
                    let fin = matches!(u, ZoneUpdate::Finished(_));
                    match up.apply(u).await {
                        Ok(d) => {
                            if let Some(d) = d {
                                out.diffs.push(d);
                            }
                        }
                        Err(e) => {
                            out.error = Some(format!("apply: {:?}", e));
                            break 'outer;
                        }
                    }
                    if watch {
                        sample(zone, &mut out.seen);
                    }
                    if fin {
                        out.accepted = true;
                    }
                }
                Err(e) => {
                    out.error = Some(format!("iterate: {:?}", e));
                    break 'outer;
                }
            }
        }
    }
    if !out.accepted && out.error.is_none() {
        out.error = Some("stream ended before the transfer was complete".into());
    }
    drop(up);
    sample(zone, &mut out.seen);
}

fn receive(rt: &tokio::runtime::Runtime, zone: &Zone, query: &Message<Vec<u8>>, msgs: &[Vec<u8>], watch: bool) -> Recv {
    let mut out = Recv::default();
    let r = ctx::catch(|| {
        let mut o = Recv::default();
        rt.block_on(receive_async(zone, query, msgs, &mut o, watch));
        o
    });
    match r {
        Ok(o) => out = o,
        Err(pi) => {
            out.panic = Some(pi);
            sample(zone, &mut out.seen);
        }
    }
    out
}

// --------------------------------------------------------------- sender ----

#[derive(Clone)]
struct Provider {
    zone: Zone,
    diffs: Vec<Arc<InMemoryZoneDiff>>,
    compat: bool,
    /// hand the differences on file also to a client whose serial is not the start of any of them (the middleware then
    /// has to see for itself that the client is current or ahead)
    always_offer_diffs: bool,
}

impl<RM> XfrDataProvider<RM> for Provider {
    type Diff = Arc<InMemoryZoneDiff>;
    fn request<Octs>(&self, req: &Request<Octs, RM>, diff_from: Option<Serial>) -> Pin<Box<dyn Future<Output = Result<XfrData<Self::Diff>, XfrDataProviderError>> + Sync + Send + '_>>
    where
        Octs: octseq::Octets + Send + Sync,
    {
        let res = req.message().sole_question().map_err(XfrDataProviderError::ParseError).and_then(|q| {
            if q.qname() == self.zone.apex_name() && q.qclass() == self.zone.class() {
                let diffs = match diff_from.and_then(|s| self.diffs.iter().position(|d| d.start_serial == s)) {
                    Some(p) => self.diffs[p..].to_vec(),
                    None if self.always_offer_diffs && diff_from.is_some() => self.diffs.clone(),
                    None => vec![],
                };
                Ok(XfrData::new(self.zone.clone(), diffs, self.compat))
            } else {
                Err(XfrDataProviderError::UnknownZone)
            }
        });
        Box::pin(ready(res))
    }
}

#[derive(Clone)]
struct NoNext;
impl Service<Vec<u8>, ()> for NoNext {
    type Target = Vec<u8>;
    type Stream = Once<Ready<ServiceResult<Self::Target>>>;
    type Future = Ready<Self::Stream>;
    fn call(&self, _request: Request<Vec<u8>, ()>) -> Self::Future {
        ready(once(ready(Err(ServiceError::Refused))))
    }
}


/// For C17: what the XFR middleware does with an IXFR query from a client at `client` when the
/// zone went from serial `old` to serial `new` and the difference old -> new is on file: "single-soa"
/// (the client is told it is current), "diffs" (an incremental transfer), "axfr" (the whole zone).
pub(crate) fn ixfr_decision(rt: &tokio::runtime::Runtime, old: u32, new: u32, client: u32) -> Result<&'static str, String> {
    use domain::zonetree::InMemoryZoneDiffBuilder;
    let apex: &[u8] = b"\x07example\x00";
    let soa = |serial: u32| shared_rrset(&RRset { name: apex.to_vec(), rtype: T_SOA, ttl: 3600, rdatas: vec![rd_soa(apex, serial)] });
    let mut b = ZoneBuilder::new(sname(apex), Class::IN);
    b.insert_rrset(&sname(apex), soa(new)).map_err(|_| "zone".to_string())?;
    b.insert_rrset(&sname(apex), shared_rrset(&RRset { name: apex.to_vec(), rtype: 2, ttl: 3600, rdatas: vec![b"\x02ns\x07example\x00".to_vec()] })).map_err(|_| "zone".to_string())?;
    let zone = b.build();
    let mut db = InMemoryZoneDiffBuilder::new();
    db.remove(sname(apex), Rtype::SOA, soa(old));
    db.add(sname(apex), Rtype::SOA, soa(new));
    let diff = db.build().map_err(|e| format!("diff {} -> {} refused: {:?}", old, new, e))?;
    // differences are offered to a client at or ahead of the zone as well: whether it is, the middleware decides
    let offer = client == new || (client.wrapping_sub(new) as i32) > 0;
    let prov = Provider { zone, diffs: vec![Arc::new(diff)], compat: false, always_offer_diffs: offer };
    let query = mk_query(apex, T_IXFR, 4711, client);
    let msgs = rt.block_on(serve(prov, query, None, 0))?;
    let Some(recs) = flatten(&msgs) else { return Err("response unreadable".into()) };
    let soas: Vec<u32> = recs.iter().filter(|r| r.rtype == T_SOA).map(|r| serial_of_rdata(&r.rdata)).collect();
    Ok(if recs.len() == 1 && soas.len() == 1 {
        "single-soa"
    } else if recs.len() >= 2 && recs[1].rtype == T_SOA && recs.len() > 2 {
        "diffs"
    } else {
        "axfr"
    })
}

/// Run the real XFR middleware on a query; the responses as wire messages.
async fn serve(p: Provider, query: Message<Vec<u8>>, udp: Option<u16>, reserve: u16) -> Result<Vec<Vec<u8>>, String> {
    let ctx = match udp {
        Some(sz) => TransportSpecificContext::Udp(UdpTransportContext::new(Some(sz))),
        None => TransportSpecificContext::NonUdp(NonUdpTransportContext::new(None)),
    };
    let mut req = Request::new("127.0.0.1:5353".parse().unwrap(), tokio::time::Instant::now(), query, ctx, ());
    if reserve > 0 {
        req.reserve_bytes(reserve);
    }
    let svc = XfrMiddlewareSvc::<Vec<u8>, NoNext, (), Provider>::new(NoNext, p, 2);
    let mut stream = svc.call(req).await;
    let mut msgs = Vec::new();
    while let Some(item) = stream.next().await {
        match item {
            Ok(cr) => {
                let (resp, _fb) = cr.into_inner();
                if let Some(b) = resp {
                    msgs.push(b.as_message().as_slice().to_vec());
                }
            }
            Err(e) => return Err(format!("service error {:?}", e)),
        }
    }
    Ok(msgs)
}

/// The same transfer with the request and every response signed: TsigMiddlewareSvc around the
/// XFR middleware on the server side, ClientSequence on the receiving side. Returns the verified
/// messages.
#[cfg(feature = "crypto")]
async fn serve_tsig(p: Provider, apex: &[u8], qtype: u16, id: u16, serial: u32, key: std::sync::Arc<domain::tsig::Key>, reserve: u16) -> Result<Vec<Vec<u8>>, String> {
    use domain::net::server::middleware::tsig::TsigMiddlewareSvc;
    use domain::rdata::tsig::Time48;
    use domain::tsig::ClientSequence;
    #[derive(Clone)]
    struct NoNextK;
    impl Service<Vec<u8>, Option<std::sync::Arc<domain::tsig::Key>>> for NoNextK {
        type Target = Vec<u8>;
        type Stream = Once<Ready<ServiceResult<Self::Target>>>;
        type Future = Ready<Self::Stream>;
        fn call(&self, _request: Request<Vec<u8>, Option<std::sync::Arc<domain::tsig::Key>>>) -> Self::Future {
            ready(once(ready(Err(ServiceError::Refused))))
        }
    }
    // the signed query
    let mut mb = MessageBuilder::new_vec();
    mb.header_mut().set_id(id);
    let mut q = mb.question();
    q.push((sname(apex), Rtype::from_int(qtype))).unwrap();
    let mut ab = if qtype == T_IXFR {
        let mut a = q.authority();
        let soa: Soa<Name<Bytes>> = Soa::new(sname(apex), sname(apex), Serial(serial), Ttl::ZERO, Ttl::ZERO, Ttl::ZERO, Ttl::ZERO);
        a.push((sname(apex), Class::IN, Ttl::ZERO, soa)).unwrap();
        a.additional()
    } else {
        q.additional()
    };
    let mut cseq = ClientSequence::request(key.clone(), &mut ab, Time48::now()).map_err(|_| "signing the query failed".to_string())?;
    let query = Message::from_octets(ab.finish()).map_err(|_| "query".to_string())?;
    let ctx = TransportSpecificContext::NonUdp(NonUdpTransportContext::new(None));
    let mut req = Request::new("127.0.0.1:5353".parse().unwrap(), tokio::time::Instant::now(), query, ctx, ());
    if reserve > 0 {
        req.reserve_bytes(reserve);
    }
    let xfr = XfrMiddlewareSvc::<Vec<u8>, NoNextK, Option<std::sync::Arc<domain::tsig::Key>>, Provider>::new(NoNextK, p, 2);
    let svc = TsigMiddlewareSvc::<Vec<u8>, _, std::sync::Arc<domain::tsig::Key>, ()>::new(xfr, key.clone());
    let mut stream = svc.call(req).await;
    let mut msgs = Vec::new();
    let mut i = 0;
    while let Some(item) = stream.next().await {
        match item {
            Ok(cr) => {
                let (resp, _fb) = cr.into_inner();
                if let Some(b) = resp {
                    let wire = b.as_message().as_slice().to_vec();
                    let mut m = Message::from_octets(wire).map_err(|_| "short response".to_string())?;
                    cseq.answer(&mut m, Time48::now()).map_err(|e| format!("tsig-verify:message {} of the signed transfer does not verify: {}", i + 1, e))?;
                    // what a receiver works with: the message as it was before signing
                    let pm = w::parse_message(m.as_slice()).map_err(|_| "tsig-verify:verified message unparsable".to_string())?;
                    msgs.push(m.as_slice()[..pm.end].to_vec());
                    i += 1;
                }
            }
            Err(e) => return Err(format!("service error {:?}", e)),
        }
    }
    cseq.done().map_err(|e| format!("tsig-verify:the signed transfer does not end with a signed message: {}", e))?;
    Ok(msgs)
}

// ------------------------------------------------------ building zones ----


/// The same stream fetched the way an application fetches a transfer: one multi-response request
/// through `net::client::stream`, whose transport follows the transfer with a state machine of its
/// own to know where the stream ends. An honest peer sends the messages (with the ID the request
/// went out with) and then keeps the connection open. Returns the messages handed to the caller
/// and how the stream ended.
async fn fetch_via_stream_client(query: &Message<Vec<u8>>, msgs: &[Vec<u8>]) -> (Vec<Vec<u8>>, String) {
    use domain::net::client::request::{RequestMessage, RequestMessageMulti, SendRequestMulti};
    use domain::net::client::stream;
    use tokio::io::{AsyncReadExt, AsyncWriteExt};
    let (client, mut server) = tokio::io::duplex(1 << 17);
    let to_send: Vec<Vec<u8>> = msgs.to_vec();
    let peer = tokio::spawn(async move {
        let mut lb = [0u8; 2];
        if server.read_exact(&mut lb).await.is_err() {
            return;
        }
        let mut req = vec![0u8; u16::from_be_bytes(lb) as usize];
        if server.read_exact(&mut req).await.is_err() || req.len() < 2 {
            return;
        }
        for m in &to_send {
            let mut f = (m.len() as u16).to_be_bytes().to_vec();
            f.extend_from_slice(m);
            f[2] = req[0];
            f[3] = req[1];
            if server.write_all(&f).await.is_err() {
                return;
            }
        }
        // stay connected until the client goes away
        let mut sink = [0u8; 64];
        while let Ok(n) = server.read(&mut sink).await {
            if n == 0 {
                break;
            }
        }
    });
    let (conn, tr) = stream::Connection::<RequestMessage<Vec<u8>>, RequestMessageMulti<Vec<u8>>>::new(client);
    let run = tokio::spawn(tr.run());
    let mut out = Vec::new();
    let end = match RequestMessageMulti::new(query.clone()) {
        Err(e) => format!("request refused: {}", e),
        Ok(req) => {
            let mut gr = SendRequestMulti::send_request(&conn, req);
            loop {
                match tokio::time::timeout(std::time::Duration::from_secs(5), gr.get_response()).await {
                    Ok(Ok(Some(m))) => out.push(m.as_slice().to_vec()),
                    Ok(Ok(None)) => break "end-of-stream".to_string(),
                    Ok(Err(e)) => break format!("error: {}", e),
                    Err(_) => break "no end of stream within 5 s".to_string(),
                }
                if out.len() > to_send_len_cap(msgs) {
                    break "more messages than were sent".to_string();
                }
            }
        }
    };
    drop(conn);
    run.abort();
    peer.abort();
    (out, end)
}

/// A transfer given up half-way and another one started on the same connection while the rest of the first is still
/// arriving: the caller takes `keep` messages of the first transfer and drops the request; the peer goes on sending the
/// first stream (under the first request's ID) and then sends the second one. The second request gets its own stream, whole.
async fn fetch_after_abandoned(query: &Message<Vec<u8>>, msgs: &[Vec<u8>], keep: usize) -> (Vec<Vec<u8>>, String) {
    use domain::net::client::request::{RequestMessage, RequestMessageMulti, SendRequestMulti};
    use domain::net::client::stream;
    use tokio::io::{AsyncReadExt, AsyncWriteExt};
    let (client, mut server) = tokio::io::duplex(1 << 17);
    let to_send: Vec<Vec<u8>> = msgs.to_vec();
    let peer = tokio::spawn(async move {
        async fn read_req(s: &mut tokio::io::DuplexStream) -> Option<Vec<u8>> {
            let mut lb = [0u8; 2];
            s.read_exact(&mut lb).await.ok()?;
            let mut req = vec![0u8; u16::from_be_bytes(lb) as usize];
            s.read_exact(&mut req).await.ok()?;
            (req.len() >= 2).then_some(req)
        }
        async fn send(s: &mut tokio::io::DuplexStream, m: &[u8], id: &[u8]) -> bool {
            let mut f = (m.len() as u16).to_be_bytes().to_vec();
            f.extend_from_slice(m);
            f[2] = id[0];
            f[3] = id[1];
            s.write_all(&f).await.is_ok()
        }
        let Some(r1) = read_req(&mut server).await else { return };
        // (one message more than the caller will take: it arrives after the caller has let go)
        for m in to_send.iter().take(keep + 1) {
            if !send(&mut server, m, &r1).await {
                return;
            }
        }
        // the second request arrives while the first stream is still under way
        let Some(r2) = read_req(&mut server).await else { return };
        for m in to_send.iter().skip(keep + 1) {
            if !send(&mut server, m, &r1).await {
                return;
            }
        }
        for m in &to_send {
            if !send(&mut server, m, &r2).await {
                return;
            }
        }
        let mut sink = [0u8; 64];
        while let Ok(n) = server.read(&mut sink).await {
            if n == 0 {
                break;
            }
        }
    });
    let (conn, tr) = stream::Connection::<RequestMessage<Vec<u8>>, RequestMessageMulti<Vec<u8>>>::new(client);
    let run = tokio::spawn(tr.run());
    let mut out = Vec::new();
    let end = 'done: {
        let Ok(req1) = RequestMessageMulti::new(query.clone()) else { break 'done "request refused".to_string() };
        {
            let mut g1 = SendRequestMulti::send_request(&conn, req1);
            for _ in 0..keep {
                match tokio::time::timeout(std::time::Duration::from_secs(5), g1.get_response()).await {
                    Ok(Ok(Some(_))) => {}
                    other => break 'done format!("the first transfer ended early: {:?}", other.map(|r| r.map(|o| o.map(|m| m.as_slice().len())))),
                }
            }
            // given up
        }
        tokio::time::sleep(std::time::Duration::from_millis(30)).await;
        let Ok(req2) = RequestMessageMulti::new(query.clone()) else { break 'done "request refused".to_string() };
        let mut g2 = SendRequestMulti::send_request(&conn, req2);
        loop {
            match tokio::time::timeout(std::time::Duration::from_secs(5), g2.get_response()).await {
                Ok(Ok(Some(m))) => out.push(m.as_slice().to_vec()),
                Ok(Ok(None)) => break "end-of-stream".to_string(),
                Ok(Err(e)) => break format!("error: {}", e),
                Err(_) => break "no end of stream within 5 s".to_string(),
            }
            if out.len() > to_send_len_cap(msgs) {
                break "more messages than were sent".to_string();
            }
        }
    };
    drop(conn);
    run.abort();
    peer.abort();
    (out, end)
}

fn to_send_len_cap(msgs: &[Vec<u8>]) -> usize {
    msgs.len() + 2
}

fn empty_zone(apex: &[u8]) -> Zone {
    ZoneBuilder::new(sname(apex), Class::IN).build()
}

type URec = Record<Name<Bytes>, ZoneRecordData<Bytes, Name<Bytes>>>;

/// Fill an empty zone through the updater, so that every RRset is an ordinary one.
async fn fill(zone: &Zone, z: &ZoneC) -> Result<(), String> {
    crate::p08::updater_replace(zone, z).await
}

#[derive(Clone, Copy, Debug, PartialEq, Eq)]
enum StepStyle {
    UpdaterRecords,
    WriteRrsets,
    UpdaterReplace,
}

/// Move the sender's zone from `from` to `to` the way a primary's editor would, returning the diff the zone reports.
async fn step(zone: &Zone, from: &ZoneC, to: &ZoneC, rng: &mut Rng, style: StepStyle) -> Result<Option<InMemoryZoneDiff>, String> {
    let s = to.get(&to.apex, T_SOA).unwrap();
    let soa: URec = srecord(&s.name, T_SOA, s.ttl, &s.rdatas[0]);
    match style {
        StepStyle::UpdaterRecords => {
            let mut up = ZoneUpdater::<Name<Bytes>>::new(zone.clone()).await.map_err(|e| format!("{:?}", e))?;
            let (a, b) = (content(from), content(to));
            let mut ops: Vec<(bool, Rec)> = a.difference(&b).map(|r| (false, r.clone())).chain(b.difference(&a).map(|r| (true, r.clone()))).filter(|(_, r)| r.1 != T_SOA).collect();
            // deletions before additions per RRset, otherwise any order
            rng.shuffle(&mut ops);
            ops.sort_by_key(|(add, r)| (r.0.clone(), r.1, *add));
            let mut groups: Vec<Vec<(bool, Rec)>> = Vec::new();
            for o in ops {
                match groups.last_mut() {
                    Some(g) if g[0].1 .0 == o.1 .0 && g[0].1 .1 == o.1 .1 => g.push(o),
                    _ => groups.push(vec![o]),
                }
            }
            rng.shuffle(&mut groups);
            for (add, r) in groups.into_iter().flatten() {
                let name = if add { to.get(&r.0, r.1).map(|x| x.name.clone()).unwrap_or(r.0.clone()) } else { r.0.clone() };
                let rec: URec = srecord(&name, r.1, r.2, &r.3);
                let u = if add { ZoneUpdate::AddRecord(rec) } else { ZoneUpdate::DeleteRecord(rec) };
                up.apply(u).await.map_err(|e| format!("{:?}", e))?;
            }
            up.apply(ZoneUpdate::Finished(soa)).await.map_err(|e| format!("{:?}", e))
        }
        StepStyle::UpdaterReplace => {
            let mut up = ZoneUpdater::<Name<Bytes>>::new(zone.clone()).await.map_err(|e| format!("{:?}", e))?;
            up.apply(ZoneUpdate::DeleteAllRecords).await.map_err(|e| format!("{:?}", e))?;
            for (o, t, ttl, d) in to.records() {
                if t != T_SOA {
                    up.apply(ZoneUpdate::AddRecord(srecord(&o, t, ttl, &d))).await.map_err(|e| format!("{:?}", e))?;
                }
            }
            up.apply(ZoneUpdate::Finished(soa)).await.map_err(|e| format!("{:?}", e))
        }
        StepStyle::WriteRrsets => {
            let mut wz = zone.write().await;
            let root = wz.open(true).await.map_err(|e| e.to_string())?;
            let mut keys: BTreeSet<(Vec<u8>, u16)> = from.rrsets.keys().cloned().collect();
            keys.extend(to.rrsets.keys().cloned());
            let mut keys: Vec<_> = keys.into_iter().collect();
            rng.shuffle(&mut keys);
            for k in keys {
                let (old, new) = (from.rrsets.get(&k), to.rrsets.get(&k));
                if old == new {
                    continue;
                }
                let labels = w::labels(&k.0);
                let rel = &labels[..labels.len() - w::labels(&to.apex).len()];
                let node = if rel.is_empty() {
                    None
                } else {
                    let mut node = root.update_child(Label::from_slice(rel[rel.len() - 1]).unwrap()).await.map_err(|e| e.to_string())?;
                    for l in rel[..rel.len() - 1].iter().rev() {
                        node = node.update_child(Label::from_slice(l).unwrap()).await.map_err(|e| e.to_string())?;
                    }
                    Some(node)
                };
                let target = node.as_ref().unwrap_or(&root);
                match new {
                    Some(r) => target.update_rrset(shared_rrset(r)).await.map_err(|e| e.to_string())?,
                    None => target.remove_rrset(Rtype::from_int(k.1)).await.map_err(|e| e.to_string())?,
                }
            }
            drop(root);
            wz.commit(false).await.map_err(|e| e.to_string())
        }
    }
}

/// The diff a zone reported, as record sets.
fn diff_sets(d: &InMemoryZoneDiff) -> (Content, Content) {
    let conv = |m: &std::collections::HashMap<(domain::zonetree::StoredName, Rtype), domain::zonetree::SharedRrset>| {
        let mut c = Content::new();
        for ((owner, _t), rrset) in m.iter() {
            for d in rrset.data() {
                use domain::base::rdata::ComposeRecordData;
                let mut rd = Vec::new();
                d.compose_rdata(&mut rd).unwrap();
                let t = rrset.rtype().to_int();
                c.insert((w::lower(owner.as_slice()), t, rrset.ttl().as_secs(), norm(t, &rd)));
            }
        }
        c
    };
    (conv(&d.removed), conv(&d.added))
}

fn apply_diff(old: &Content, removed: &Content, added: &Content) -> Content {
    // a removal names owner, type and data; the TTL it carries does not take part in the match (RFC 1995 leaves it open, the updater ignores it)
    let gone: BTreeSet<(&Vec<u8>, u16, &Vec<u8>)> = removed.iter().map(|r| (&r.0, r.1, &r.3)).collect();
    let mut c: Content = old.iter().filter(|r| !gone.contains(&(&r.0, r.1, &r.3))).cloned().collect();
    c.extend(added.iter().cloned());
    c
}

fn describe(c: &[Rec]) -> Vec<String> {
    c.iter().map(|r| format!("{} TYPE{} {} {}", w::name_text(&r.0), r.1, r.2, hex(&r.3))).collect()
}

fn diff_text(want: &Content, got: &[Rec]) -> String {
    let g: Content = got.iter().cloned().collect();
    let missing: Vec<Rec> = want.difference(&g).cloned().collect();
    let extra: Vec<Rec> = g.difference(want).cloned().collect();
    let dup = got.len() != g.len();
    format!("missing {:?}; unexpected {:?}{}", describe(&missing), describe(&extra), if dup { "; duplicate records present" } else { "" })
}

/// Records of `z` that lie strictly below a delegation and are not address glue of it.
fn occluded(z: &ZoneC) -> Content {
    let cuts: Vec<Vec<u8>> = z.names().into_iter().filter(|n| z.is_cut(n)).collect();
    content(z).into_iter().filter(|r| cuts.iter().any(|c| is_at_or_below(&r.0, c) && r.0 != w::lower(c))).collect()
}

/// Records that the zone builder keeps in a node's special slot (a delegation's NS/DS, a CNAME).
/// Later edits through the updater or the write interface do not remove them (see C08's
/// findings), which is what is to blame whenever only such records are off.
fn only_special_stored(recs: &[Rec], apex: &[u8], vs: &[ZoneC]) -> bool {
    let a = w::lower(apex);
    // address records copied into a delegation's glue list
    let glue_owner = |o: &Vec<u8>| vs.iter().any(|z| z.names().into_iter().any(|n| z.is_cut(&n) && z.get(&n, T_NS).map(|ns| ns.rdatas.iter().any(|t| &w::lower(t) == o)).unwrap_or(false)));
    !recs.is_empty() && recs.iter().all(|r| r.0 != a && (matches!(r.1, T_CNAME | T_NS | T_DS) || (matches!(r.1, T_A | T_AAAA) && glue_owner(&r.0))))
}

/// Is the record strictly below a name that was a delegation in any of the versions?
fn below_cut_of_any_version(vs: &[ZoneC], r: &Rec) -> bool {
    vs.iter().any(|z| z.names().into_iter().any(|n| z.is_cut(&n) && is_at_or_below(&r.0, &n) && r.0 != w::lower(&n)))
}

// ----------------------------------------------------------------- cases ----

struct Case<'a> {
    c: &'a mut Ctx,
    fam: &'a str,
    idx: u64,
    extra: serde_json::Value,
}

impl Case<'_> {
    fn viol(&mut self, sig: &str, what: &str) {
        let r = self.c.replay_of(self.fam, self.idx, self.extra.clone());
        self.c.violation(sig, what, r);
    }
}

/// Judge one reception against the reference outcome.
fn judge(k: &mut Case, label: &str, kind: &str, recv: &Recv, refo: &RefOut, pre: &Content, fault: Option<&str>) -> bool {
    let fk = fault.unwrap_or("none");
    if let Some(pi) = &recv.panic {
        k.viol(&format!("panic:{}", pi.site()), &format!("{}: panic while receiving a {} stream (fault: {}): {} at {}:{}", label, kind, fk, pi.msg, pi.file, pi.line));
        return false;
    }
    // what readers saw
    let mut allowed: Vec<Vec<Rec>> = vec![pre.iter().cloned().collect()];
    for s in &refo.states {
        allowed.push(s.iter().cloned().collect());
    }
    let silent = matches!(refo.verdict, Verdict::Unspecified(_));
    if !(silent && recv.accepted) && !refo.ttl_clash {
        for (si, s) in recv.seen.iter().enumerate() {
            if !allowed.contains(s) {
                let last = si + 1 == recv.seen.len();
                let (sig, what) = if recv.accepted && last && refo.finished {
                    (format!("content-differs:{}:{}", kind, fk), format!("{}: after an accepted {} transfer (fault: {}) the receiving zone differs from what the stream denotes: {}", label, kind, fk, diff_text(refo.states.last().unwrap(), s)))
                } else {
                    // compare with the closest complete version
                    let best = allowed.iter().min_by_key(|a| { let a: Content = a.iter().cloned().collect(); let g: Content = s.iter().cloned().collect(); a.symmetric_difference(&g).count() }).unwrap();
                    let bc: Content = best.iter().cloned().collect();
                    (format!("partial-version-visible:{}:{}", kind, fk), format!("{}: while receiving a {} stream (fault: {}; outcome: {}) readers could see (sample {} of {}) content that is neither the previous version nor a complete version of the transfer; against the closest of those: {}", label, kind, fk, if recv.accepted { "accepted".to_string() } else { format!("{:?}", recv.error) }, si + 1, recv.seen.len(), diff_text(&bc, s)))
                };
                k.viol(&sig, &what);
                return false;
            }
        }
    }
    if recv.accepted {
        if !refo.finished || matches!(refo.verdict, Verdict::Invalid(_)) {
            let why = match &refo.verdict {
                Verdict::Invalid(r) => r,
                _ => "transfer never completed",
            };
            k.viol(&format!("accepted-invalid-stream:{}:{}", kind, fk), &format!("{}: a {} stream with fault {} ({}) was accepted and committed", label, kind, fk, why));
            return false;
        }
        if silent {
            k.c.count("accepted_where_rfc_is_silent", 1);
        }
        k.c.count("transfers_accepted", 1);
    } else {
        if fault.is_none() {
            // (the recorded finding: the retry signal at the end of a FIRST message that holds nothing but the opening SOA)
            let single = recv.error.as_deref().map(|e| e.contains("SingleSoaIxfrTcpRetrySignal")).unwrap_or(false) && recv.stopped_at == 0 && recv.first_message_records == 1;
            let sig = if single { format!("rejected-legal-stream:{}:first-message-holds-only-the-soa", kind) } else { format!("rejected-legal-stream:{}", kind) };
            k.viol(&sig, &format!("{}: a legal {} stream was rejected: {:?}", label, kind, recv.error));
            return false;
        }
        if refo.finished && refo.verdict == Verdict::Valid {
            k.c.count("rejected_although_still_valid", 1);
        }
        k.c.count("transfers_rejected", 1);
    }
    true
}

/// What remains of a (possibly damaged) stream for a receiver that follows RFC 5936 2.2.1: the
/// records up to the first message or record that must be refused, and whether there was one.
fn surviving_records(fm: &[Vec<u8>], apex: &[u8], qtype: u16) -> (Vec<WRec>, bool) {
    let mut frecs: Vec<WRec> = vec![];
    for (mi, m) in fm.iter().enumerate() {
        let (pm, err) = w::parse_message_prefix(m);
        let Some(pm) = pm else { return (frecs, true) };
        let flags = pm.flags;
        if flags & 0x8000 == 0 || flags & 0x7800 != 0 || flags & 0x000f != 0 || flags & 0x0200 != 0 || pm.counts[1] == 0 || pm.counts[2] != 0 || (mi == 0 && pm.counts[0] != 1) || pm.counts[0] > 1 {
            return (frecs, true);
        }
        if pm.questions.len() != pm.counts[0] as usize {
            return (frecs, true);
        }
        if mi == 0 && (w::lower(&pm.questions[0].name) != w::lower(apex) || pm.questions[0].qtype != qtype || pm.questions[0].qclass != 1) {
            return (frecs, true);
        }
        for r in pm.records.iter().filter(|r| r.section == 1) {
            match &r.rdata {
                Some(rd) => frecs.push(WRec { owner: r.owner.clone(), rtype: r.rtype, ttl: r.ttl, rdata: rd.clone() }),
                None => return (frecs, true),
            }
        }
        if err.is_some() {
            return (frecs, true);
        }
    }
    (frecs, false)
}

fn one_case(c: &mut Ctx, rt: &tokio::runtime::Runtime, fam: &str, idx: u64) {
    let mut rng = c.case_rng(fam, idx);
    // versions
    let base = *rng.pick(&[7u32, 0xffff_fffd, 0x7fff_fffe, 1_000_000]);
    let nver = rng.range(2, 4);
    let mut vs: Vec<ZoneC> = vec![];
    let mut z0 = gen_zone(&mut rng, base);
    set_serial(&mut z0, base);
    vs.push(z0);
    for i in 1..nver {
        let serial = serial_of_rdata(&soa_of(&vs[i - 1]).rdata).wrapping_add(*rng.pick(&[1u32, 1, 2, 5, 1000, 0x2000_0000]));
        let n = next_version(&mut rng, &vs[i - 1], serial);
        vs.push(n);
    }
    let apex = vs[0].apex.clone();
    let id = rng.u16();
    let sender_builder = rng.chance(1, 4);
    let style = *rng.pick(&[StepStyle::UpdaterRecords, StepStyle::UpdaterRecords, StepStyle::WriteRrsets, StepStyle::UpdaterReplace]);
    let extra = json!({"versions": vs.iter().map(|z| describe(&content(z).into_iter().collect::<Vec<_>>())).collect::<Vec<_>>(), "sender_built_with": if sender_builder {"ZoneBuilder"} else {"updater"}, "step_style": format!("{:?}", style)});
    let mut k = Case { c, fam, idx, extra };

    // ---- the sender and the diffs it reports
    ctx::step("sender");
    let sender = if sender_builder {
        match build_with_builder(&vs[0]) {
            Ok(z) => z,
            Err(_) => return,
        }
    } else {
        let z = empty_zone(&apex);
        if rt.block_on(fill(&z, &vs[0])).is_err() {
            return;
        }
        z
    };
    let mut diffs: Vec<Arc<InMemoryZoneDiff>> = vec![];
    let mut diffs_ok = true;
    for i in 1..vs.len() {
        let r = ctx::catch(|| rt.block_on(step(&sender, &vs[i - 1], &vs[i], &mut rng, style)));
        let d = match r {
            Err(pi) => {
                k.viol(&format!("panic:{}", pi.site()), &format!("panic while editing the sender's zone: {} at {}:{}", pi.msg, pi.file, pi.line));
                return;
            }
            Ok(Err(e)) => {
                k.viol("sender-edit-failed", &format!("editing the sender's zone failed: {}", e));
                return;
            }
            Ok(Ok(d)) => d,
        };
        let (a, b) = (content(&vs[i - 1]), content(&vs[i]));
        let sk = format!("{:?}", style);
        match d {
            None => {
                k.viol(&format!("commit-diff:{}:none-reported", sk), "a commit that changed the SOA serial and was opened with create_diff reported no difference set");
                diffs_ok = false;
            }
            Some(d) => {
                let (rem, add) = diff_sets(&d);
                let got = apply_diff(&a, &rem, &add);
                let serials_ok = d.start_serial == Serial(serial_of_rdata(&soa_of(&vs[i - 1]).rdata)) && d.end_serial == Serial(serial_of_rdata(&soa_of(&vs[i]).rdata));
                k.c.count("commit_diffs_checked", 1);
                if !serials_ok {
                    k.viol(&format!("commit-diff:{}:serials", sk), &format!("the reported difference set runs from serial {} to {}, the commit went from {} to {}", d.start_serial, d.end_serial, serial_of_rdata(&soa_of(&vs[i - 1]).rdata), serial_of_rdata(&soa_of(&vs[i]).rdata)));
                    diffs_ok = false;
                } else if rem.iter().any(|r| !a.iter().any(|o| o.0 == r.0 && o.1 == r.1 && o.3 == r.3)) {
                    let ghost: Vec<Rec> = rem.iter().filter(|r| !a.iter().any(|o| o.0 == r.0 && o.1 == r.1 && o.3 == r.3)).cloned().collect();
                    let sig = if sender_builder && only_special_stored(&ghost, &apex, &vs) { "commit-diff:zone-built-with-ZoneBuilder-then-edited".to_string() } else { format!("commit-diff:{}:removes-records-the-old-version-did-not-have", sk) };
                    k.viol(&sig, &format!("difference set removes {:?}", describe(&ghost)));
                    diffs_ok = false;
                } else if got != b {
                    let gv: Vec<Rec> = got.iter().cloned().collect();
                    let off: Vec<Rec> = got.symmetric_difference(&b).cloned().collect();
                    let sig = if sender_builder && only_special_stored(&off, &apex, &vs) { "commit-diff:zone-built-with-ZoneBuilder-then-edited".to_string() } else { format!("commit-diff:{}:old-plus-diff-is-not-new", sk) };
                    k.viol(&sig, &format!("the difference set reported by commit, applied to the old content, does not give the new content: {}", diff_text(&b, &gv)));
                    diffs_ok = false;
                } else {
                    k.c.eval(&("diff", sk.clone(), rem.len().min(4), add.len().min(4)));
                }
                diffs.push(Arc::new(d));
            }
        }
    }
    let last = vs.last().unwrap().clone();
    let want = content(&last);
    // what the sender itself serves now (C08's business when it differs; here it decides who is to blame)
    let mut sender_walk: Vec<Rec> = walk_records(&sender).into_iter().map(|r| (r.0, r.1, r.2, norm(r.1, &r.3))).collect();
    sender_walk.sort();
    let sender_clean = sender_walk == want.iter().cloned().collect::<Vec<_>>();
    if !sender_clean {
        k.c.count("sender_walk_differs_from_content", 1);
    }

    // ---- the real sender: AXFR and IXFR through XfrMiddlewareSvc
    for kind in ["axfr", "ixfr"] {
        ctx::step("real-sender");
        let from = if kind == "ixfr" { rng.below(vs.len() - 1) } else { 0 };
        if kind == "ixfr" && !diffs_ok {
            continue;
        }
        let qtype = if kind == "axfr" { T_AXFR } else { T_IXFR };
        let query = mk_query(&apex, qtype, id, serial_of_rdata(&soa_of(&vs[from]).rdata));
        let compat = rng.chance(1, 4);
        let udp = if kind == "ixfr" && rng.chance(1, 5) { Some(*rng.pick(&[512u16, 1232, 4096])) } else { None };
        let reserve = if udp.is_none() && rng.chance(1, 3) { 65535 - rng.range(200, 900) as u16 } else if udp.is_some() && rng.bool() { rng.range(0, 300) as u16 } else { 0 };
        let prov = Provider { zone: sender.clone(), diffs: diffs.clone(), compat, always_offer_diffs: false };
        #[cfg(feature = "crypto")]
        let tsig_key = if udp.is_none() && rng.chance(1, 3) { Some(crate::p11::gen_key(&mut rng)) } else { None };
        #[cfg(feature = "crypto")]
        let served = match &tsig_key {
            Some(ks) => {
                k.c.count("tsig_signed_transfers", 1);
                ctx::catch(|| rt.block_on(serve_tsig(prov, &apex, qtype, id, serial_of_rdata(&soa_of(&vs[from]).rdata), ks.lib.clone(), reserve.min(60000))))
            }
            None => ctx::catch(|| rt.block_on(serve(prov, query.clone(), udp, reserve))),
        };
        #[cfg(not(feature = "crypto"))]
        let served = ctx::catch(|| rt.block_on(serve(prov, query.clone(), udp, reserve)));
        let msgs = match served {
            Err(pi) => {
                k.viol(&format!("panic:{}", pi.site()), &format!("panic in the XFR middleware: {} at {}:{}", pi.msg, pi.file, pi.line));
                continue;
            }
            Ok(Err(e)) => {
                let sig = if e.starts_with("tsig-verify:") { format!("sender:{}:tsig-signed-transfer-does-not-verify", kind) } else { format!("sender:{}:service-error", kind) };
                k.viol(&sig, &e);
                continue;
            }
            Ok(Ok(m)) => m,
        };
        k.c.count("sender_messages", msgs.len() as u64);
        if msgs.len() > 1 {
            k.c.count("sender_multi_message_streams", 1);
        }
        // octets reserved on the request (for a TSIG record or an OPT record that a later layer
        // appends) are left free in every response over a stream too, unless one record alone does
        // not fit into what remains
        #[cfg(feature = "crypto")]
        let unsigned = tsig_key.is_none();
        #[cfg(not(feature = "crypto"))]
        let unsigned = true;
        if udp.is_none() && reserve > 0 && unsigned {
            let room = 65535usize - reserve as usize;
            for m in &msgs {
                let nrec = u16::from_be_bytes([m[6], m[7]]) as usize;
                if m.len() > room && nrec > 1 {
                    k.viol(&format!("sender:{}:reserved-octets-used", kind), &format!("{} octets were reserved on the request, a response over a stream has {} octets and {} records (room for {})", reserve, m.len(), nrec, room));
                    break;
                }
            }
            k.c.count("sender_streams_with_reserved_octets", 1);
        }
        let pre_model = if kind == "ixfr" { content(&vs[from]) } else { Content::new() };
        let Some(recs) = flatten(&msgs) else {
            k.viol(&format!("sender:{}:unparsable", kind), "the reference walker cannot parse a response of the XFR middleware");
            continue;
        };
        let refo = ref_run(qtype, &recs, &pre_model, &apex);
        if udp.is_some() && recs.len() == 1 {
            k.c.count("udp_single_soa_replies", 1);
            continue;
        }
        let sent_ok = refo.finished && refo.verdict == Verdict::Valid && refo.states.last() == Some(&want);
        if !sent_ok {
            let got: Vec<Rec> = refo.states.last().cloned().unwrap_or_default().into_iter().collect();
            let gs: Content = got.iter().cloned().collect();
            let missing: Content = want.difference(&gs).cloned().collect();
            let extra: Content = gs.difference(&want).cloned().collect();
            let off: Vec<Rec> = missing.union(&extra).filter(|r| !below_cut_of_any_version(&vs, r)).cloned().collect();
            let sig = if sender_builder && refo.finished && extra.is_empty() && !missing.is_empty() && missing.is_subset(&occluded(&last)) && refo.axfr_style {
                "sender:axfr:occluded-records-below-a-delegation-not-sent".to_string()
            } else if sender_builder && !sender_clean && refo.finished && (off.is_empty() || only_special_stored(&off, &apex, &vs)) {
                "sender:zone-built-with-ZoneBuilder-then-edited".to_string()
            } else if !refo.finished || refo.verdict != Verdict::Valid {
                format!("sender:{}:framing:{:?}", kind, refo.verdict)
            } else {
                format!("sender:{}:stream-denotes-other-content", kind)
            };
            k.viol(&sig, &format!("the {} stream produced by XfrMiddlewareSvc does not denote the sender's zone: {}", kind, diff_text(&want, &got)));
            continue;
        }
        if recs.len() != recs.iter().map(|r| (w::lower(&r.owner), r.rtype, r.rdata.clone())).collect::<BTreeSet<_>>().len() + 1 && refo.axfr_style {
            k.c.count("sender_streams_with_duplicate_records", 1);
        }
        // receiver
        let rz = empty_zone(&apex);
        let pre_kind = rng.below(3);
        let pre: Content = if kind == "ixfr" {
            if rt.block_on(fill(&rz, &vs[from])).is_err() {
                continue;
            }
            content(&vs[from])
        } else if pre_kind == 0 {
            Content::new()
        } else {
            let p = if pre_kind == 1 { vs[0].clone() } else { gen_zone(&mut rng, 3) };
            if rt.block_on(fill(&rz, &p)).is_err() {
                continue;
            }
            content(&p)
        };
        let refo = ref_run(qtype, &recs, &pre, &apex);
        let recv = receive(rt, &rz, &query, &msgs, true);
        let label = format!("real sender ({}{}{})", if compat { "compatibility mode, " } else { "" }, if reserve > 0 { "small messages, " } else { "" }, if udp.is_some() { "udp" } else { "tcp" });
        if judge(&mut k, &label, kind, &recv, &refo, &pre, None) {
            k.c.count(if refo.axfr_style { "end_to_end_full" } else { "end_to_end_incremental" }, 1);
            k.c.eval(&("e2e", kind, refo.axfr_style, msgs.len().min(5), compat, udp.is_some(), pre.is_empty(), refo.states.len().min(4)));
        }
    }

    // ---- any legal packaging of the canonical sequences, then faults
    let npk = 3;
    for j in 0..npk {
        ctx::step("repackaged");
        let incremental = rng.bool();
        let from = rng.below(vs.len() - 1);
        let (qtype, kind, recs) = if incremental {
            (T_IXFR, "ixfr", ixfr_seq(&mut rng, &vs[from..]))
        } else if rng.chance(1, 4) {
            // a full zone in reply to an IXFR query
            (T_IXFR, "ixfr-as-axfr", axfr_seq(&mut rng, &last))
        } else {
            (T_AXFR, "axfr", axfr_seq(&mut rng, &last))
        };
        if kind == "ixfr-as-axfr" && recs.len() < 3 {
            continue; // SOA SOA: indistinguishable from an empty incremental reply
        }
        let query = mk_query(&apex, qtype, id, serial_of_rdata(&soa_of(&vs[from]).rdata));
        let pk = gen_packaging(&mut rng, recs.len(), qtype);
        let msgs = pack(&recs, &apex, qtype, id, &pk);
        let mk_receiver = |rng: &mut Rng| -> Option<(Zone, Content)> {
            let rz = empty_zone(&apex);
            if incremental || rng.bool() {
                rt.block_on(fill(&rz, &vs[from])).ok()?;
                Some((rz, content(&vs[from])))
            } else {
                Some((rz, Content::new()))
            }
        };
        let Some((rz, pre)) = mk_receiver(&mut rng) else { continue };
        let refo = ref_run(qtype, &recs, &pre, &apex);
        if !(refo.finished && refo.verdict == Verdict::Valid && refo.states.last() == Some(&want)) {
            k.c.note(&format!("harness: canonical {} sequence not valid by the reference: {:?}", kind, refo.verdict));
            continue;
        }
        let recv = receive(rt, &rz, &query, &msgs, j == 0);
        let label = format!("packaging {:?}", pk);
        if !judge(&mut k, &label, kind, &recv, &refo, &pre, None) {
            continue;
        }
        k.c.count(if incremental { "repackaged_incremental" } else { "repackaged_full" }, 1);
        if incremental && vs.len() - from > 2 {
            k.c.count("multi_step_incremental", 1);
        }
        // the same legal stream through the stream client's multi-response request: every message, in order, then the end
        {
            ctx::step("via-stream-client");
            match ctx::catch(|| rt.block_on(fetch_via_stream_client(&query, &msgs))) {
                Err(pi) => k.viol(&format!("panic:{}", pi.site()), &format!("panic in the stream client fetching a {} transfer: {} at {}:{}", kind, pi.msg, pi.file, pi.line)),
                Ok((got, end)) => {
                    let same = got.len() == msgs.len() && got.iter().zip(&msgs).all(|(a, b)| a.len() == b.len() && a[2..] == b[2..]);
                    let steps = if incremental { (vs.len() - from - 1).min(3) } else { 0 };
                    if !same || end != "end-of-stream" {
                        let what = if end != "end-of-stream" && got.len() <= msgs.len() { "stream-not-ended-cleanly" } else if got.len() < msgs.len() { "messages-missing" } else if got.len() > msgs.len() { "extra-messages" } else { "messages-altered" };
                        k.viol(&format!("client-stream:{}:{}", kind, what), &format!("a legal {} transfer ({} difference steps) of {} messages (packaging {:?}) fetched through net::client::stream as a multi-response request: the caller got {} messages, then: {}", kind, steps, msgs.len(), pk, got.len(), end));
                    } else {
                        k.c.count("transfers_fetched_through_stream_client", 1);
                        if steps >= 2 {
                            k.c.count("multi_step_transfers_fetched_through_stream_client", 1);
                        }
                        k.c.eval(&("via-client", kind, steps, msgs.len().min(6)));
                    }
                }
            }
            // ... and once more behind a transfer that was given up half-way on the same connection
            // (a real pause is part of it: one packaging in eight)
            if msgs.len() >= 3 && (k.idx as usize).wrapping_mul(7).wrapping_add(msgs.len() * 3 + msgs[0].len()) % 8 == 0 {
                let keep = 1 + (k.idx as usize + msgs.len()) % (msgs.len() - 2);
                match ctx::catch(|| rt.block_on(fetch_after_abandoned(&query, &msgs, keep))) {
                    Err(pi) => k.viol(&format!("panic:{}", pi.site()), &format!("panic in the stream client fetching a {} transfer behind an abandoned one: {} at {}:{}", kind, pi.msg, pi.file, pi.line)),
                    Ok((got, end)) => {
                        let same = got.len() == msgs.len() && got.iter().zip(&msgs).all(|(a, b)| a.len() == b.len() && a[2..] == b[2..]);
                        if !same || end != "end-of-stream" {
                            k.viol(&format!("client-stream:{}:behind-an-abandoned-transfer", kind), &format!("a {} transfer of {} messages was given up after {} of them and started again on the same connection while the rest was still arriving: the second request got {} messages, then: {}", kind, msgs.len(), keep, got.len(), end));
                        } else {
                            k.c.count("transfers_fetched_behind_an_abandoned_one", 1);
                        }
                    }
                }
            }
        }
        k.c.eval(&("pack", kind, pk.splits.len().min(6), pk.compress, pk.question_in_followups, pre.is_empty(), refo.states.len().min(4)));
        // the diff the receiving zone reports for an incremental transfer
        if incremental && refo.states.len() == recv.diffs.len() {
            let mut cur = pre.clone();
            let mut ok = true;
            for (d, s) in recv.diffs.iter().zip(&refo.states) {
                let (rem, add) = diff_sets(d);
                cur = apply_diff(&cur, &rem, &add);
                if &cur != s {
                    ok = false;
                    let cv: Vec<Rec> = cur.iter().cloned().collect();
                    k.viol("commit-diff:receiver:old-plus-diff-is-not-new", &format!("the difference set the receiving zone reported for an applied IXFR step does not lead to the new content: {}", diff_text(s, &cv)));
                    break;
                }
            }
            if ok {
                k.c.count("receiver_diffs_checked", recv.diffs.len() as u64);
            }
        }

        // faults on this packaging
        for _ in 0..3 {
            ctx::step("faulted");
            let mut fm = msgs.clone();
            let Some(f) = inject(&mut rng, &mut fm, &recs, &apex, qtype, id) else { continue };
            if fm.is_empty() {
                continue;
            }
            let Some((rz, pre)) = mk_receiver(&mut rng) else { continue };
            let (frecs, bad) = surviving_records(&fm, &apex, qtype);
            let mut refo = ref_run(qtype, &frecs, &pre, &apex);
            if bad {
                refo.verdict = if refo.finished { Verdict::Unspecified("bad-message-after-complete-transfer") } else { Verdict::Invalid("bad-message") };
            }
            let recv = receive(rt, &rz, &query, &fm, true);
            let judged = judge(&mut k, &format!("packaging {:?}", pk), kind, &recv, &refo, &pre, Some(f.kind));
            if judged {
                k.c.count(&format!("fault:{}", f.kind), 1);
                k.c.eval(&("fault", kind, f.kind, recv.accepted, recv.updates.min(6), refo.states.len().min(3)));
            }
            // aftermath: a refused or aborted transfer leaves nothing behind that a later,
            // unrelated transfer could publish. The zone stands at the version it had before or
            // at one a completed step of the refused transfer committed; the later transfer
            // only adds one record to that.
            let now: Content = recv.seen.last().map(|s| s.iter().cloned().collect()).unwrap_or_default();
            let at = vs.iter().position(|v| !now.is_empty() && content(v) == now);
            if let (true, false, true, Some(at)) = (judged, recv.accepted, recv.panic.is_none(), at) {
                ctx::step("aftermath");
                let base = vs[at].clone();
                let pre = now;
                let mut v2 = base.clone();
                let mut nm = vec![8u8];
                nm.extend_from_slice(b"zz-after");
                nm.extend_from_slice(&apex);
                if nm.len() <= 255 && v2.get(&nm, 1).is_none() && v2.types_at(&nm).is_empty() {
                    v2.insert(RRset { name: nm, rtype: 1, ttl: 300, rdatas: vec![vec![192, 0, 2, 77]] });
                    let s0 = serial_of_rdata(&soa_of(&base).rdata);
                    set_serial(&mut v2, s0.wrapping_add(1));
                    let recs2 = ixfr_seq(&mut rng, &[base.clone(), v2.clone()]);
                    let query2 = mk_query(&apex, T_IXFR, id, s0);
                    let msgs2 = pack(&recs2, &apex, T_IXFR, id, &Packaging { splits: vec![recs2.len()], question_in_followups: true, compress: false });
                    let refo2 = ref_run(T_IXFR, &recs2, &pre, &apex);
                    if refo2.finished && refo2.verdict == Verdict::Valid {
                        let recv2 = receive(rt, &rz, &query2, &msgs2, false);
                        if judge(&mut k, &format!("one added record, after a transfer with fault {} was refused", f.kind), "ixfr-after-refused-transfer", &recv2, &refo2, &pre, None) {
                            k.c.count("aftermath_transfers_checked", 1);
                        }
                    }
                }
            }
        }
    }
    if k.c.want_sample() && idx % 31 == 3 {
        let d = describe(&want.iter().cloned().collect::<Vec<_>>());
        k.c.sample(json!({"versions": vs.len(), "last": d.into_iter().take(6).collect::<Vec<_>>()}));
    }
}


// ------------------------------------------------- a zone that moves on ----

/// A store layered over the in-memory one (the way `ZoneStore` is meant to be layered) that lets
/// the zone move on at chosen moments: just before its n-th `read()` the next prepared version is
/// committed. Whatever number of read interfaces the sender takes while it prepares a transfer,
/// and whenever the commits land, what it sends must be one published version - SOA and records.
struct MovingStore {
    inner: Zone,
    plan: std::sync::Mutex<Moving>,
}

struct Moving {
    reads: usize,
    /// the read() calls in front of which one more version is committed
    commit_before: Vec<usize>,
    versions: Vec<ZoneC>,
    at: usize,
    seed: u64,
    failed: Option<String>,
}

impl std::fmt::Debug for MovingStore {
    fn fmt(&self, f: &mut std::fmt::Formatter<'_>) -> std::fmt::Result {
        f.write_str("MovingStore")
    }
}

fn poll_now<F: Future>(f: F) -> Option<F::Output> {
    let mut f = Box::pin(f);
    let wk = futures_util::task::noop_waker();
    let mut cx = std::task::Context::from_waker(&wk);
    for _ in 0..100_000 {
        if let std::task::Poll::Ready(v) = f.as_mut().poll(&mut cx) {
            return Some(v);
        }
    }
    None
}

impl domain::zonetree::ZoneStore for MovingStore {
    fn class(&self) -> Class {
        self.inner.class()
    }
    fn apex_name(&self) -> &domain::zonetree::StoredName {
        self.inner.apex_name()
    }
    fn read(self: Arc<Self>) -> Box<dyn domain::zonetree::ReadableZone> {
        let mut m = self.plan.lock().unwrap();
        m.reads += 1;
        let due = m.commit_before.iter().filter(|r| **r == m.reads).count();
        for _ in 0..due {
            if m.at + 1 >= m.versions.len() {
                break;
            }
            let mut rng = Rng::new(&[m.seed, m.at as u64]);
            let r = poll_now(step(&self.inner, &m.versions[m.at], &m.versions[m.at + 1], &mut rng, StepStyle::UpdaterRecords));
            match r {
                Some(Ok(_)) => m.at += 1,
                Some(Err(e)) => m.failed = Some(e),
                None => m.failed = Some("the commit did not complete".into()),
            }
        }
        self.inner.read()
    }
    fn write(self: Arc<Self>) -> Pin<Box<dyn Future<Output = Box<dyn domain::zonetree::WritableZone + 'static>> + Send + Sync + 'static>> {
        self.inner.write()
    }
    fn as_any(&self) -> &dyn std::any::Any {
        self
    }
}

fn moving_case(c: &mut Ctx, rt: &tokio::runtime::Runtime, fam: &str, idx: u64) {
    let mut rng = c.case_rng(fam, idx);
    let base = *rng.pick(&[7u32, 0xffff_fffd, 1_000_000]);
    let nver = rng.range(2, 4);
    let mut vs: Vec<ZoneC> = vec![];
    let mut z0 = gen_zone(&mut rng, base);
    set_serial(&mut z0, base);
    vs.push(z0);
    for i in 1..nver {
        let serial = serial_of_rdata(&soa_of(&vs[i - 1]).rdata).wrapping_add(*rng.pick(&[1u32, 2, 1000]));
        let n = next_version(&mut rng, &vs[i - 1], serial);
        vs.push(n);
    }
    let apex = vs[0].apex.clone();
    let inner = empty_zone(&apex);
    if rt.block_on(fill(&inner, &vs[0])).is_err() {
        return;
    }
    // where the commits land: in front of the first, second, third or fourth read() (the last ones may never come)
    let commit_before: Vec<usize> = (1..nver).map(|_| rng.range(1, 4)).collect();
    let store = Arc::new(MovingStore { inner, plan: std::sync::Mutex::new(Moving { reads: 0, commit_before: commit_before.clone(), versions: vs.clone(), at: 0, seed: c.seed ^ idx, failed: None }) });
    let zone = Zone::new(ArcStore(store.clone()));
    let compat = rng.chance(1, 4);
    let qtype = if rng.chance(1, 4) { T_IXFR } else { T_AXFR };
    let query = mk_query(&apex, qtype, rng.u16(), base.wrapping_sub(3));
    let ex = json!({"versions": vs.iter().map(|z| describe(&content(z).into_iter().collect::<Vec<_>>())).collect::<Vec<_>>(), "commit_before_read": commit_before, "qtype": qtype, "compat": compat});
    let p = Provider { zone, diffs: vec![], compat, always_offer_diffs: false };
    let r = ctx::catch(|| rt.block_on(serve(p, query, None, 0)));
    let msgs = match r {
        Err(pi) => {
            c.violation(&format!("panic:{}", pi.site()), &format!("panic while a transfer is served from a zone that moves on: {} at {}:{}", pi.msg, pi.file, pi.line), c.replay_of(fam, idx, ex));
            return;
        }
        Ok(Err(e)) => {
            c.note(&format!("moving: transfer not served: {}", e));
            return;
        }
        Ok(Ok(m)) => m,
    };
    let m = store.plan.lock().unwrap();
    if let Some(e) = &m.failed {
        c.note(&format!("harness: a scripted commit failed: {}", e));
        return;
    }
    let Some(recs) = flatten(&msgs) else {
        c.violation("moving:stream-unparseable", "the transfer cannot be parsed", c.replay_of(fam, idx, ex));
        return;
    };
    if recs.len() < 2 || recs[0].rtype != T_SOA || recs[recs.len() - 1].rtype != T_SOA {
        c.violation("moving:stream-not-framed", "the transfer does not start and end with an SOA", c.replay_of(fam, idx, ex));
        return;
    }
    let serial = serial_of_rdata(&recs[0].rdata);
    let got: Content = recs[..recs.len() - 1].iter().map(|r| (w::lower(&r.owner), r.rtype, r.ttl, norm(r.rtype, &r.rdata))).collect();
    c.eval(&("moving", m.reads.min(4), m.at, nver, commit_before.iter().map(|x| *x).min()));
    c.count("moving_transfers_served", 1);
    if m.at > 0 {
        c.count("moving_transfers_with_a_commit_during_preparation", 1);
    }
    // every version that was current at some moment of the preparation is a fine answer
    let fits = (0..=m.at).any(|j| content(&vs[j]) == got);
    if !fits {
        let by_serial = (0..vs.len()).find(|j| serial_of_rdata(&soa_of(&vs[*j]).rdata) == serial);
        let others: Vec<usize> = (0..vs.len()).filter(|j| Some(*j) != by_serial && { let cj = content(&vs[*j]); got.iter().filter(|r| r.1 != T_SOA).all(|r| cj.contains(r)) && cj.iter().filter(|r| r.1 != T_SOA).all(|r| got.contains(r)) }).collect();
        let what = match (by_serial, others.first()) {
            (Some(j), Some(o)) => format!("the transfer carries the SOA of version {} (serial {}) around the records of version {}", j, serial, o),
            (Some(j), None) => format!("the transfer carries the SOA of version {} (serial {}) but its records are those of no version: {}", j, serial, diff_text(&content(&vs[j]), &got.iter().cloned().collect::<Vec<_>>())),
            (None, _) => format!("the transfer's SOA serial {} is that of no version", serial),
        };
        c.violation("moving:transfer-is-no-published-version", &format!("{} commits landed in front of read() calls {:?} of {} while the transfer was prepared: {}", m.at, commit_before, m.reads, what), c.replay_of(fam, idx, ex));
    }
}

/// `Zone::new` takes a store by value; this forwards to the shared one the harness keeps a handle on.
#[derive(Debug)]
struct ArcStore(Arc<MovingStore>);
impl domain::zonetree::ZoneStore for ArcStore {
    fn class(&self) -> Class {
        self.0.inner.class()
    }
    fn apex_name(&self) -> &domain::zonetree::StoredName {
        self.0.inner.apex_name()
    }
    fn read(self: Arc<Self>) -> Box<dyn domain::zonetree::ReadableZone> {
        self.0.clone().read()
    }
    fn write(self: Arc<Self>) -> Pin<Box<dyn Future<Output = Box<dyn domain::zonetree::WritableZone + 'static>> + Send + Sync + 'static>> {
        self.0.clone().write()
    }
    fn as_any(&self) -> &dyn std::any::Any {
        self
    }
}

pub fn run(c: &mut Ctx) {
    let rt = tokio::runtime::Builder::new_current_thread().enable_all().build().unwrap();
    c.families(2);
    let fam = "moving";
    let total = c.total(6_000, 300_000);
    for idx in c.cases(fam, total) {
        if c.out_of_time() {
            break;
        }
        ctx::slot_write(idx, &format!("{}|case", fam), &[]);
        moving_case(c, &rt, fam, idx);
    }
    let fam = "pairs";
    let total = c.total(80_000, 3_000_000);
    for idx in c.cases(fam, total) {
        if c.out_of_time() {
            break;
        }
        ctx::slot_write(idx, &format!("{}|case", fam), &[]);
        one_case(c, &rt, fam, idx);
    }
    if !c.replaying() {
        for key in ["commit_diffs_checked", "end_to_end_full", "end_to_end_incremental", "repackaged_full", "repackaged_incremental", "multi_step_incremental", "transfers_accepted", "transfers_rejected", "sender_multi_message_streams", "aftermath_transfers_checked", "sender_streams_with_reserved_octets", "transfers_fetched_through_stream_client", "multi_step_transfers_fetched_through_stream_client", "transfers_fetched_behind_an_abandoned_one", "moving_transfers_served", "moving_transfers_with_a_commit_during_preparation"] {
            c.floor(key, 5);
        }
    }
    let _ = (BTreeMap::<u8, u8>::new(), ParseError::ShortInput);
}
