//! C11 — TSIG: honest exchanges verify, any tampering is rejected, MACs follow RFC 8945.
use crate::ctx::{self, hex, Ctx};
use crate::gen::rdata as g;
use crate::refimpl::tsig as rt;
use crate::refimpl::tsig::{Alg, Kind, RefErr, RefKey};
use crate::refimpl::wire as w;
use crate::rng::Rng;
use domain::base::iana::{Class, Rcode, Rtype};
use domain::base::message::Message;
use domain::base::message_builder::{AdditionalBuilder, MessageBuilder};
use domain::base::name::Name;
use domain::base::rdata::UnknownRecordData;
use domain::base::Ttl;
use domain::rdata::tsig::Time48;
use domain::tsig::{Algorithm, ClientSequence, ClientTransaction, Key, KeyName, ServerSequence, ServerTransaction, ValidationError};
use serde_json::json;
use std::io::Write;
use std::sync::Arc;

const T48_MAX: u64 = (1 << 48) - 1;

fn lib_alg(a: Alg) -> Algorithm {
    match a {
        Alg::Sha1 => Algorithm::Sha1,
        Alg::Sha256 => Algorithm::Sha256,
        Alg::Sha384 => Algorithm::Sha384,
        Alg::Sha512 => Algorithm::Sha512,
    }
}

fn floor_len(a: Alg) -> usize {
    std::cmp::max(10, a.native_len() / 2)
}

pub(crate) struct Keys {
    pub lib: Arc<Key>,
    pub r: RefKey,
}

pub(crate) fn gen_key(rng: &mut Rng) -> Keys {
    let alg = *rng.pick(&Alg::ALL);
    let slen = match rng.below(5) {
        0 => 1,
        1 => alg.native_len(),
        2 => rng.range(65, 200), // longer than the block size of SHA-1/256
        _ => rng.range(1, 64),
    };
    let secret = rng.bytes(slen);
    let nl = rng.range(1, 3);
    let mut text = String::new();
    for _ in 0..nl {
        let l = rng.range(1, 12);
        for _ in 0..l {
            text.push(*rng.pick(&[b'a', b'B', b'k', b'E', b'y', b'0', b'7', b'-', b'Z', b'x']) as char);
        }
        text.push('.');
    }
    let name: KeyName = text.parse().unwrap();
    let native = alg.native_len();
    let fl = floor_len(alg);
    let signing = match rng.below(4) {
        0 => None,
        1 => Some(fl),
        2 => Some(native),
        _ => Some(rng.range(fl, native)),
    };
    let sl = signing.unwrap_or(native);
    let min = match rng.below(4) {
        0 if signing.is_none() => None,
        0 => Some(sl),
        1 => Some(fl),
        2 => Some(sl),
        _ => Some(rng.range(fl, sl)),
    };
    let lib = Key::new(lib_alg(alg), &secret, name.clone(), min, signing).unwrap();
    let r = RefKey { alg, secret, name: name.as_slice().to_vec(), min_mac_len: min.unwrap_or(native), signing_len: sl };
    Keys { lib: Arc::new(lib), r }
}

/// The two ends of an exchange: same name, algorithm and secret, but each with its own truncation
/// policy (RFC 8945 5.2.2.1 lets them differ), chosen so that each accepts what the other sends.
pub(crate) fn gen_key_pair(rng: &mut Rng) -> (Keys, Keys) {
    let a = gen_key(rng);
    if rng.bool() {
        let b = Keys { lib: a.lib.clone(), r: a.r.clone() };
        return (a, b);
    }
    let alg = a.r.alg;
    let (fl, native) = (floor_len(alg), alg.native_len());
    let s_c = rng.range(fl, native);
    let s_s = rng.range(fl, native);
    let m_c = rng.range(fl, s_s);
    let m_s = rng.range(fl, s_c);
    let name: KeyName = Name::<Vec<u8>>::from_octets(a.r.name.clone()).unwrap().to_string().parse().unwrap();
    let mk = |min: usize, sign: usize| Keys { lib: Arc::new(Key::new(lib_alg(alg), &a.r.secret, name.clone(), Some(min), Some(sign)).unwrap()), r: RefKey { alg, secret: a.r.secret.clone(), name: a.r.name.clone(), min_mac_len: min, signing_len: sign } };
    (mk(m_c, s_c), mk(m_s, s_s))
}

/// Fill a message through the library's builder; every record as opaque data of a random type.
fn fill(rng: &mut Rng, mb: MessageBuilder<Vec<u8>>, request: Option<&Message<Vec<u8>>>) -> AdditionalBuilder<Vec<u8>> {
    let pool = g::NamePool::new(rng, 4);
    let mut pick = |r: &mut Rng| pool.pick(r);
    let name = |wire: &[u8]| Name::<Vec<u8>>::from_octets(wire.to_vec()).unwrap();
    let mut ab = match request {
        Some(req) => mb.start_answer(req, *rng.pick(&[Rcode::NOERROR, Rcode::NXDOMAIN, Rcode::REFUSED])).unwrap(),
        None => {
            let mut mb = mb;
            mb.header_mut().set_id(rng.u16());
            mb.header_mut().set_rd(rng.bool());
            mb.header_mut().set_cd(rng.bool());
            if rng.chance(1, 6) {
                mb.header_mut().set_opcode(*rng.pick(&[domain::base::iana::Opcode::NOTIFY, domain::base::iana::Opcode::UPDATE]));
            }
            let mut qb = mb.question();
            let nq = match rng.below(8) {
                0 => 0,
                1 => 2,
                _ => 1,
            };
            for _ in 0..nq {
                let qt = *rng.pick(&[1u16, 28, 6, 252, 251, 255, 16]);
                qb.push((name(&pick(rng)), Rtype::from_int(qt), Class::IN)).unwrap();
            }
            qb.answer()
        }
    };
    if request.is_some() {
        ab.header_mut().set_aa(rng.bool());
        ab.header_mut().set_ra(rng.bool());
    }
    let mut push = |rng: &mut Rng, sec: u8, ab: &mut dyn FnMut(Name<Vec<u8>>, u32, UnknownRecordData<Vec<u8>>)| {
        let n = rng.below(3);
        for _ in 0..n {
            let mut t = g::pick_type(rng, false);
            if t == rt::T_TSIG || t == w::T_OPT || t == 0 {
                t = 1;
            }
            let fs = g::fields(rng, t, &mut pick);
            let rd = w::compose_fields(&fs);
            if rd.len() > 120 {
                continue;
            }
            let _ = sec;
            ab(name(&pick(rng)), rng.u32() >> rng.below(32), UnknownRecordData::from_octets(Rtype::from_int(t), rd).unwrap());
        }
    };
    push(rng, 1, &mut |n, ttl, d| ab.push((n, Class::IN, Ttl::from_secs(ttl & 0x7fff_ffff), d)).unwrap());
    let mut nb = ab.authority();
    push(rng, 2, &mut |n, ttl, d| nb.push((n, Class::IN, Ttl::from_secs(ttl & 0x7fff_ffff), d)).unwrap());
    let mut xb = nb.additional();
    push(rng, 3, &mut |n, ttl, d| xb.push((n, Class::IN, Ttl::from_secs(ttl & 0x7fff_ffff), d)).unwrap());
    if rng.bool() {
        xb.opt(|o| {
            o.set_udp_payload_size(1232);
            o.set_dnssec_ok(true);
            Ok(())
        })
        .unwrap();
    }
    xb
}

fn gen_time(rng: &mut Rng) -> u64 {
    match rng.below(8) {
        0 => rng.below(400) as u64,
        1 => T48_MAX - rng.below(400) as u64,
        2 => 0xffff_ffff + rng.below(3) as u64 - 1,
        _ => 1_700_000_000 + (rng.u32() as u64 % 100_000_000),
    }
}

fn gen_fudge(rng: &mut Rng) -> u16 {
    match rng.below(6) {
        0 => 0,
        1 => 1,
        2 => 65535,
        3 => rng.u16(),
        _ => 300,
    }
}

fn offset_time(rng: &mut Rng, t: u64, fudge: u16) -> u64 {
    let f = fudge as i128;
    let d: i128 = *rng.pick(&[-f - 1, -f, -1, 0, 0, 0, 1, f, f + 1, -f - 1000, f + 1000]);
    (t as i128 + d).clamp(0, T48_MAX as i128) as u64
}

fn t48(t: u64) -> Time48 {
    Time48::from_u64(t)
}

struct Log(Option<std::fs::File>);
impl Log {
    #[allow(clippy::too_many_arguments)]
    fn mac(&mut self, k: &RefKey, kind: &str, prior: Option<&[u8]>, unsigned: &[Vec<u8>], msg: &[u8], time: u64, fudge: u16, error: u16, other: &[u8], mac_sent: &[u8]) {
        if let Some(f) = &mut self.0 {
            let _ = writeln!(
                f,
                "{}",
                json!({"alg": k.alg.text(), "secret": hex(&k.secret), "key_name": hex(&w::lower(&k.name)), "kind": kind, "prior": prior.map(hex), "unsigned": unsigned.iter().map(|u| hex(u)).collect::<Vec<_>>(),
                "msg": hex(msg), "time": time, "fudge": fudge, "error": error, "other": hex(other), "mac": hex(mac_sent)})
            );
        }
    }
}

fn err_class(e: &ValidationError) -> &'static str {
    match e {
        ValidationError::BadAlg => "BadAlg",
        ValidationError::BadOther => "BadOther",
        ValidationError::BadSig => "BadSig",
        ValidationError::BadTrunc => "BadTrunc",
        ValidationError::BadKey => "BadKey",
        ValidationError::BadTime => "BadTime",
        ValidationError::FormErr => "FormErr",
        ValidationError::ServerUnsigned => "Unsigned",
        ValidationError::ServerBadKey => "ServerBadKey",
        ValidationError::ServerBadSig => "ServerBadSig",
        ValidationError::ServerBadTime { .. } => "ServerBadTime",
        ValidationError::TooManyUnsigned => "TooManyUnsigned",
    }
}

fn ref_class(e: &RefErr) -> &'static str {
    match e {
        RefErr::FormErr => "FormErr",
        RefErr::Unsigned => "Unsigned",
        RefErr::BadKey => "BadKey",
        RefErr::BadSig => "BadSig",
        RefErr::BadTrunc => "BadTrunc",
        RefErr::BadTime => "BadTime",
    }
}

/// What the server side of the library says about a (possibly tampered) request.
enum SrvOut {
    Accepted(ServerTransaction<Arc<Key>>, Vec<u8>),
    Unsigned,
    Error(&'static str, Vec<u8>),
    Panic(ctx::PanicInfo),
}

fn server_check(key: &Arc<Key>, msg: &[u8], now: u64) -> SrvOut {
    let r = ctx::catch(|| {
        let Ok(mut m) = Message::from_octets(msg.to_vec()) else { return SrvOut::Error("FormErr", vec![]) };
        match ServerTransaction::request(key, &mut m, t48(now)) {
            Ok(Some(tx)) => SrvOut::Accepted(tx, m.into_octets()),
            Ok(None) => SrvOut::Unsigned,
            Err(e) => {
                let code = e.error().to_int();
                let class = match code {
                    1 => "FormErr",
                    16 => "BadSig",
                    17 => "BadKey",
                    18 => "BadTime",
                    22 => "BadTrunc",
                    _ => "other",
                };
                // a server always answers: building the error response must work
                let resp = match Message::from_octets(msg.to_vec()) {
                    Ok(orig) => e.build_message(&orig, MessageBuilder::new_vec()).map(|b| b.finish()).unwrap_or_default(),
                    Err(_) => vec![],
                };
                SrvOut::Error(class, resp)
            }
        }
    });
    match r {
        Ok(o) => o,
        Err(pi) => SrvOut::Panic(pi),
    }
}

enum CliOut {
    Accepted(Vec<u8>),
    Error(&'static str),
    Panic(ctx::PanicInfo),
}

fn client_check(tx: &ClientTransaction<Arc<Key>>, msg: &[u8], now: u64) -> CliOut {
    let r = ctx::catch(|| {
        let Ok(mut m) = Message::from_octets(msg.to_vec()) else { return CliOut::Error("FormErr") };
        match tx.answer(&mut m, t48(now)) {
            Ok(()) => CliOut::Accepted(m.into_octets()),
            Err(e) => CliOut::Error(err_class(&e)),
        }
    });
    match r {
        Ok(o) => o,
        Err(pi) => CliOut::Panic(pi),
    }
}

/// After a successful verification the message is what it was before signing: same header, same
/// records (the TSIG RR's octets may linger behind the last record; the sections no longer reach them).
fn restored(after: &[u8], pre: &[u8]) -> bool {
    after.len() >= pre.len() && after[..pre.len()] == pre[..]
}

/// Structural edits of a signed message, by re-attaching an altered TSIG RR.
fn edits(rng: &mut Rng, signed: &[u8], k: &RefKey) -> Vec<(&'static str, Vec<u8>)> {
    let rt::Found::Tsig(t) = rt::find(signed) else { return vec![] };
    let mut base = signed[..t.start].to_vec();
    let ar = u16::from_be_bytes([base[10], base[11]]) - 1;
    base[10..12].copy_from_slice(&ar.to_be_bytes());
    let re = |t: &rt::RefTsig| rt::attach(&base, &t.owner, &t.alg_name, t.time, t.fudge, &t.mac, t.orig_id, t.error, &t.other);
    let mut v: Vec<(&'static str, Vec<u8>)> = Vec::new();
    v.push(("tsig-removed", base.clone()));
    {
        // twice
        let once = re(&t);
        let rr = &once[t.start..];
        let mut m = once.clone();
        m.extend_from_slice(rr);
        let ar = u16::from_be_bytes([m[10], m[11]]) + 1;
        m[10..12].copy_from_slice(&ar.to_be_bytes());
        v.push(("tsig-twice", m));
    }
    {
        // not last
        let mut m = re(&t);
        m.extend(w::compose_record(b"\x01a\x00", 1, 1, 60, &[192, 0, 2, 1]));
        let ar = u16::from_be_bytes([m[10], m[11]]) + 1;
        m[10..12].copy_from_slice(&ar.to_be_bytes());
        v.push(("tsig-not-last", m));
    }
    {
        // in the answer section instead (moved to the front of the records is too invasive: count it as answer)
        let mut m = re(&t);
        if u16::from_be_bytes([m[6], m[7]]) == 0 && u16::from_be_bytes([m[8], m[9]]) == 0 && u16::from_be_bytes([m[10], m[11]]) == 1 {
            m[6..8].copy_from_slice(&1u16.to_be_bytes());
            m[10..12].copy_from_slice(&0u16.to_be_bytes());
            v.push(("tsig-in-answer-section", m));
        }
    }
    let mut e = |label: &'static str, f: &dyn Fn(&mut rt::RefTsig)| {
        let mut t2 = t.clone();
        f(&mut t2);
        v.push((label, re(&t2)));
    };
    e("key-name-other", &|t| {
        let p = t.owner.len() - 2;
        t.owner[p] = if t.owner[p] == b'q' { b'r' } else { b'q' };
    });
    e("key-name-case", &|t| {
        for b in t.owner.iter_mut() {
            if b.is_ascii_alphabetic() {
                *b ^= 0x20;
            }
        }
    });
    let other_alg = *Alg::ALL.iter().find(|a| **a != k.alg).unwrap();
    e("algorithm-other", &|t| t.alg_name = other_alg.name_wire());
    e("algorithm-unknown", &|t| t.alg_name = b"\x08hmac-md6\x00".to_vec());
    e("algorithm-case", &|t| t.alg_name = t.alg_name.to_ascii_uppercase());
    e("original-id", &|t| t.orig_id ^= 0x0100);
    e("time-plus-one", &|t| t.time = (t.time + 1) & T48_MAX);
    e("fudge-changed", &|t| t.fudge ^= 1);
    e("error-set", &|t| t.error = 16);
    e("other-data-added", &|t| t.other = vec![0, 0, 0, 0, 0, 9]);
    e("other-data-3-octets", &|t| t.other = vec![1, 2, 3]);
    let fl = floor_len(k.alg);
    let keep = rng.range(fl, t.mac.len());
    e("mac-truncated-in-bounds", &|t| t.mac.truncate(keep));
    e("mac-truncated-to-min", &|t| t.mac.truncate(k.min_mac_len.min(t.mac.len())));
    if k.min_mac_len > fl {
        e("mac-truncated-below-min", &|t| t.mac.truncate(k.min_mac_len - 1));
    }
    e("mac-truncated-below-floor", &|t| t.mac.truncate(fl - 1));
    e("mac-empty", &|t| t.mac.clear());
    e("mac-extended", &|t| t.mac.push(0x5a));
    e("mac-longer-than-native", &|t| {
        while t.mac.len() <= k.alg.native_len() {
            t.mac.push(0);
        }
    });
    e("mac-last-octet", &|t| {
        let l = t.mac.len() - 1;
        t.mac[l] ^= 1;
    });
    {
        // class and TTL of the TSIG RR
        let mut m = re(&t);
        let p = t.start + t.owner.len() + 2;
        m[p + 1] ^= 0x01; // class ANY -> 254
        v.push(("tsig-class", m));
        let mut m = re(&t);
        m[p + 2 + 3] ^= 0x01; // TTL 0 -> 1
        v.push(("tsig-ttl", m));
    }
    v
}

#[allow(clippy::too_many_arguments)]
fn tamper_server(c: &mut Ctx, fam: &str, idx: u64, rng: &mut Rng, ks: &Keys, signed: &[u8], pre: &[u8], now: u64, ex: &serde_json::Value) {
    // every single-bit flip (a sample for long messages) and the structural edits
    let nbits = signed.len() * 8;
    let all = nbits <= 3200 || (c.tier == crate::ctx::Tier::Thorough);
    let mut cases: Vec<(String, Vec<u8>)> = Vec::new();
    let picks: Vec<usize> = if all { (0..nbits).collect() } else { (0..2400).map(|_| rng.below(nbits)).collect() };
    for b in picks {
        let mut m = signed.to_vec();
        m[b / 8] ^= 1 << (b % 8);
        cases.push((format!("bit{}", b), m));
    }
    let nflips = cases.len();
    for (l, m) in edits(rng, signed, &ks.r) {
        cases.push((l.to_string(), m));
    }
    for (ci, (label, m)) in cases.into_iter().enumerate() {
        let is_flip = ci < nflips;
        let want = rt::verify(&ks.r, &Kind::Request, &m, now);
        let got = server_check(&ks.lib, &m, now);
        let region = if is_flip { flip_region(signed, ci_bit(&label)) } else { label.clone() };
        let rp = |c: &Ctx| c.replay_of(fam, idx, json!({"ctx": ex, "tamper": label, "message": hex(&m)}));
        match (&want, &got) {
            (_, SrvOut::Panic(pi)) => {
                c.violation(&format!("panic:{}", pi.site()), &format!("panic while a server handles a tampered request ({}): {} at {}:{}", label, pi.msg, pi.file, pi.line), rp(c));
                return;
            }
            (Err(e), SrvOut::Accepted(..)) => {
                c.violation(&format!("tampered-request-accepted:{}", region), &format!("request altered by [{}] verifies on the server although RFC 8945 makes it {}", label, ref_class(e)), rp(c));
                return;
            }
            (Ok((m0, _)), SrvOut::Accepted(_, after)) => {
                if !restored(after, m0) {
                    c.violation("request-not-restored", &format!("after verifying a request altered by [{}] (an alteration the RFC tolerates) the message is not the one that was signed", label), rp(c));
                    return;
                }
                c.count("tampered_but_authentic_by_rfc", 1);
            }
            (Ok(_), SrvOut::Unsigned) | (Ok(_), SrvOut::Error(..)) => {
                let what = if let SrvOut::Error(cl, _) = &got { *cl } else { "unsigned" };
                c.violation(&format!("authentic-request-rejected:{}", region), &format!("request altered by [{}] is still authentic by RFC 8945 (the alteration is outside what TSIG covers) but the server answers {}", label, what), rp(c));
                return;
            }
            (Err(e), SrvOut::Unsigned) => {
                if is_flip && *e == RefErr::FormErr {
                    // the flip turned the TSIG RR into something the reference parser refuses (a compression
                    // pointer that does not point backwards) and the library reads as a record of another type
                    c.count("mangled_tsig_read_as_other_record", 1);
                } else if *e != RefErr::Unsigned {
                    c.violation(&format!("tsig-overlooked:{}", region), &format!("request altered by [{}] is treated as carrying no TSIG; RFC 8945 makes it {}", label, ref_class(e)), rp(c));
                    return;
                }
            }
            (Err(e), SrvOut::Error(cl, resp)) => {
                if !is_flip && ref_class(e) != *cl && *e != RefErr::Unsigned {
                    c.violation(&format!("error-class:request:{}:{}-instead-of-{}", label, cl, ref_class(e)), &format!("request altered by [{}]: the server's TSIG error is {} where RFC 8945 assigns {}", label, cl, ref_class(e)), rp(c));
                    return;
                }
                if is_flip && ref_class(e) != *cl {
                    c.count("flip_error_class_differs", 1);
                }
                if !resp.is_empty() && w::parse_message(resp).is_err() {
                    c.violation("error-response-unparsable", &format!("the error response built for a request altered by [{}] cannot be parsed", label), rp(c));
                    return;
                }
            }
        }
        c.evals_n(1);
    }
    c.count("request_tampers", nflips as u64);
    let _ = pre;
}

fn ci_bit(label: &str) -> usize {
    label.trim_start_matches("bit").parse().unwrap_or(0)
}

/// Which part of the signed message a bit belongs to.
fn flip_region(signed: &[u8], bit: usize) -> String {
    let byte = bit / 8;
    let rt::Found::Tsig(t) = rt::find(signed) else { return "?".into() };
    if byte < 2 {
        return "header-id".into();
    }
    if byte < 12 {
        return "header".into();
    }
    if byte < t.start {
        return "body".into();
    }
    let o = byte - t.start;
    let ol = t.owner.len();
    if o < ol {
        return "tsig-owner".into();
    }
    if o < ol + 2 {
        return "tsig-type".into();
    }
    if o < ol + 4 {
        return "tsig-class".into();
    }
    if o < ol + 8 {
        return "tsig-ttl".into();
    }
    if o < ol + 10 {
        return "tsig-rdlen".into();
    }
    let r = o - ol - 10;
    let al = t.alg_name.len();
    if r < al {
        return "tsig-algorithm".into();
    }
    if r < al + 6 {
        return "tsig-time".into();
    }
    if r < al + 8 {
        return "tsig-fudge".into();
    }
    if r < al + 10 {
        return "tsig-macsize".into();
    }
    if r < al + 10 + t.mac.len() {
        return "tsig-mac".into();
    }
    "tsig-tail".into()
}

#[allow(clippy::too_many_arguments)]
fn tamper_client(c: &mut Ctx, fam: &str, idx: u64, rng: &mut Rng, ks: &Keys, tx: &ClientTransaction<Arc<Key>>, req_mac: &[u8], signed: &[u8], now: u64, ex: &serde_json::Value) {
    let nbits = signed.len() * 8;
    let all = nbits <= 3200 || (c.tier == crate::ctx::Tier::Thorough);
    let mut cases: Vec<(String, Vec<u8>)> = Vec::new();
    let picks: Vec<usize> = if all { (0..nbits).collect() } else { (0..2400).map(|_| rng.below(nbits)).collect() };
    for b in picks {
        let mut m = signed.to_vec();
        m[b / 8] ^= 1 << (b % 8);
        cases.push((format!("bit{}", b), m));
    }
    let nflips = cases.len();
    for (l, m) in edits(rng, signed, &ks.r) {
        cases.push((l.to_string(), m));
    }
    let kind = Kind::Response { request_mac: req_mac };
    for (ci, (label, m)) in cases.into_iter().enumerate() {
        let is_flip = ci < nflips;
        let want = rt::verify(&ks.r, &kind, &m, now);
        let got = client_check(tx, &m, now);
        let region = if is_flip { flip_region(signed, ci_bit(&label)) } else { label.clone() };
        let rp = |c: &Ctx| c.replay_of(fam, idx, json!({"ctx": ex, "tamper": label, "message": hex(&m)}));
        // an error response says so itself: rcode NOTAUTH with a TSIG error is reported as such, whatever the MAC
        let notauth = m.len() > 3 && m[3] & 0x0f == 9;
        match (&want, &got) {
            (_, CliOut::Panic(pi)) => {
                c.violation(&format!("panic:{}", pi.site()), &format!("panic while a client checks a tampered response ({}): {} at {}:{}", label, pi.msg, pi.file, pi.line), rp(c));
                return;
            }
            (Err(e), CliOut::Accepted(_)) => {
                c.violation(&format!("tampered-response-accepted:{}", region), &format!("response altered by [{}] verifies on the client although RFC 8945 makes it {}", label, ref_class(e)), rp(c));
                return;
            }
            (Ok((m0, _)), CliOut::Accepted(after)) => {
                if !restored(after, m0) {
                    c.violation("response-not-restored", &format!("after verifying a response altered by [{}] the message is not the one that was signed", label), rp(c));
                    return;
                }
                c.count("tampered_but_authentic_by_rfc", 1);
            }
            (Ok(_), CliOut::Error(cl)) => {
                if !(notauth && cl.starts_with("Server")) {
                    c.violation(&format!("authentic-response-rejected:{}", region), &format!("response altered by [{}] is still authentic by RFC 8945 but the client reports {}", label, cl), rp(c));
                    return;
                }
            }
            (Err(e), CliOut::Error(cl)) => {
                if !is_flip && ref_class(e) != *cl && !(notauth && cl.starts_with("Server")) {
                    c.violation(&format!("error-class:response:{}:{}-instead-of-{}", label, cl, ref_class(e)), &format!("response altered by [{}]: the client reports {} where RFC 8945 assigns {}", label, cl, ref_class(e)), rp(c));
                    return;
                }
                if is_flip && ref_class(e) != *cl {
                    c.count("flip_error_class_differs", 1);
                }
            }
        }
        c.evals_n(1);
    }
    c.count("response_tampers", nflips as u64);
}

fn exchange(c: &mut Ctx, fam: &str, idx: u64, log: &mut Log) {
    let mut rng = c.case_rng(fam, idx);
    let (kc, ksv) = gen_key_pair(&mut rng);
    let t0 = gen_time(&mut rng);
    let fudge = gen_fudge(&mut rng);
    let now_s = offset_time(&mut rng, t0, fudge);
    let ex = json!({"alg": kc.r.alg.text(), "secret": hex(&kc.r.secret), "key_name": hex(&kc.r.name), "client_min_mac_len": kc.r.min_mac_len, "client_signing_len": kc.r.signing_len, "server_min_mac_len": ksv.r.min_mac_len, "server_signing_len": ksv.r.signing_len, "t0": t0, "fudge": fudge, "server_now": now_s});
    // --- request
    ctx::step("client request");
    let mut rb = fill(&mut rng, MessageBuilder::new_vec(), None);
    let pre = rb.as_slice().to_vec();
    let id = u16::from_be_bytes([pre[0], pre[1]]);
    let tx = match ctx::catch(|| ClientTransaction::request_with_fudge(kc.lib.clone(), &mut rb, t48(t0), fudge)) {
        Ok(Ok(t)) => t,
        Ok(Err(_)) => return,
        Err(pi) => {
            c.violation(&format!("panic:{}", pi.site()), &format!("panic signing a request: {}", pi.msg), c.replay_of(fam, idx, ex.clone()));
            return;
        }
    };
    let signed = rb.finish();
    let rp = |c: &Ctx, extra: serde_json::Value| c.replay_of(fam, idx, json!({"ctx": ex, "more": extra}));
    let t = match rt::find(&signed) {
        rt::Found::Tsig(t) => t,
        other => {
            c.violation("signed-request-malformed", &format!("the signed request has no well-formed TSIG RR at the end: {:?}", other), rp(c, json!({"signed": hex(&signed)})));
            return;
        }
    };
    let want_mac = rt::mac_for(&kc.r, &Kind::Request, &pre, t0, fudge, 0, &[]);
    log.mac(&kc.r, "request", None, &[], &pre, t.time, t.fudge, t.error, &t.other, &t.mac);
    let fields_ok = t.time == t0 && t.fudge == fudge && t.orig_id == id && t.error == 0 && t.other.is_empty() && t.class == 255 && t.ttl == 0 && w::lower(&t.owner) == w::lower(&kc.r.name) && t.alg_name == kc.r.alg.name_wire() && rt::stripped(&signed, &t) == pre;
    if !fields_ok {
        c.violation("request-tsig-fields", "the TSIG RR of a signed request does not carry the values RFC 8945 4.2 prescribes", rp(c, json!({"signed": hex(&signed)})));
        return;
    }
    if t.mac[..] != want_mac[..kc.r.signing_len] {
        c.violation(&format!("mac-differs:request:{}", kc.r.alg.text()), &format!("request MAC {} differs from the RFC 8945 computation {}", hex(&t.mac), hex(&want_mac[..kc.r.signing_len])), rp(c, json!({"signed": hex(&signed)})));
        return;
    }
    c.count("macs_compared", 1);
    // --- server verifies
    ctx::step("server request");
    let want = rt::verify(&ksv.r, &Kind::Request, &signed, now_s);
    let got = server_check(&ksv.lib, &signed, now_s);
    let srv = match (&want, got) {
        (_, SrvOut::Panic(pi)) => {
            c.violation(&format!("panic:{}", pi.site()), &format!("panic verifying an honest request: {}", pi.msg), rp(c, json!({})));
            return;
        }
        (Ok(_), SrvOut::Accepted(tx, after)) => {
            if !restored(&after, &pre) {
                c.violation("request-not-restored", "after successful verification the request is not the message that was signed", rp(c, json!({"after": hex(&after), "pre": hex(&pre)})));
                return;
            }
            c.count("honest_requests_verified", 1);
            Some((tx, after))
        }
        (Err(RefErr::BadTime), SrvOut::Error("BadTime", resp)) => {
            c.count("requests_outside_window_rejected", 1);
            // the signed BADTIME response
            ctx::step("badtime response");
            match rt::find(&resp) {
                rt::Found::Tsig(rtsig) => {
                    let stripped = rt::stripped(&resp, &rtsig);
                    let other = rt::time48(now_s).to_vec();
                    let want = rt::mac_for(&ksv.r, &Kind::Response { request_mac: &t.mac }, &stripped, t0, fudge, 18, &other);
                    log.mac(&ksv.r, "response", Some(&t.mac), &[], &stripped, rtsig.time, rtsig.fudge, rtsig.error, &rtsig.other, &rtsig.mac);
                    if rtsig.error != 18 || rtsig.other != other || rtsig.time != t0 || resp[3] & 0x0f != 9 {
                        c.violation("badtime-response-fields", "a BADTIME response must be NOTAUTH, carry error 18, the client's time signed and the server's time as other data (RFC 8945 5.2.3)", rp(c, json!({"response": hex(&resp)})));
                        return;
                    }
                    if rtsig.mac[..] != want[..ksv.r.signing_len] {
                        c.violation("mac-differs:badtime-response", &format!("the MAC of a BADTIME response, {}, differs from the RFC 8945 computation {}", hex(&rtsig.mac), hex(&want[..ksv.r.signing_len])), rp(c, json!({"response": hex(&resp)})));
                        return;
                    }
                    c.count("macs_compared", 1);
                    c.count("badtime_responses_checked", 1);
                    // the client's view
                    let now_c = offset_time(&mut rng, now_s, 300);
                    let mut m = Message::from_octets(resp.clone()).unwrap();
                    match tx.answer(&mut m, t48(now_c)) {
                        Err(ValidationError::ServerBadTime { client, server }) if u64::from(client) == t0 && u64::from(server) == now_s => {}
                        other => {
                            c.violation("badtime-response-client", &format!("the client reports {:?} for a signed BADTIME response", other.err().map(|e| err_class(&e))), rp(c, json!({"response": hex(&resp)})));
                            return;
                        }
                    }
                }
                other => {
                    c.violation("badtime-response-unsigned", &format!("the BADTIME response is not signed: {:?}", other), rp(c, json!({"response": hex(&resp)})));
                    return;
                }
            }
            c.eval(&("badtime", kc.r.alg.text(), kc.r.signing_len == kc.r.alg.native_len(), now_s > t0));
            None
        }
        (w_, g_) => {
            let g = match g_ {
                SrvOut::Accepted(..) => "accepted".to_string(),
                SrvOut::Unsigned => "unsigned".to_string(),
                SrvOut::Error(cl, _) => cl.to_string(),
                SrvOut::Panic(_) => unreachable!(),
            };
            let sig = if w_.is_ok() { "honest-request-rejected" } else { "time-window:request" };
            c.violation(sig, &format!("honest request signed at {} with fudge {}, checked at {}: RFC 8945 says {:?}, the server says {}", t0, fudge, now_s, w_.as_ref().map(|_| "ok").map_err(ref_class), g), rp(c, json!({"signed": hex(&signed)})));
            return;
        }
    };
    // --- tampering with the request
    ctx::step("tamper request");
    if rng.chance(1, 2) || (c.tier == crate::ctx::Tier::Thorough) {
        tamper_server(c, fam, idx, &mut rng, &ksv, &signed, &pre, now_s.min(t0 + fudge as u64).max(t0.saturating_sub(fudge as u64)), &ex);
    }
    let Some((stx, req_after)) = srv else { return };
    // --- response
    ctx::step("server answer");
    let req_msg = Message::from_octets(req_after[..pre.len()].to_vec()).unwrap();
    let mut ab = fill(&mut rng, MessageBuilder::new_vec(), Some(&req_msg));
    let pre2 = ab.as_slice().to_vec();
    let t1 = gen_time(&mut rng);
    let fudge2 = gen_fudge(&mut rng);
    if let Err(pi) = ctx::catch(|| stx.answer_with_fudge(&mut ab, t48(t1), fudge2)) {
        c.violation(&format!("panic:{}", pi.site()), &format!("panic signing a response: {}", pi.msg), rp(c, json!({})));
        return;
    }
    let resp = ab.finish();
    let rtsig = match rt::find(&resp) {
        rt::Found::Tsig(t) => t,
        other => {
            c.violation("signed-response-malformed", &format!("{:?}", other), rp(c, json!({"response": hex(&resp)})));
            return;
        }
    };
    let want_mac = rt::mac_for(&ksv.r, &Kind::Response { request_mac: &t.mac }, &pre2, t1, fudge2, 0, &[]);
    log.mac(&ksv.r, "response", Some(&t.mac), &[], &pre2, rtsig.time, rtsig.fudge, rtsig.error, &rtsig.other, &rtsig.mac);
    if rtsig.mac[..] != want_mac[..ksv.r.signing_len] || rt::stripped(&resp, &rtsig) != pre2 || rtsig.time != t1 || rtsig.fudge != fudge2 {
        c.violation(&format!("mac-differs:response:{}", kc.r.alg.text()), &format!("response MAC {} differs from the RFC 8945 computation {} (or the TSIG fields are off)", hex(&rtsig.mac), hex(&want_mac[..ksv.r.signing_len])), rp(c, json!({"response": hex(&resp)})));
        return;
    }
    c.count("macs_compared", 1);
    ctx::step("client answer");
    let now_c = offset_time(&mut rng, t1, fudge2);
    let want = rt::verify(&kc.r, &Kind::Response { request_mac: &t.mac }, &resp, now_c);
    match (&want, client_check(&tx, &resp, now_c)) {
        (_, CliOut::Panic(pi)) => {
            c.violation(&format!("panic:{}", pi.site()), &format!("panic verifying an honest response: {}", pi.msg), rp(c, json!({})));
            return;
        }
        (Ok(_), CliOut::Accepted(after)) => {
            if !restored(&after, &pre2) {
                c.violation("response-not-restored", "after successful verification the response is not the message that was signed", rp(c, json!({"after": hex(&after), "pre": hex(&pre2)})));
                return;
            }
            c.count("honest_responses_verified", 1);
        }
        (Err(RefErr::BadTime), CliOut::Error("BadTime")) => {
            c.count("responses_outside_window_rejected", 1);
        }
        (w_, g_) => {
            let g = match g_ {
                CliOut::Accepted(_) => "accepted".to_string(),
                CliOut::Error(cl) => cl.to_string(),
                CliOut::Panic(_) => unreachable!(),
            };
            let sig = if w_.is_ok() { "honest-response-rejected" } else { "time-window:response" };
            c.violation(sig, &format!("honest response signed at {} with fudge {}, checked at {}: RFC 8945 says {:?}, the client says {}", t1, fudge2, now_c, w_.as_ref().map(|_| "ok").map_err(ref_class), g), rp(c, json!({"response": hex(&resp)})));
            return;
        }
    }
    if rng.chance(1, 2) || (c.tier == crate::ctx::Tier::Thorough) {
        ctx::step("tamper response");
        let inside = now_c.min(t1 + fudge2 as u64).max(t1.saturating_sub(fudge2 as u64));
        tamper_client(c, fam, idx, &mut rng, &kc, &tx, &t.mac, &resp, inside, &ex);
    }
    let dt = (now_s as i128 - t0 as i128).signum();
    c.eval(&("exchange", kc.r.alg.text(), kc.r.signing_len == kc.r.alg.native_len(), ksv.r.signing_len == kc.r.signing_len, kc.r.min_mac_len == kc.r.signing_len, fudge.min(2), dt, want.is_ok(), pre.len() / 64));
    if c.want_sample() && idx % 17 == 0 {
        c.sample(json!({"alg": kc.r.alg.text(), "signing_len": kc.r.signing_len, "request_len": signed.len(), "response_len": resp.len(), "t0": t0, "fudge": fudge, "server_now": now_s}));
    }
}

/// Multi-message responses: the library's server against the reference, the reference server
/// (which may leave messages unsigned) against the library's client.
fn sequence(c: &mut Ctx, fam: &str, idx: u64, log: &mut Log) {
    let mut rng = c.case_rng(fam, idx);
    let (kc, ksv) = gen_key_pair(&mut rng);
    let t0 = gen_time(&mut rng).min(T48_MAX - 100_000);
    let ex = json!({"alg": ksv.r.alg.text(), "secret": hex(&ksv.r.secret), "key_name": hex(&ksv.r.name), "client_min_mac_len": kc.r.min_mac_len, "client_signing_len": kc.r.signing_len, "server_min_mac_len": ksv.r.min_mac_len, "server_signing_len": ksv.r.signing_len, "t0": t0});
    let rp = |c: &Ctx, extra: serde_json::Value| c.replay_of(fam, idx, json!({"ctx": ex, "more": extra}));
    let mut rb = fill(&mut rng, MessageBuilder::new_vec(), None);
    let pre = rb.as_slice().to_vec();
    let Ok(mut cseq) = ClientSequence::request_with_fudge(kc.lib.clone(), &mut rb, t48(t0), 300) else { return };
    let signed = rb.finish();
    let rt::Found::Tsig(t) = rt::find(&signed) else {
        c.violation("signed-request-malformed", "sequence request", rp(c, json!({})));
        return;
    };
    let req_mac = t.mac.clone();
    let req_msg = Message::from_octets(pre.clone()).unwrap();
    let lib_server = rng.chance(1, 3);
    if lib_server {
        // the library signs every message
        ctx::step("lib server sequence");
        let mut m = Message::from_octets(signed.clone()).unwrap();
        let mut sseq = match ServerSequence::request(&ksv.lib, &mut m, t48(t0)) {
            Ok(Some(s)) => s,
            _ => {
                c.violation("honest-request-rejected", "ServerSequence::request refuses an honest request", rp(c, json!({})));
                return;
            }
        };
        let n = rng.range(1, 7);
        let mut prior = req_mac.clone();
        for i in 0..n {
            let mut ab = fill(&mut rng, MessageBuilder::new_vec(), Some(&req_msg));
            let prei = ab.as_slice().to_vec();
            let ti = t0 + i as u64;
            if sseq.answer_with_fudge(&mut ab, t48(ti), 300).is_err() {
                return;
            }
            let ri = ab.finish();
            let rt::Found::Tsig(ts) = rt::find(&ri) else {
                c.violation("signed-response-malformed", "sequence response", rp(c, json!({"i": i})));
                return;
            };
            let kind = if i == 0 { Kind::Response { request_mac: &prior } } else { Kind::Subsequent { prior_mac: &prior, unsigned: &[] } };
            let want = rt::mac_for(&ksv.r, &kind, &prei, ti, 300, 0, &[]);
            log.mac(&ksv.r, if i == 0 { "response" } else { "subsequent" }, Some(&prior), &[], &prei, ts.time, ts.fudge, ts.error, &ts.other, &ts.mac);
            if ts.mac[..] != want[..ksv.r.signing_len] {
                let trunc = ksv.r.signing_len != ksv.r.alg.native_len();
                c.violation(
                    &format!("mac-differs:sequence-message:{}", if trunc { "truncated-mac" } else { "full-mac" }),
                    &format!("message {} of a signed multi-message response: MAC {} differs from the RFC 8945 computation {} (prior MAC as sent: {} octets)", i + 1, hex(&ts.mac), hex(&want[..ksv.r.signing_len]), prior.len()),
                    rp(c, json!({"i": i, "message": hex(&ri)})),
                );
                return;
            }
            c.count("macs_compared", 1);
            // and the library's client agrees
            let mut mi = Message::from_octets(ri.clone()).unwrap();
            if let Err(e) = cseq.answer(&mut mi, t48(ti)) {
                c.violation("honest-sequence-rejected", &format!("ClientSequence refuses message {} signed by ServerSequence: {}", i + 1, err_class(&e)), rp(c, json!({"i": i})));
                return;
            }
            if !restored(mi.as_slice(), &prei) {
                c.violation("response-not-restored", "sequence message not restored", rp(c, json!({"i": i})));
                return;
            }
            prior = ts.mac.clone();
        }
        if cseq.done().is_err() {
            c.violation("honest-sequence-rejected", "done() fails after an all-signed sequence", rp(c, json!({})));
            return;
        }
        c.count("lib_server_sequences", 1);
        c.eval(&("seq-lib", ksv.r.alg.text(), ksv.r.signing_len == ksv.r.alg.native_len(), n));
        return;
    }
    // the reference server: signs the first message, then according to a pattern
    ctx::step("ref server sequence");
    let n = match rng.below(6) {
        0 => rng.range(100, 135),
        1 => rng.range(1, 3),
        _ => rng.range(2, 30),
    };
    let gap = match rng.below(5) {
        0 => 99,  // longest legal run of unsigned messages
        1 => 100, // one too many
        2 => 0,
        _ => rng.range(1, 12),
    };
    let last_signed = !rng.chance(1, 6);
    let tamper_at = if rng.chance(1, 4) { Some(rng.below(n)) } else { None };
    let mut prior = req_mac.clone();
    let mut unsigned: Vec<Vec<u8>> = vec![];
    let mut run = 0usize; // unsigned messages since the last signed one
    let mut expect_fail = false;
    for i in 0..n {
        let mut ab = fill(&mut rng, MessageBuilder::new_vec(), Some(&req_msg));
        if i > 0 && rng.bool() {
            // later messages of an XFR may come without question
            ab = fill(&mut rng, MessageBuilder::new_vec(), None);
            ab.header_mut().set_id(u16::from_be_bytes([pre[0], pre[1]]));
            ab.header_mut().set_qr(true);
        }
        let prei = ab.finish();
        let ti = t0 + (i as u64 % 200);
        let sign_it = i == 0 || (i == n - 1 && last_signed) || run >= gap || (gap > 12 && false);
        let (prior_before, unsigned_before) = (prior.clone(), unsigned.clone());
        let (mut wire, is_signed) = if sign_it {
            let kind = if i == 0 { Kind::Response { request_mac: &prior } } else { Kind::Subsequent { prior_mac: &prior, unsigned: &unsigned } };
            let (m, mac) = rt::sign(&ksv.r, &kind, &prei, ti, 300, 0, &[]);
            prior = mac;
            unsigned.clear();
            (m, true)
        } else {
            unsigned.push(prei.clone());
            (prei.clone(), false)
        };
        // tampering with a message in flight: the next signed message must not verify
        let mut tampered_now = false;
        if tamper_at == Some(i) && !expect_fail {
            let p = rng.range(12, wire.len().max(13) - 1).min(wire.len() - 1);
            if !(is_signed && false) {
                wire[p] ^= 0x10;
                tampered_now = true;
            }
        }
        let mut mi = match Message::from_octets(wire.clone()) {
            Ok(m) => m,
            Err(_) => return,
        };
        let res = ctx::catch(|| cseq.answer(&mut mi, t48(ti)));
        let res = match res {
            Ok(r) => r,
            Err(pi) => {
                c.violation(&format!("panic:{}", pi.site()), &format!("panic in ClientSequence::answer: {}", pi.msg), rp(c, json!({"i": i})));
                return;
            }
        };
        if is_signed {
            run = 0;
        } else {
            run += 1;
        }
        // expectation
        let too_many = !is_signed && run > 99;
        if tampered_now && is_signed {
            // a signed message altered in flight
            if res.is_ok() {
                // the flip may have hit something TSIG tolerates (case of the key name): ask the reference
                let kind = if i == 0 { Kind::Response { request_mac: &prior_before } } else { Kind::Subsequent { prior_mac: &prior_before, unsigned: &unsigned_before } };
                match rt::verify(&kc.r, &kind, &wire, ti) {
                    Ok(_) => c.count("tampered_but_authentic_by_rfc", 1),
                    Err(RefErr::Unsigned) => {
                        // the flip hid the TSIG RR: the message passes as an unsigned one for now, the next signed message must fail
                        expect_fail = true;
                        c.count("signed_message_turned_unsigned_in_flight", 1);
                        continue;
                    }
                    Err(e) => {
                        c.violation("tampered-sequence-message-accepted", &format!("message {} of a multi-message response was altered in flight and still verifies (RFC 8945: {})", i + 1, ref_class(&e)), rp(c, json!({"i": i, "message": hex(&wire)})));
                    }
                }
            }
            return; // the sequence is dead (or its state is not comparable any more)
        }
        if tampered_now && !is_signed {
            // accepted for now (no TSIG to check) but the digest is poisoned
            expect_fail = true;
            if res.is_err() && !too_many {
                // the flip may have broken the message format
                return;
            }
            continue;
        }
        if too_many {
            if res.is_ok() {
                c.violation("too-many-unsigned-accepted", &format!("the {}th unsigned message in a row is accepted (RFC 8945 5.3.1: at least every 100th message must be signed)", run), rp(c, json!({"i": i, "gap": gap})));
            } else {
                c.count("unsigned_runs_cut_off", 1);
                c.eval(&("seq-ref", "too-many", ksv.r.alg.text()));
            }
            return;
        }
        match (&res, is_signed, expect_fail) {
            (Ok(()), true, true) => {
                c.violation("tampered-unsigned-message-accepted", "an unsigned message of a multi-message response was altered in flight and the next signed message still verifies", rp(c, json!({"i": i})));
                return;
            }
            (Err(_), true, true) => {
                c.count("poisoned_sequences_rejected", 1);
                c.eval(&("seq-ref", "poisoned", ksv.r.alg.text()));
                return;
            }
            (Err(e), _, false) => {
                let trunc = ksv.r.signing_len != ksv.r.alg.native_len();
                c.violation(
                    &format!("honest-sequence-rejected:{}", if is_signed { if run == 0 && !unsigned.is_empty() { "signed" } else if trunc { "signed:truncated-mac" } else { "signed" } } else { "unsigned" }),
                    &format!("message {} of {} ({}; {} unsigned before it) from an RFC 8945 server is refused: {}", i + 1, n, if is_signed { "signed" } else { "unsigned" }, run, err_class(e)),
                    rp(c, json!({"i": i, "n": n, "gap": gap})),
                );
                return;
            }
            (Ok(()), _, _) => {
                if is_signed && !restored(mi.as_slice(), &prei) {
                    c.violation("response-not-restored", "sequence message not restored", rp(c, json!({"i": i})));
                    return;
                }
            }
            (Err(_), false, true) => return,
        }
    }
    let ends_unsigned = run > 0;
    let d = cseq.done();
    if ends_unsigned && d.is_ok() && !expect_fail {
        c.violation("unsigned-tail-accepted", "a multi-message response whose last message is unsigned passes done()", rp(c, json!({"n": n, "gap": gap})));
        return;
    }
    if !ends_unsigned && d.is_err() && !expect_fail {
        c.violation("honest-sequence-rejected:done", "done() fails although the last message was signed", rp(c, json!({"n": n, "gap": gap})));
        return;
    }
    c.count("ref_server_sequences", 1);
    if n >= 100 {
        c.count("sequences_of_100_or_more", 1);
    }
    if gap == 99 && n > 100 {
        c.count("runs_of_99_unsigned_accepted", 1);
    }
    c.eval(&("seq-ref", ksv.r.alg.text(), ksv.r.signing_len == ksv.r.alg.native_len(), n.min(101) / 10, gap.min(13), ends_unsigned));
}

fn key_bounds(c: &mut Ctx) {
    let name: KeyName = "k.example.".parse().unwrap();
    for alg in Alg::ALL {
        let native = alg.native_len();
        for len in 0..=native + 3 {
            let legal = len >= floor_len(alg) && len <= native;
            for which in 0..2 {
                let r = if which == 0 { Key::new(lib_alg(alg), b"secret", name.clone(), Some(len), None) } else { Key::new(lib_alg(alg), b"secret", name.clone(), None, Some(len)) };
                if r.is_ok() != legal {
                    c.violation(
                        &format!("key-bounds:{}", if which == 0 { "min_mac_len" } else { "signing_len" }),
                        &format!("Key::new({}, {} = {}) is {} (RFC 8945 5.2.2.1: at least max(10, half the output), at most the output, {} octets)", alg.text(), if which == 0 { "min_mac_len" } else { "signing_len" }, len, if r.is_ok() { "accepted" } else { "refused" }, native),
                        json!({"alg": alg.text(), "len": len}),
                    );
                }
                c.eval(&("key", alg.text(), which, legal));
            }
        }
    }
}


// ------------------------------------------------- the client-side wrapper ----

/// `net::client::tsig::Connection`: the transport wrapper that signs every request on its way to
/// an upstream transport and verifies what comes back. The upstream here is the reference
/// implementation acting as a server: it verifies the request as it left the wrapper, answers
/// and signs the answer — honestly, or with one thing wrong. The caller gets the answer as the
/// server made it before signing when all is well, and an error otherwise.
mod wrapper {
    use super::*;
    use domain::net::client::request::{Error as ClientError, GetResponse, RequestMessage, SendRequest};
    use domain::net::client::tsig as ctsig;
    use bytes::Bytes;
    use std::sync::Mutex;

    /// What the upstream hands out, one message per call: the answer under test first, then - for a caller that keeps
    /// asking after a refusal, as one waiting for the genuine answer behind a spoofed one does - a forged one.
    #[derive(Debug)]
    struct Ready(Option<Result<Message<Bytes>, ClientError>>, Option<Message<Bytes>>);
    impl GetResponse for Ready {
        fn get_response(&mut self) -> std::pin::Pin<Box<dyn std::future::Future<Output = Result<Message<Bytes>, ClientError>> + Send + Sync + '_>> {
            let r = match self.0.take() {
                Some(r) => r,
                None => self.1.take().map(Ok).unwrap_or(Err(ClientError::ConnectionClosed)),
            };
            // (an upstream is not ready at once: whoever else has something to do gets a turn first)
            Box::pin(async move {
                tokio::task::yield_now().await;
                r
            })
        }
    }

    /// Two requests in flight at once on one wrapper (a multiplexing upstream, a caller that joins two futures): each
    /// is signed on its own and each honest answer verifies against its own request.
    pub fn case_pair(c: &mut Ctx, fam: &str, idx: u64) {
        let mut rng = c.case_rng(fam, idx);
        let keys = gen_key(&mut rng);
        let out = Arc::new(Mutex::new(None));
        let server = RefServer { key: keys.r.clone(), fault: "none", seed: c.seed ^ idx, out: out.clone() };
        let mk = |l: String, id: u16| {
            let mut qn = vec![l.len() as u8];
            qn.extend_from_slice(l.as_bytes());
            qn.extend_from_slice(b"\x04test\x00");
            let mut mb = MessageBuilder::new_vec();
            mb.header_mut().set_id(id);
            let mut qb = mb.question();
            qb.push((Name::<Vec<u8>>::from_octets(qn.clone()).unwrap(), Rtype::A)).unwrap();
            (RequestMessage::new(qb.into_message()).unwrap(), qn)
        };
        let (rm1, q1) = mk(format!("p{}a", idx), rng.u16());
        let (rm2, q2) = mk(format!("p{}b", idx), rng.u16());
        let ex = json!({"alg": keys.r.alg.text(), "signing_len": keys.r.signing_len, "requests_in_flight": 2});
        let rt_ = tokio::runtime::Builder::new_current_thread().enable_all().build().unwrap();
        let lib_key = keys.lib.clone();
        let res = ctx::catch(|| {
            rt_.block_on(async move {
                let conn = ctsig::Connection::new(lib_key, server);
                let mut g1 = SendRequest::send_request(&conn, rm1);
                let mut g2 = SendRequest::send_request(&conn, rm2);
                let (r1, r2) = tokio::join!(g1.get_response(), g2.get_response());
                (r1.map(|m| m.as_slice().to_vec()).map_err(|e| format!("{}", e)), r2.map(|m| m.as_slice().to_vec()).map_err(|e| format!("{}", e)))
            })
        });
        c.eval(&("wrapper-pair", keys.r.alg.text()));
        match res {
            Err(pi) => c.violation(&format!("panic:{}", pi.site()), &format!("panic in the client-side TSIG wrapper with two requests in flight: {} at {}:{}", pi.msg, pi.file, pi.line), c.replay_of(fam, idx, ex)),
            Ok((r1, r2)) => {
                for (r, q) in [(r1, q1), (r2, q2)] {
                    match r {
                        Err(e) => {
                            c.violation("wrapper:honest-response-refused:two-requests-in-flight", &format!("two requests in flight on one wrapper, both answered honestly: one is refused: {}", e), c.replay_of(fam, idx, ex));
                            return;
                        }
                        Ok(m) => {
                            if w::parse_message(&m).map(|pm| pm.questions.first().map(|x| w::lower(&x.name)) != Some(w::lower(&q))).unwrap_or(true) {
                                c.violation("wrapper:response-to-other-request", "with two requests in flight a caller got the other request's answer", c.replay_of(fam, idx, ex));
                                return;
                            }
                        }
                    }
                }
                c.count("wrapper_pairs_in_flight_verified", 1);
            }
        }
    }

    pub struct Outcome {
        pub request_verified: Result<(), String>,
        pub unsigned_response: Vec<u8>,
    }

    pub struct RefServer {
        pub key: RefKey,
        pub fault: &'static str,
        pub seed: u64,
        pub out: Arc<Mutex<Option<Outcome>>>,
    }

    impl SendRequest<ctsig::RequestMessage<RequestMessage<Vec<u8>>, Arc<Key>>> for RefServer {
        fn send_request(&self, req: ctsig::RequestMessage<RequestMessage<Vec<u8>>, Arc<Key>>) -> Box<dyn GetResponse + Send + Sync> {
            use domain::net::client::request::ComposeRequest;
            let mut rng = Rng::new(&[self.seed, 11]);
            let signed = match req.to_message() {
                Ok(m) => m.as_slice().to_vec(),
                Err(e) => {
                    *self.out.lock().unwrap() = Some(Outcome { request_verified: Err(format!("to_message: {}", e)), unsigned_response: vec![] });
                    return Box::new(Ready(None, None));
                }
            };
            let now = std::time::SystemTime::now().duration_since(std::time::UNIX_EPOCH).unwrap().as_secs();
            let (orig, mac) = match rt::verify(&self.key, &Kind::Request, &signed, now) {
                Ok(x) => x,
                Err(e) => {
                    *self.out.lock().unwrap() = Some(Outcome { request_verified: Err(format!("{:?}", e)), unsigned_response: vec![] });
                    return Box::new(Ready(None, None));
                }
            };
            // the answer: the request's ID and question, one address record
            let Ok(pm) = w::parse_message(&orig) else { return Box::new(Ready(None, None)) };
            let Some(q) = pm.questions.first() else { return Box::new(Ready(None, None)) };
            let mut resp = w::header(pm.id, 0x8180, [1, 1, 0, 0]);
            resp.extend_from_slice(&q.name);
            resp.extend_from_slice(&q.qtype.to_be_bytes());
            resp.extend_from_slice(&q.qclass.to_be_bytes());
            resp.extend(w::compose_record(&q.name, 1, 1, 60, &[192, 0, 2, rng.u8()]));
            let mut key = self.key.clone();
            let mut time = now;
            match self.fault {
                "other-secret" => key.secret.push(1),
                "time-behind" => time = now - 301 - rng.below(5000) as u64,
                "time-ahead" => time = now + 301 + rng.below(5000) as u64,
                "without-request-mac" => {}
                _ => {}
            }
            let kind = if self.fault == "without-request-mac" { Kind::Request } else { Kind::Response { request_mac: &mac } };
            let (mut wire, _) = rt::sign(&key, &kind, &resp, time, 300, 0, &[]);
            match self.fault {
                "flip-body" => {
                    let p = 12 + rng.below(resp.len() - 12);
                    wire[p] ^= 1 << rng.below(8);
                }
                "flip-mac" => {
                    let l = wire.len();
                    wire[l - 7 - rng.below(10)] ^= 1 << rng.below(8); // inside the MAC (ahead of original ID, error, other len)
                }
                "unsigned" => wire = resp.clone(),
                _ => {}
            }
            let mut resp_forged = resp.clone();
            let l = resp_forged.len();
            resp_forged[l - 1] ^= 0x55;
            *self.out.lock().unwrap() = Some(Outcome { request_verified: Ok(()), unsigned_response: resp });
            // the message behind it: the same answer with another address, unsigned or signed with another secret
            let mut forged = resp_forged;
            if rng.bool() {
                let mut k2 = self.key.clone();
                k2.secret.push(9);
                forged = rt::sign(&k2, &Kind::Response { request_mac: &mac }, &forged, now, 300, 0, &[]).0;
            }
            let second = Message::from_octets(Bytes::from(forged)).ok();
            match Message::from_octets(Bytes::from(wire)) {
                Ok(m) => Box::new(Ready(Some(Ok(m)), second)),
                Err(_) => Box::new(Ready(None, None)),
            }
        }
    }

    pub fn case(c: &mut Ctx, fam: &str, idx: u64) {
        let mut rng = c.case_rng(fam, idx);
        let keys = gen_key(&mut rng);
        let fault = *rng.pick(&["none", "none", "none", "flip-body", "flip-mac", "other-secret", "time-behind", "time-ahead", "unsigned", "without-request-mac"]);
        let out = Arc::new(Mutex::new(None));
        let server = RefServer { key: keys.r.clone(), fault, seed: c.seed ^ idx, out: out.clone() };
        let l = format!("w{}", idx);
        let mut qn = vec![l.len() as u8];
        qn.extend_from_slice(l.as_bytes());
        qn.extend_from_slice(b"\x04test\x00");
        let mut mb = MessageBuilder::new_vec();
        mb.header_mut().set_id(rng.u16());
        mb.header_mut().set_rd(rng.bool());
        let mut qb = mb.question();
        qb.push((Name::<Vec<u8>>::from_octets(qn).unwrap(), if rng.bool() { Rtype::A } else { Rtype::TXT })).unwrap();
        let with_opt = rng.chance(1, 3);
        let ex = json!({"alg": keys.r.alg.text(), "signing_len": keys.r.signing_len, "min_mac_len": keys.r.min_mac_len, "secret_len": keys.r.secret.len(), "fault": fault, "request_has_opt": with_opt});
        let rt_ = tokio::runtime::Builder::new_current_thread().enable_all().build().unwrap();
        let lib_key = keys.lib.clone();
        let res = ctx::catch(|| {
            rt_.block_on(async move {
                let mut rm = RequestMessage::new(qb.into_message()).map_err(|e| format!("request: {}", e))?;
                if with_opt {
                    use domain::net::client::request::ComposeRequest;
                    rm.set_udp_payload_size(1232);
                }
                let conn = ctsig::Connection::new(lib_key, server);
                let mut gr = SendRequest::send_request(&conn, rm);
                let first = gr.get_response().await.map(|m| m.as_slice().to_vec()).map_err(|e| format!("{}", e));
                // a caller that was refused an answer and asks again gets whatever the upstream has next: a forged message
                let again = if first.is_err() { Some(gr.get_response().await.map(|m| m.as_slice().to_vec()).map_err(|e| format!("{}", e))) } else { None };
                Ok::<_, String>((first, again))
            })
        });
        let got = match res {
            Err(pi) => {
                c.violation(&format!("panic:{}", pi.site()), &format!("panic in the client-side TSIG wrapper: {} at {}:{}", pi.msg, pi.file, pi.line), c.replay_of(fam, idx, ex));
                return;
            }
            Ok(Err(e)) => {
                c.note(&format!("harness: wrapper request not built: {}", e));
                return;
            }
            Ok(Ok(g)) => g,
        };
        let (got, again) = got;
        if let Some(Ok(m)) = &again {
            c.violation("wrapper:forged-response-accepted-after-a-refusal", &format!("after a response with [{}] was refused the caller asked again and was handed a forged message as authentic: {}", fault, hex(&m[..m.len().min(120)])), c.replay_of(fam, idx, ex));
            return;
        }
        if again.is_some() {
            c.count("wrapper_refusals_followed_by_another_refusal", 1);
        }
        let o = out.lock().unwrap().take();
        let Some(o) = o else {
            c.violation("wrapper:request-never-reached-upstream", "the wrapper completed without handing a request to its upstream", c.replay_of(fam, idx, ex));
            return;
        };
        if let Err(e) = &o.request_verified {
            c.violation("wrapper:request-does-not-verify", &format!("the request as signed by net::client::tsig does not verify by the reference: {}", e), c.replay_of(fam, idx, ex));
            return;
        }
        c.count("wrapper_requests_verified_by_reference", 1);
        match (fault, got) {
            ("none", Ok(m)) => {
                // (as with ClientTransaction::answer the TSIG record's octets may linger behind the last record)
                if !restored(&m, &o.unsigned_response) {
                    c.violation("wrapper:response-altered", &format!("the caller got other octets than the server's answer before signing: got {} want {}", hex(&m), hex(&o.unsigned_response)), c.replay_of(fam, idx, ex));
                } else {
                    c.count("wrapper_honest_exchanges", 1);
                }
            }
            ("none", Err(e)) => c.violation("wrapper:honest-response-refused", &format!("an honestly signed response is refused: {}", e), c.replay_of(fam, idx, ex)),
            (f, Ok(_)) => c.violation(&format!("wrapper:accepted-despite:{}", f), &format!("a response with [{}] was handed to the caller as authentic", f), c.replay_of(fam, idx, ex)),
            (_, Err(_)) => c.count("wrapper_bad_responses_refused", 1),
        }
        c.eval(&("wrapper", keys.r.alg.text(), fault, with_opt, keys.r.signing_len < keys.r.alg.native_len()));
    }
}


// ------------------------------------------------- the server-side middleware ----

/// `net::server::middleware::tsig::TsigMiddlewareSvc` in front of a service, with the reference
/// implementation acting as the client. The request is signed by the reference (honestly, left
/// unsigned, or with one thing wrong); the middleware must hand an authentic request to the
/// service as it was before signing and with the key as metadata, sign every response the
/// service yields (one, or a sequence announced with BeginTransaction) so that the reference
/// verifies them as RFC 8945 5.3 chains them, replace a response that has no room for the TSIG
/// record by a signed truncated one, pass unsigned traffic through untouched, and answer a
/// request that fails verification itself, with the error RFC 8945 5.2 assigns, without calling
/// the service.
mod middleware {
    use super::*;
    use domain::base::message_builder::StreamTarget;
    use domain::base::name::ToName;
    use domain::net::server::message::{NonUdpTransportContext, Request, TransportSpecificContext, UdpTransportContext};
    use domain::net::server::middleware::tsig::TsigMiddlewareSvc;
    use domain::net::server::service::{CallResult, Service, ServiceError, ServiceFeedback, ServiceResult};
    use domain::net::server::util::mk_builder_for_target;
    use futures_util::stream::{Iter, StreamExt};
    use std::collections::HashMap;
    use std::future::{ready, Ready};
    use std::sync::Mutex;

    type Store = HashMap<(KeyName, Algorithm), Arc<Key>>;

    #[derive(Clone, Copy, Debug, PartialEq, Eq)]
    enum Plan {
        /// one response of n records, the reserved octets left free
        Single(usize),
        /// one response filled until the builder refuses, the reserved octets left free
        Brim,
        /// one response filled until the builder refuses, the reservation ignored
        Greedy,
        /// k responses, BeginTransaction as an item of its own in front
        MultiFeedbackItem(usize),
        /// k responses, BeginTransaction attached to the first
        MultiFeedbackOnFirst(usize),
        /// k responses announced as a transaction, the g-th filled without regard for the reservation
        MultiGreedy(usize, usize),
        /// the service fails
        Fails,
        /// the service yields feedback only
        Nothing,
    }

    #[derive(Default)]
    struct Seen {
        calls: usize,
        request: Vec<u8>,
        key_name: Option<Vec<u8>>,
        reserved: u16,
        /// what the service yielded, as octets, in order; the flag says "no room left for a TSIG record"
        made: Vec<(Vec<u8>, bool)>,
    }

    #[derive(Clone)]
    struct Inner {
        plan: Plan,
        seen: Arc<Mutex<Seen>>,
    }

    fn build(req: &Request<Vec<u8>, Option<Arc<Key>>>, n: Option<usize>, respect: bool, salt: usize) -> (AdditionalBuilder<StreamTarget<Vec<u8>>>, Vec<u8>) {
        let b = mk_builder_for_target::<Vec<u8>>();
        let mut a = b.start_answer(req.message(), Rcode::NOERROR).unwrap();
        if respect {
            a.set_push_limit(65535 - req.num_reserved_bytes() as usize);
        }
        let owner: Name<Vec<u8>> = match req.message().sole_question() {
            Ok(q) => q.qname().to_name::<Vec<u8>>(),
            Err(_) => Name::root_vec(),
        };
        let mut i = 0;
        loop {
            if let Some(n) = n {
                if i >= n {
                    break;
                }
            }
            // (short records towards the end so that a filled message ends close to its limit)
            let len = if n.is_some() { 1 + (i + salt) % 90 } else if a.as_slice().len() < 64000 { 250 } else { 1 };
            let mut rd = vec![len as u8];
            rd.extend(std::iter::repeat(b'a' + ((i + salt) % 26) as u8).take(len));
            let rd = UnknownRecordData::from_octets(Rtype::TXT, rd).unwrap();
            if a.push((owner.clone(), Class::IN, Ttl::from_secs(60), rd)).is_err() {
                break;
            }
            i += 1;
        }
        let ab = a.additional();
        let octets = ab.as_message().as_slice().to_vec();
        (ab, octets)
    }

    impl Service<Vec<u8>, Option<Arc<Key>>> for Inner {
        type Target = Vec<u8>;
        type Stream = Iter<std::vec::IntoIter<ServiceResult<Vec<u8>>>>;
        type Future = Ready<Self::Stream>;
        fn call(&self, req: Request<Vec<u8>, Option<Arc<Key>>>) -> Self::Future {
            let mut s = self.seen.lock().unwrap();
            s.calls += 1;
            s.request = req.message().as_slice().to_vec();
            s.key_name = req.metadata().as_ref().map(|k| k.name().as_slice().to_vec());
            s.reserved = req.num_reserved_bytes();
            let mut items: Vec<ServiceResult<Vec<u8>>> = Vec::new();
            let mut one = |s: &mut Seen, n: Option<usize>, respect: bool, salt: usize| {
                let (ab, o) = build(&req, n, respect, salt);
                s.made.push((o, !respect));
                ab
            };
            match self.plan {
                Plan::Single(n) => items.push(Ok(CallResult::new(one(&mut s, Some(n), true, 0)))),
                Plan::Brim => items.push(Ok(CallResult::new(one(&mut s, None, true, 0)))),
                Plan::Greedy => items.push(Ok(CallResult::new(one(&mut s, None, false, 0)))),
                Plan::MultiFeedbackItem(k) => {
                    items.push(Ok(CallResult::feedback_only(ServiceFeedback::BeginTransaction)));
                    for i in 0..k {
                        items.push(Ok(CallResult::new(one(&mut s, Some(1 + i % 7), true, i))));
                    }
                    items.push(Ok(CallResult::feedback_only(ServiceFeedback::EndTransaction)));
                }
                Plan::MultiFeedbackOnFirst(k) => {
                    for i in 0..k {
                        let cr = CallResult::new(one(&mut s, Some(1 + i % 7), true, i));
                        items.push(Ok(if i == 0 { cr.with_feedback(ServiceFeedback::BeginTransaction) } else { cr }));
                    }
                    items.push(Ok(CallResult::feedback_only(ServiceFeedback::EndTransaction)));
                }
                Plan::MultiGreedy(k, g) => {
                    items.push(Ok(CallResult::feedback_only(ServiceFeedback::BeginTransaction)));
                    for i in 0..k {
                        let ab = if i == g { one(&mut s, None, false, i) } else { one(&mut s, Some(1 + i % 7), true, i) };
                        items.push(Ok(CallResult::new(ab)));
                    }
                    items.push(Ok(CallResult::feedback_only(ServiceFeedback::EndTransaction)));
                }
                Plan::Fails => items.push(Err(ServiceError::Refused)),
                Plan::Nothing => items.push(Ok(CallResult::feedback_only(ServiceFeedback::EndTransaction))),
            }
            ready(futures_util::stream::iter(items))
        }
    }

    fn lib_key_of(r: &RefKey) -> Arc<Key> {
        let name: KeyName = Name::<Vec<u8>>::from_octets(r.name.clone()).unwrap().to_string().parse().unwrap();
        Arc::new(Key::new(lib_alg(r.alg), &r.secret, name, Some(r.min_mac_len), Some(r.signing_len)).unwrap())
    }

    fn now_s() -> u64 {
        std::time::SystemTime::now().duration_since(std::time::UNIX_EPOCH).unwrap().as_secs()
    }

    /// The reference's verdict on a request, given the keys the server holds.
    fn want_of(store: &[RefKey], msg: &[u8], now: u64) -> (Result<(Vec<u8>, Vec<u8>), RefErr>, Option<RefKey>) {
        let t = match rt::find(msg) {
            rt::Found::FormErr => return (Err(RefErr::FormErr), None),
            rt::Found::Unsigned => return (Err(RefErr::Unsigned), None),
            rt::Found::Tsig(t) => t,
        };
        let k = store.iter().find(|k| w::lower(&k.name) == w::lower(&t.owner) && Alg::from_name_wire(&t.alg_name) == Some(k.alg));
        match k {
            Some(k) => (rt::verify(k, &Kind::Request, msg, now), Some(k.clone())),
            // (class, TTL and other-data length come first in the reference as well)
            None => {
                if t.class != 255 || t.ttl != 0 || !(t.other.is_empty() || t.other.len() == 6) {
                    (Err(RefErr::FormErr), None)
                } else {
                    (Err(RefErr::BadKey), None)
                }
            }
        }
    }

    pub fn case(c: &mut Ctx, fam: &str, idx: u64) {
        let mut rng = c.case_rng(fam, idx);
        // the keys the server holds: the one of this case and up to two more
        let keys = gen_key(&mut rng);
        let mut store_ref: Vec<RefKey> = vec![keys.r.clone()];
        for _ in 0..rng.below(3) {
            let mut other = gen_key(&mut rng).r;
            match rng.below(3) {
                // same name, another algorithm
                0 => {
                    other.name = keys.r.name.clone();
                    if other.alg == keys.r.alg {
                        continue;
                    }
                    // (truncation limits stay legal for the other algorithm: they were drawn for it)
                }
                // same algorithm and secret, another name
                1 => {
                    other.alg = keys.r.alg;
                    other.secret = keys.r.secret.clone();
                    other.min_mac_len = keys.r.min_mac_len;
                    other.signing_len = keys.r.signing_len;
                }
                _ => {}
            }
            if store_ref.iter().any(|k| w::lower(&k.name) == w::lower(&other.name) && k.alg == other.alg) {
                continue;
            }
            store_ref.push(other);
        }
        let mut store: Store = HashMap::new();
        for r in &store_ref {
            let k = if r.name == keys.r.name && r.alg == keys.r.alg { keys.lib.clone() } else { lib_key_of(r) };
            store.insert((k.name().clone(), k.algorithm()), k);
        }
        // the request
        let l = format!("m{}", idx);
        let mut qn = vec![l.len() as u8];
        qn.extend_from_slice(l.as_bytes());
        qn.extend_from_slice(b"\x04test\x00");
        let id = rng.u16();
        let mut pre = w::header(id, if rng.bool() { 0x0100 } else { 0 }, [1, 0, 0, 0]);
        pre.extend_from_slice(&qn);
        pre.extend_from_slice(&(if rng.bool() { 1u16 } else { 16 }).to_be_bytes());
        pre.extend_from_slice(&1u16.to_be_bytes());
        if rng.chance(1, 3) {
            // an OPT record ahead of the TSIG record
            pre.extend(w::compose_record(&[0], 41, 1232, 0, &[]));
            pre[11] = 1;
        }
        let fault = *rng.pick(&["none", "none", "none", "none", "none", "none", "unsigned", "flip-body", "other-secret", "key-not-held", "time-behind", "time-ahead", "edit", "edit", "edit"]);
        let now0 = now_s();
        let fudge: u16 = 300;
        let mut signer = keys.r.clone();
        let mut time = now0;
        match fault {
            "other-secret" => signer.secret.push(7),
            "key-not-held" => {
                let p = signer.name.len() - 2;
                signer.name[p] = if signer.name[p] == b'q' { b'r' } else { b'q' };
            }
            "time-behind" => time = now0 - 310 - rng.below(100_000) as u64,
            "time-ahead" => time = now0 + 310 + rng.below(100_000) as u64,
            _ => {}
        }
        let (mut request, _) = rt::sign(&signer, &Kind::Request, &pre, time, fudge, 0, &[]);
        let mut label = fault.to_string();
        match fault {
            "unsigned" => request = pre.clone(),
            "flip-body" => {
                let p = 12 + rng.below(pre.len() - 12);
                request[p] ^= 1 << rng.below(8);
                // a flip may make the question unreadable for the library; the reference decides what it is
            }
            "edit" => {
                let es = edits(&mut rng, &request, &keys.r);
                if !es.is_empty() {
                    let (l, m) = es[rng.below(es.len())].clone();
                    label = format!("edit:{}", l);
                    request = m;
                }
            }
            _ => {}
        }
        let plan = match rng.below(16) {
            0..=5 => Plan::Single(rng.below(40)),
            6 => Plan::Brim,
            7 => Plan::Greedy,
            8..=9 => Plan::MultiFeedbackItem(rng.range(1, 40)),
            10..=11 => Plan::MultiFeedbackOnFirst(rng.range(1, 40)),
            12 => {
                let k = rng.range(1, 12);
                Plan::MultiGreedy(k, rng.below(k))
            }
            13 => Plan::Fails,
            14 => Plan::Nothing,
            _ => Plan::Single(rng.range(200, 900)),
        };
        let udp = rng.chance(1, 4);
        // (no layer further out reserves anything: the middleware is documented as the outermost one)
        let outer_reserved: u16 = 0;
        let ex = json!({"alg": keys.r.alg.text(), "signing_len": keys.r.signing_len, "min_mac_len": keys.r.min_mac_len, "keys_held": store_ref.len(), "fault": label,
                        "plan": format!("{:?}", plan), "udp": udp, "request": hex(&request)});
        let rp = |c: &Ctx| c.replay_of(fam, idx, ex.clone());
        let (want, _) = want_of(&store_ref, &request, now0);
        // ---- run the middleware
        let seen = Arc::new(Mutex::new(Seen::default()));
        let inner = Inner { plan, seen: seen.clone() };
        let Ok(reqmsg) = Message::from_octets(request.clone()) else { return };
        let rt_ = tokio::runtime::Builder::new_current_thread().enable_all().build().unwrap();
        let res = ctx::catch(|| {
            rt_.block_on(async move {
                let tctx = if udp { TransportSpecificContext::Udp(UdpTransportContext::new(Some(1232))) } else { TransportSpecificContext::NonUdp(NonUdpTransportContext::new(None)) };
                let mut req = Request::new("127.0.0.1:5353".parse().unwrap(), tokio::time::Instant::now(), reqmsg, tctx, ());
                if outer_reserved > 0 {
                    req.reserve_bytes(outer_reserved);
                }
                let svc = TsigMiddlewareSvc::<Vec<u8>, _, Store, ()>::new(inner, store);
                let mut stream = svc.call(req).await;
                let mut out: Vec<Result<Option<Vec<u8>>, String>> = Vec::new();
                while let Some(item) = stream.next().await {
                    match item {
                        Ok(cr) => {
                            let (resp, _fb) = cr.into_inner();
                            out.push(Ok(resp.map(|b| b.as_message().as_slice().to_vec())));
                        }
                        Err(e) => out.push(Err(format!("{:?}", e))),
                    }
                    if out.len() > 200 {
                        break;
                    }
                }
                out
            })
        });
        let out = match res {
            Err(pi) => {
                c.violation(&format!("panic:{}", pi.site()), &format!("panic in the server-side TSIG middleware ({} / {:?}): {} at {}:{}", label, plan, pi.msg, pi.file, pi.line), rp(c));
                return;
            }
            Ok(o) => o,
        };
        let now1 = now_s();
        let seen = seen.lock().unwrap();
        let responses: Vec<&Vec<u8>> = out.iter().filter_map(|r| r.as_ref().ok().and_then(|o| o.as_ref())).collect();
        let errors = out.iter().filter(|r| r.is_err()).count();
        let class = match &want {
            Ok(_) => "authentic",
            Err(e) => ref_class(e),
        };
        c.eval(&("middleware", keys.r.alg.text(), class, std::mem::discriminant(&plan), udp, label.starts_with("edit")));
        match &want {
            // ------------------------------------------------ authentic request
            Ok((orig, req_mac)) => {
                if seen.calls != 1 {
                    c.violation("middleware:authentic-request-not-served", &format!("an authentic request ([{}]) reached the service {} times; {} responses, {} errors came back", label, seen.calls, responses.len(), errors), rp(c));
                    return;
                }
                if !restored(&seen.request, orig) {
                    c.violation("middleware:request-not-restored", &format!("the service saw {} where the request before signing was {}", hex(&seen.request), hex(orig)), rp(c));
                    return;
                }
                if seen.key_name.as_ref().map(|n| w::lower(n)) != Some(w::lower(&keys.r.name)) {
                    c.violation("middleware:key-metadata", &format!("the service was told the request was signed with {:?}; it was signed with {}", seen.key_name.as_ref().map(|n| hex(n)), hex(&keys.r.name)), rp(c));
                    return;
                }
                // the TSIG record that will be added must fit into what was reserved
                let tsig_len = keys.r.name.len() + 10 + keys.r.alg.name_wire().len() + 10 + keys.r.signing_len + 6;
                if (seen.reserved as usize) < outer_reserved as usize + tsig_len {
                    c.violation("middleware:reservation-too-small", &format!("{} octets are reserved on the request handed to the service ({} of them by a layer further out); the TSIG record takes {}", seen.reserved, outer_reserved, tsig_len), rp(c));
                    return;
                }
                if matches!(plan, Plan::Fails) {
                    if errors != 1 || !responses.is_empty() {
                        c.violation("middleware:service-error-not-passed-on", &format!("the service failed; {} errors and {} responses came out", errors, responses.len()), rp(c));
                    }
                    return;
                }
                if responses.len() != seen.made.len() || errors != 0 {
                    c.violation("middleware:response-count", &format!("the service yielded {} responses, {} came out of the middleware ({} errors)", seen.made.len(), responses.len(), errors), rp(c));
                    return;
                }
                let announced = !matches!(plan, Plan::Single(_) | Plan::Brim | Plan::Greedy);
                let mut prior: Vec<u8> = req_mac.clone();
                for (i, (got, (made, no_room))) in responses.iter().zip(seen.made.iter()).enumerate() {
                    let kind = if i == 0 { Kind::Response { request_mac: &prior } } else { Kind::Subsequent { prior_mac: &prior, unsigned: &[] } };
                    // (the middleware reads the clock itself: either end of this case's span is acceptable)
                    let v = match rt::verify(&keys.r, &kind, got, now0) {
                        Err(RefErr::BadTime) => rt::verify(&keys.r, &kind, got, now1),
                        o => o,
                    };
                    let (stripped, mac) = match v {
                        Ok(x) => x,
                        Err(e) => {
                            c.violation(&format!("middleware:response-does-not-verify:{}:{}", if i == 0 { "first" } else { "subsequent" }, ref_class(&e)),
                                &format!("response {} of {} ({:?}{}) does not verify by the reference: {}; octets {}", i + 1, responses.len(), plan, if *no_room { ", no room for the TSIG record" } else { "" }, ref_class(&e), hex(&got[..got.len().min(300)])), rp(c));
                            return;
                        }
                    };
                    if let rt::Found::Tsig(t) = rt::find(got) {
                        if t.error != 0 || !t.other.is_empty() || t.orig_id != id {
                            c.violation("middleware:response-tsig-fields", &format!("the TSIG record of response {} has error {}, {} octets of other data, original ID {:04x} (request ID {:04x})", i + 1, t.error, t.other.len(), t.orig_id, id), rp(c));
                            return;
                        }
                    }
                    c.count("middleware_responses_verified_by_reference", 1);
                    if i > 0 {
                        c.count("middleware_subsequent_messages_verified", 1);
                    }
                    if got.len() > 65535 {
                        c.violation("middleware:response-too-long", &format!("a signed response of {} octets", got.len()), rp(c));
                        return;
                    }
                    if *no_room && made.len() + tsig_len > 65535 {
                        // RFC 8945 5.3: only the question and the TSIG record, TC set, NOERROR
                        let ok = match w::parse_message(&stripped) {
                            Ok(pm) => pm.id == id && pm.flags & 0x8000 != 0 && pm.flags & 0x0200 != 0 && pm.flags & 0x000f == 0 && pm.counts == [1, 0, 0, 0] && pm.questions.first().map(|q| w::lower(&q.name)) == Some(w::lower(&qn)),
                            Err(_) => false,
                        };
                        if !ok {
                            c.violation("middleware:truncated-response-shape", &format!("a response without room for the TSIG record must be replaced by question + TSIG with TC set and NOERROR (RFC 8945 5.3); got {}", hex(&stripped[..stripped.len().min(200)])), rp(c));
                            return;
                        }
                        c.count("middleware_truncated_responses", 1);
                    } else if stripped != *made {
                        let tc = stripped.len() > 2 && stripped[2] & 0x02 != 0;
                        c.violation(if tc { "middleware:needless-truncation" } else { "middleware:response-altered" },
                            &format!("response {} of {} ({:?}): the service made {} octets that left the reserved {} free, the reference reads {} octets{} out of the signed message; made {} got {}", i + 1, responses.len(), plan, made.len(), seen.reserved, stripped.len(), if tc { " with TC set" } else { "" }, hex(&made[..made.len().min(120)]), hex(&stripped[..stripped.len().min(120)])), rp(c));
                        return;
                    } else if made.len() + tsig_len + (outer_reserved as usize) > 65000 {
                        c.count("middleware_brim_full_responses_signed", 1);
                    }
                    prior = mac;
                }
                if announced && responses.len() > 1 {
                    c.count("middleware_sequences", 1);
                }
                c.count("middleware_authentic_requests", 1);
            }
            // ------------------------------------------------ no TSIG: not the middleware's business
            Err(RefErr::Unsigned) => {
                if seen.calls != 1 || seen.key_name.is_some() {
                    c.violation("middleware:unsigned-request", &format!("an unsigned request reached the service {} times, key metadata {:?}", seen.calls, seen.key_name.as_ref().map(|n| hex(n))), rp(c));
                    return;
                }
                if seen.request != request {
                    c.violation("middleware:unsigned-request-altered", "an unsigned request reached the service with other octets", rp(c));
                    return;
                }
                if !matches!(plan, Plan::Fails) && (responses.len() != seen.made.len() || responses.iter().zip(seen.made.iter()).any(|(g, (m, _))| *g != m)) {
                    c.violation("middleware:unsigned-response-altered", &format!("responses to an unsigned request were changed on their way out ({} made, {} out)", seen.made.len(), responses.len()), rp(c));
                    return;
                }
                c.count("middleware_unsigned_passed_through", 1);
            }
            // ------------------------------------------------ a request that fails verification
            Err(e) => {
                if seen.calls != 0 {
                    c.violation(&format!("middleware:bad-request-served:{}", ref_class(e)), &format!("a request that RFC 8945 makes {} ([{}]) reached the service", ref_class(e), label), rp(c));
                    return;
                }
                if responses.len() != 1 {
                    // (an internal error instead of an error response is tolerated only for a request whose question cannot be read)
                    if errors == 1 && w::parse_message(&request).is_err() {
                        c.count("middleware_unreadable_requests", 1);
                        return;
                    }
                    c.violation(&format!("middleware:no-error-response:{}", ref_class(e)), &format!("a request that RFC 8945 makes {} ([{}]) got {} responses and {} errors", ref_class(e), label, responses.len(), errors), rp(c));
                    return;
                }
                let resp = responses[0];
                let Ok(pm) = w::parse_message(resp) else {
                    c.violation("middleware:error-response-unparsable", &format!("the error response to [{}] cannot be parsed: {}", label, hex(resp)), rp(c));
                    return;
                };
                let rcode = pm.flags & 0x000f;
                let want_rcode = if *e == RefErr::FormErr { 1 } else { 9 };
                if pm.id != id || pm.flags & 0x8000 == 0 || rcode != want_rcode {
                    c.violation(&format!("middleware:error-response-header:{}", ref_class(e)), &format!("the response to a request that RFC 8945 makes {} ([{}]) has ID {:04x} (request {:04x}), flags {:04x}; RCODE {} expected", ref_class(e), label, pm.id, id, pm.flags, want_rcode), rp(c));
                    return;
                }
                if *e != RefErr::FormErr {
                    let want_err: u16 = match e {
                        RefErr::BadSig => 16,
                        RefErr::BadKey => 17,
                        RefErr::BadTime => 18,
                        RefErr::BadTrunc => 22,
                        _ => 0,
                    };
                    let rt::Found::Tsig(t) = rt::find(resp) else {
                        c.violation(&format!("middleware:error-response-without-tsig:{}", ref_class(e)), &format!("the {} response carries no TSIG record", ref_class(e)), rp(c));
                        return;
                    };
                    if t.error != want_err {
                        c.violation(&format!("middleware:error-code:{}", ref_class(e)), &format!("TSIG error {} in the response to a request that RFC 8945 makes {} ([{}])", t.error, ref_class(e), label), rp(c));
                        return;
                    }
                    match e {
                        RefErr::BadKey | RefErr::BadSig => {
                            if !t.mac.is_empty() {
                                c.violation(&format!("middleware:signed-error-response:{}", ref_class(e)), "RFC 8945 5.3.2: a response to a request whose key or MAC is bad must not be signed", rp(c));
                                return;
                            }
                        }
                        RefErr::BadTime => {
                            // signed, with the client's time signed and the server's clock as other data
                            let rt::Found::Tsig(rq) = rt::find(&request) else { return };
                            let stripped = rt::stripped(resp, &t);
                            let srv_time = if t.other.len() == 6 { t.other.iter().fold(0u64, |a, b| a << 8 | *b as u64) } else { u64::MAX };
                            let want_mac = rt::mac_for(&keys.r, &Kind::Response { request_mac: &rq.mac }, &stripped, t.time, t.fudge, 18, &t.other);
                            if t.time != rq.time || srv_time < now0 || srv_time > now1 {
                                c.violation("middleware:badtime-response-fields", &format!("a BADTIME response carries the client's time signed ({}; got {}) and the server's clock ({}..{}; got {}) as other data", rq.time, t.time, now0, now1, srv_time), rp(c));
                                return;
                            }
                            if t.mac[..] != want_mac[..keys.r.signing_len] {
                                c.violation("middleware:badtime-response-mac", &format!("the MAC of the BADTIME response, {}, differs from the RFC 8945 computation {}", hex(&t.mac), hex(&want_mac[..keys.r.signing_len])), rp(c));
                                return;
                            }
                            c.count("middleware_badtime_responses_verified", 1);
                        }
                        _ => {}
                    }
                }
                c.count("middleware_bad_requests_answered_with_error", 1);
            }
        }
    }
}

pub fn run(c: &mut Ctx) {
    c.families(4);
    let mut log = Log(std::fs::File::create(c.logdir.join(format!("tsig_{}.jsonl", c.shard))).ok());
    if c.shard == 0 && !c.replaying() {
        key_bounds(c);
    }
    let fam = "wrapper";
    let total = c.total(6_000, 300_000);
    for idx in c.cases(fam, total) {
        if c.out_of_time() {
            break;
        }
        ctx::slot_write(idx, &format!("{}|case", fam), &[]);
        wrapper::case(c, fam, idx);
        if idx % 4 == 0 {
            wrapper::case_pair(c, fam, idx);
        }
    }
    let fam = "middleware";
    let total = c.total(4_000, 200_000);
    for idx in c.cases(fam, total) {
        if c.out_of_time() {
            break;
        }
        ctx::slot_write(idx, &format!("{}|case", fam), &[]);
        middleware::case(c, fam, idx);
    }
    let fam = "exchange";
    let total = c.total(5_000, 250_000);
    for idx in c.cases(fam, total) {
        if c.out_of_time() {
            break;
        }
        ctx::slot_write(idx, &format!("{}|case", fam), &[]);
        exchange(c, fam, idx, &mut log);
    }
    let fam = "sequence";
    let total = c.total(25_000, 1_500_000);
    for idx in c.cases(fam, total) {
        if c.out_of_time() {
            break;
        }
        ctx::slot_write(idx, &format!("{}|case", fam), &[]);
        sequence(c, fam, idx, &mut log);
    }
    if !c.replaying() {
        for k in ["macs_compared", "honest_requests_verified", "honest_responses_verified", "requests_outside_window_rejected", "responses_outside_window_rejected", "badtime_responses_checked", "request_tampers", "response_tampers", "lib_server_sequences", "ref_server_sequences", "sequences_of_100_or_more", "unsigned_runs_cut_off", "poisoned_sequences_rejected", "tampered_but_authentic_by_rfc", "wrapper_honest_exchanges", "wrapper_bad_responses_refused", "wrapper_requests_verified_by_reference", "wrapper_refusals_followed_by_another_refusal", "wrapper_pairs_in_flight_verified", "middleware_authentic_requests", "middleware_responses_verified_by_reference", "middleware_subsequent_messages_verified", "middleware_sequences", "middleware_unsigned_passed_through", "middleware_bad_requests_answered_with_error", "middleware_badtime_responses_verified", "middleware_truncated_responses", "middleware_brim_full_responses_signed"] {
            c.floor(k, 3);
        }
    }
}
