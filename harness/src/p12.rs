//! C12 — DNSSEC signatures made by the signer verify; the signed octets follow RFC 4034.
use crate::ctx::{self, hex, Ctx};
use crate::gen::names as gn;
use crate::gen::rdata as g;
use crate::refimpl::wire as w;
use crate::rng::Rng;
use crate::zlib::*;
use bytes::Bytes;
use domain::base::iana::{Class, DigestAlgorithm, Rtype, SecurityAlgorithm};
use domain::base::name::{Name, ToName};
use domain::base::record::Record;
use domain::base::Ttl;
use domain::crypto::sign::{generate, GenerateParams, KeyPair, SecretKeyBytes, SignError, SignRaw, Signature};
use domain::dnssec::sign::keys::SigningKey;
use domain::dnssec::sign::records::Rrset;
use domain::base::cmp::CanonicalOrd;
use domain::dnssec::sign::signatures::rrsigs::{sign_rrset, sign_sorted_rrset_in};
use domain::dnssec::validator::base::{DnskeyExt, RrsigExt};
use domain::rdata::dnssec::Timestamp;
use domain::rdata::{Dnskey, Rrsig, ZoneRecordData};
use domain::zonetree::types::{StoredName, StoredRecordData};
use serde_json::json;
use std::cell::RefCell;
use std::io::Write;
use std::rc::Rc;

type SRec = Record<StoredName, StoredRecordData>;

/// The observation point: whatever the signer hands to the key for signing is recorded.
#[derive(Debug)]
struct Recording {
    inner: KeyPair,
    seen: Rc<RefCell<Vec<Vec<u8>>>>,
    /// the next signing operation fails (a key store that is briefly unavailable)
    fail_next: Rc<std::cell::Cell<bool>>,
}

impl SignRaw for Recording {
    fn algorithm(&self) -> SecurityAlgorithm {
        self.inner.algorithm()
    }
    fn dnskey(&self) -> Dnskey<Vec<u8>> {
        self.inner.dnskey()
    }
    fn sign_raw(&self, data: &[u8]) -> Result<Signature, SignError> {
        if self.fail_next.replace(false) {
            return Err(SignError);
        }
        self.seen.borrow_mut().push(data.to_vec());
        self.inner.sign_raw(data)
    }
}

struct TestKey {
    secret: SecretKeyBytes,
    dnskey: Dnskey<Vec<u8>>,
}

fn make_keys() -> Vec<TestKey> {
    let mut v = Vec::new();
    for p in [GenerateParams::EcdsaP256Sha256, GenerateParams::EcdsaP384Sha384, GenerateParams::Ed25519] {
        for flags in [256u16, 257] {
            if let Ok((secret, dnskey)) = generate(&p, flags) {
                v.push(TestKey { secret, dnskey });
            }
        }
    }
    // RSA keys cannot be generated with ring: the repository's test keys
    for stem in ["Ktest.+008+60616", "Ktest.+010+46731"] {
        let base = format!("/repo/test-data/dnssec-keys/{}", stem);
        let (Ok(pubt), Ok(privt)) = (std::fs::read_to_string(format!("{}.key", base)), std::fs::read_to_string(format!("{}.private", base))) else { continue };
        let Ok(rec) = domain::dnssec::common::parse_from_bind::<Vec<u8>>(&pubt) else { continue };
        let Ok(secret) = SecretKeyBytes::parse_from_bind(&privt) else { continue };
        v.push(TestKey { secret, dnskey: rec.data().clone() });
    }
    v
}

// ------------------------------------------------------------- reference ----

/// RFC 4034 appendix B.
fn key_tag(rdata: &[u8]) -> u16 {
    if rdata.len() > 3 && rdata[3] == 1 {
        // RSA/MD5: the most significant 16 of the least significant 24 bits of the modulus
        let l = rdata.len();
        return if l >= 7 { u16::from_be_bytes([rdata[l - 3], rdata[l - 2]]) } else { 0 };
    }
    let mut ac: u64 = 0;
    for (i, b) in rdata.iter().enumerate() {
        ac += if i & 1 == 1 { *b as u64 } else { (*b as u64) << 8 };
    }
    ac += (ac >> 16) & 0xffff;
    (ac & 0xffff) as u16
}

fn canonical_rdata(t: u16, rd: &[u8]) -> Option<Vec<u8>> {
    let fs = w::decode_rdata(rd, 0, rd.len(), t).ok()?;
    Some(w::compose_fields_canonical(&fs))
}

/// Number of labels of the owner, root and a leading asterisk label not counted (RFC 4034 3.1.3).
fn rrsig_labels(owner: &[u8]) -> u8 {
    let ls = w::labels(owner);
    let mut n = ls.len();
    if !ls.is_empty() && ls[0] == b"*" {
        n -= 1;
    }
    n as u8
}

#[allow(clippy::too_many_arguments)]
fn signed_octets(owner: &[u8], t: u16, class: u16, ttl: u32, rdatas: &[Vec<u8>], alg: u8, exp: u32, inc: u32, tag: u16, signer: &[u8]) -> Option<Vec<u8>> {
    let mut v = Vec::new();
    v.extend_from_slice(&t.to_be_bytes());
    v.push(alg);
    v.push(rrsig_labels(owner));
    v.extend_from_slice(&ttl.to_be_bytes());
    v.extend_from_slice(&exp.to_be_bytes());
    v.extend_from_slice(&inc.to_be_bytes());
    v.extend_from_slice(&tag.to_be_bytes());
    v.extend(w::lower(signer));
    let mut canon: Vec<Vec<u8>> = rdatas.iter().map(|r| canonical_rdata(t, r)).collect::<Option<Vec<_>>>()?;
    canon.sort();
    canon.dedup();
    for rd in canon {
        v.extend(w::lower(owner));
        v.extend_from_slice(&t.to_be_bytes());
        v.extend_from_slice(&class.to_be_bytes());
        v.extend_from_slice(&ttl.to_be_bytes());
        v.extend_from_slice(&(rd.len() as u16).to_be_bytes());
        v.extend(rd);
    }
    Some(v)
}

/// a > b in RFC 1982 arithmetic
fn serial_gt(a: u32, b: u32) -> Option<bool> {
    let d = a.wrapping_sub(b);
    if d == 0 {
        Some(false)
    } else if d == 0x8000_0000 {
        None
    } else {
        Some(d < 0x8000_0000)
    }
}

// ------------------------------------------------------------------ cases ----

fn gen_owner(rng: &mut Rng, apex: &[u8]) -> Vec<u8> {
    let mut labels: Vec<Vec<u8>> = Vec::new();
    let depth = rng.below(4);
    for _ in 0..depth {
        labels.push(gn::small_label(rng));
    }
    if rng.chance(1, 4) {
        labels.insert(0, b"*".to_vec());
    }
    let mut v = Vec::new();
    for l in labels {
        v.push(l.len() as u8);
        v.extend(l);
    }
    v.extend_from_slice(apex);
    if v.len() > 255 {
        return apex.to_vec();
    }
    v
}

fn verify(rrsig: &Rrsig<Bytes, StoredName>, dnskey: &Dnskey<Vec<u8>>, recs: &[SRec]) -> Result<(), String> {
    let mut buf: Vec<u8> = Vec::new();
    let mut rs: Vec<SRec> = recs.to_vec();
    rrsig.signed_data(&mut buf, &mut rs).map_err(|_| "signed_data failed".to_string())?;
    rrsig.verify_signed_data(dnskey, &buf).map_err(|e| format!("{:?}", e))
}

/// The records as a resolver's client gets them behind an alias: the question asks for `alias.<apex>`, the answer is a CNAME
/// to the owner followed by the records. A compressing sender writes the CNAME's target as labels plus a pointer to
/// the apex in the question, and the records' owners as a bare pointer to that target - a name reached through
/// two pointers. Ok(true): verified; Ok(false): layout not applicable.
fn via_cname_message(rrsig: &Rrsig<Bytes, StoredName>, dnskey: &Dnskey<Vec<u8>>, recs: &[SRec], apex: &[u8]) -> Result<bool, String> {
    use domain::base::message_builder::{MessageBuilder, TreeCompressor};
    let owner = recs[0].owner().as_slice().to_vec();
    if w::lower(&owner) == w::lower(apex) || !crate::zmodel::is_at_or_below(&w::lower(&owner), &w::lower(apex)) {
        return Ok(false);
    }
    let mut alias = vec![5, b'a', b'l', b'i', b'a', b's'];
    alias.extend_from_slice(apex);
    if alias.len() > 255 {
        return Ok(false);
    }
    let mut mb = MessageBuilder::from_target(TreeCompressor::new(Vec::new())).unwrap().question();
    mb.push((sname(&alias), recs[0].rtype())).map_err(|_| "push".to_string())?;
    let mut ab = mb.answer();
    ab.push((sname(&alias), Class::IN, Ttl::from_secs(60), domain::rdata::Cname::new(sname(&owner)))).map_err(|_| "push".to_string())?;
    for r in recs {
        if ab.push(r.clone()).is_err() {
            return Ok(false);
        }
    }
    let wire = ab.finish().into_target();
    let msg = domain::base::Message::from_octets(Bytes::from(crate::ctx::exact(&wire))).map_err(|_| "message".to_string())?;
    let mut parsed: Vec<Record<domain::base::ParsedName<Bytes>, ZoneRecordData<Bytes, domain::base::ParsedName<Bytes>>>> = Vec::new();
    for r in msg.answer().map_err(|_| "answer".to_string())?.limit_to::<ZoneRecordData<Bytes, domain::base::ParsedName<Bytes>>>().skip(1) {
        match r {
            Ok(r) => parsed.push(r),
            Err(_) => return Ok(false),
        }
    }
    if parsed.len() != recs.len() {
        return Ok(false);
    }
    let mut buf: Vec<u8> = Vec::new();
    rrsig.signed_data(&mut buf, &mut parsed).map_err(|_| "signed_data refuses the records parsed from the message".to_string())?;
    rrsig.verify_signed_data(dnskey, &buf).map_err(|e| format!("{:?}", e))?;
    Ok(true)
}

fn one(c: &mut Ctx, fam: &str, idx: u64, keys: &[TestKey], log: &mut Option<std::fs::File>) {
    let mut rng = c.case_rng(fam, idx);
    let tk = &keys[rng.below(keys.len())];
    let apex = gn::abs_name(&mut rng);
    let apex = if apex.len() > 120 { b"\x07example\x00".to_vec() } else { apex };
    let owner = gen_owner(&mut rng, &apex);
    let signer_spelled = gn::case_variant(&mut rng, &apex);
    // the RRset
    let zt = g::zone_types();
    let mut t = *rng.pick(&zt);
    if matches!(t, 46 | 41 | 250 | 249) {
        t = 1;
    }
    let pool = g::NamePool::new(&mut rng, 4);
    let mut pick = |r: &mut Rng| pool.pick(r);
    let n = rng.range(1, 4);
    let mut rdatas: Vec<Vec<u8>> = Vec::new();
    // half of the multi-record sets are siblings: copies of the first record that differ in one field only (another name
    // of the pool - of another length, under another parent - or one octet of an opaque field), so that the order of the
    // set is decided late in the RDATA, by exactly the field the type's canonical comparison treats specially
    let siblings = n > 1 && rng.bool();
    let mut first: Option<Vec<w::Fv>> = None;
    for _ in 0..n {
        let fs = match (&first, siblings) {
            (Some(f0), true) => {
                let mut f = f0.clone();
                let name_fields: Vec<usize> = f.iter().enumerate().filter(|(_, x)| matches!(x, w::Fv::Name { .. })).map(|(i, _)| i).collect();
                if !name_fields.is_empty() && rng.chance(3, 4) {
                    let k = *rng.pick(&name_fields);
                    if let w::Fv::Name { wire, .. } = &mut f[k] {
                        *wire = match rng.below(3) {
                            0 => pick(&mut rng),
                            1 => {
                                // a sibling of the name: first label one octet longer or shorter, or another parent
                                let mut n2 = wire.clone();
                                if n2.len() > 2 && n2[0] > 1 && n2.len() < 250 {
                                    if rng.bool() { n2[0] += 1; n2.insert(1, b'z'); } else { n2[0] -= 1; n2.remove(1); }
                                }
                                n2
                            }
                            _ => gn::case_variant(&mut rng, wire),
                        };
                    }
                } else {
                    let raws: Vec<usize> = f.iter().enumerate().filter(|(_, x)| matches!(x, w::Fv::Raw(r) if !r.is_empty())).map(|(i, _)| i).collect();
                    if let Some(k) = raws.last().copied() {
                        if let w::Fv::Raw(r) = &mut f[k] {
                            let p = r.len() - 1;
                            r[p] = r[p].wrapping_add(1 + rng.below(3) as u8);
                        }
                    }
                }
                c.count("sibling_records", 1);
                f
            }
            _ => g::fields(&mut rng, t, &mut pick),
        };
        if first.is_none() {
            first = Some(fs.clone());
        }
        let rd = w::compose_fields(&fs);
        if rd.len() > 400 {
            continue;
        }
        if siblings && try_sdata(t, &rd).is_none() {
            continue; // the changed octet made the value one the type does not allow
        }
        let Some(cn) = canonical_rdata(t, &rd) else { continue };
        if rdatas.iter().any(|x| canonical_rdata(t, x).as_ref() == Some(&cn)) {
            continue;
        }
        rdatas.push(rd);
    }
    if rdatas.is_empty() {
        return;
    }
    let ttl = match rng.below(5) {
        0 => 0,
        1 => 0x7fff_ffff,
        _ => rng.u32() >> rng.range(1, 31),
    } & 0x7fff_ffff;
    let class = 1u16;
    let inc = match rng.below(4) {
        0 => 0xffff_ff00 + rng.below(255) as u32,
        1 => rng.below(1000) as u32,
        _ => rng.u32(),
    };
    let exp = match rng.below(6) {
        0 => inc,
        1 => inc.wrapping_add(0x7fff_ffff),
        2 => inc.wrapping_sub(1 + rng.below(1000) as u32),
        _ => inc.wrapping_add(rng.u32() >> rng.range(1, 31)),
    };
    let ex = json!({"owner": w::name_text(&owner), "type": t, "ttl": ttl, "rdatas": rdatas.iter().map(|r| hex(r)).collect::<Vec<_>>(), "apex": w::name_text(&signer_spelled), "alg": tk.dnskey.algorithm().to_int(), "inception": inc, "expiration": exp});
    let rp = |c: &Ctx, extra: serde_json::Value| c.replay_of(fam, idx, json!({"ctx": ex, "more": extra}));
    let recs: Vec<SRec> = rdatas.iter().map(|rd| srecord(&owner, t, ttl, rd)).collect();
    // the generator may give data ZoneRecordData re-encodes differently; use what the library holds
    ctx::step("sign");
    let seen = Rc::new(RefCell::new(Vec::new()));
    let fail_next = Rc::new(std::cell::Cell::new(false));
    let Ok(kp) = KeyPair::from_bytes(&tk.secret, &tk.dnskey) else {
        c.note("key pair could not be loaded");
        return;
    };
    let key = SigningKey::new(sname(&signer_spelled), tk.dnskey.flags(), Recording { inner: kp, seen: seen.clone(), fail_next: fail_next.clone() });
    let mut order = recs.clone();
    rng.shuffle(&mut order);
    let rrset = match Rrset::new_from_owned(&order) {
        Ok(r) => r,
        Err(_) => return,
    };
    let res = ctx::catch(|| sign_rrset(&key, &rrset, Timestamp::from(inc), Timestamp::from(exp)));
    let sig_rec = match res {
        Err(pi) => {
            c.violation(&format!("panic:{}", pi.site()), &format!("panic in sign_rrset: {} at {}:{}", pi.msg, pi.file, pi.line), rp(c, json!({})));
            return;
        }
        Ok(Err(e)) => {
            // only a validity period that ends before it starts may be refused
            if serial_gt(inc, exp) == Some(true) {
                c.count("invalid_validity_periods_refused", 1);
                c.eval(&("refused", tk.dnskey.algorithm().to_int()));
            } else {
                c.violation("sign-refused", &format!("sign_rrset refuses a signable RRset: {:?}", e), rp(c, json!({})));
            }
            return;
        }
        Ok(Ok(r)) => r,
    };
    if serial_gt(inc, exp) == Some(true) {
        c.violation("backwards-validity-period-signed", "sign_rrset signs with an expiration before the inception (RFC 4034 3.1.5 serial arithmetic)", rp(c, json!({})));
        return;
    }
    let rrsig: Rrsig<Bytes, StoredName> = sig_rec.data().clone();
    // --- the octets that were signed
    ctx::step("signed octets");
    let tag = key_tag(&{
        use domain::base::rdata::ComposeRecordData;
        let mut b = Vec::new();
        tk.dnskey.compose_rdata(&mut b).unwrap();
        b
    });
    let handed = seen.borrow().clone();
    let want = signed_octets(&owner, t, class, ttl, &rdatas, tk.dnskey.algorithm().to_int(), exp, inc, tag, &signer_spelled);
    let Some(want) = want else { return };
    if handed.len() != 1 || handed[0] != want {
        let got = handed.first().cloned().unwrap_or_default();
        // where do they part?
        let p = got.iter().zip(&want).position(|(a, b)| a != b).unwrap_or(got.len().min(want.len()));
        let prefix_len = 18 + signer_spelled.len();
        let part = if p < 2 {
            "type-covered"
        } else if p < 3 {
            "algorithm"
        } else if p < 4 {
            "labels"
        } else if p < 8 {
            "original-ttl"
        } else if p < 16 {
            "validity"
        } else if p < 18 {
            "key-tag"
        } else if p < prefix_len {
            "signer-name"
        } else {
            "records"
        };
        c.violation(&format!("signed-octets-differ:{}:TYPE{}", part, if part == "records" { t } else { 0 }), &format!("the octets handed to the key differ from the RFC 4034 3.1.8.1 construction at offset {} ({}): signer {} vs reference {}", p, part, hex(&got), hex(&want)), rp(c, json!({})));
        return;
    }
    c.count("signed_octets_compared", 1);
    // --- the same RRset through the entry point with a caller-owned scratch buffer: whatever the
    // buffer held before (octets of an earlier use, of a signing attempt that failed) the key is
    // handed the RFC 4034 octets and nothing else
    if rng.chance(1, 3) {
        ctx::step("sign_sorted_rrset_in");
        let mut sorted = order.clone();
        sorted.sort_by(|a, b| a.data().canonical_cmp(b.data()));
        if let Ok(srrset) = Rrset::new_from_owned(&sorted) {
            let mut scratch: Vec<u8> = if rng.bool() { rng.bytes(rng.clone().range(1, 40)) } else { Vec::new() };
            let fail_first = rng.bool();
            seen.borrow_mut().clear();
            let res = ctx::catch(|| {
                let mut first_err = None;
                if fail_first {
                    fail_next.set(true);
                    first_err = Some(sign_sorted_rrset_in(&key, &srrset, Timestamp::from(inc), Timestamp::from(exp), &mut scratch).is_err());
                }
                (first_err, sign_sorted_rrset_in(&key, &srrset, Timestamp::from(inc), Timestamp::from(exp), &mut scratch).map(|r| r.data().clone()))
            });
            match res {
                Err(pi) => {
                    c.violation(&format!("panic:{}", pi.site()), &format!("panic in sign_sorted_rrset_in: {} at {}:{}", pi.msg, pi.file, pi.line), rp(c, json!({})));
                    return;
                }
                Ok((first_err, second)) => {
                    if first_err == Some(false) {
                        c.violation("scratch:failed-key-signed", "sign_sorted_rrset_in returned a signature although the key refused to sign", rp(c, json!({})));
                        return;
                    }
                    let handed = seen.borrow().clone();
                    match second {
                        Err(e) => {
                            c.violation("scratch:sign-refused", &format!("sign_sorted_rrset_in refuses an RRset that sign_rrset signs: {:?}", e), rp(c, json!({})));
                            return;
                        }
                        Ok(_) if handed.len() != 1 || handed[0] != want => {
                            let got = handed.first().cloned().unwrap_or_default();
                            c.violation(&format!("scratch:signed-octets-differ:{}", if fail_first { "after-a-failed-attempt" } else { "buffer-not-empty-on-entry" }), &format!("with a reused scratch buffer the key is handed {} octets, the RFC 4034 construction has {} (the signature cannot verify)", got.len(), want.len()), rp(c, json!({})));
                            return;
                        }
                        Ok(_) => c.count(if fail_first { "scratch_reused_after_failed_attempt" } else { "scratch_reused" }, 1),
                    }
                }
            }
        }
    }
    // the RRSIG record itself
    if sig_rec.ttl().as_secs() != ttl || w::lower(sig_rec.owner().as_slice()) != w::lower(&owner) || rrsig.labels() != rrsig_labels(&owner) || rrsig.key_tag() != tag || rrsig.original_ttl().as_secs() != ttl || rrsig.type_covered().to_int() != t {
        c.violation("rrsig-fields", "the RRSIG record's owner, TTL, labels, key tag, original TTL or type covered are not those of the RRset and key", rp(c, json!({})));
        return;
    }
    // --- verification, as is and after what resolvers do to an RRset
    ctx::step("verify");
    let check = |c: &mut Ctx, what: &str, recs: &[SRec]| -> bool {
        match ctx::catch(|| verify(&rrsig, &tk.dnskey, recs)) {
            Ok(Ok(())) => {
                c.count("verifications_ok", 1);
                true
            }
            Ok(Err(e)) => {
                c.violation(&format!("verify-fails:{}:TYPE{}", what, t), &format!("a signature made by sign_rrset does not verify ({}) : {}", what, e), rp(c, json!({"variant": what})));
                false
            }
            Err(pi) => {
                c.violation(&format!("panic:{}", pi.site()), &format!("panic verifying ({}): {}", what, pi.msg), rp(c, json!({"variant": what})));
                false
            }
        }
    };
    if !check(c, "as-signed", &recs) {
        return;
    }
    let mut rev = recs.clone();
    rev.reverse();
    if !check(c, "reordered", &rev) {
        return;
    }
    let cased: Vec<SRec> = rdatas.iter().map(|rd| srecord(&gn::case_variant(&mut rng, &owner), t, ttl, rd)).collect();
    if !check(c, "owner-case", &cased) {
        return;
    }
    let lower_ttl = if ttl > 0 { rng.below(ttl as usize) as u32 } else { 0 };
    let dec: Vec<SRec> = rdatas.iter().map(|rd| srecord(&owner, t, lower_ttl, rd)).collect();
    if !check(c, "ttl-decremented", &dec) {
        return;
    }
    // embedded names in another case, for the types whose canonical form folds them
    {
        let mut changed = false;
        let alt: Vec<Vec<u8>> = rdatas
            .iter()
            .map(|rd| {
                let Ok(fs) = w::decode_rdata(rd, 0, rd.len(), t) else { return rd.clone() };
                let fs2: Vec<w::Fv> = fs
                    .into_iter()
                    .map(|f| match f {
                        w::Fv::Name { wire, lc: true, compress } => {
                            changed = true;
                            w::Fv::Name { wire: gn::case_variant(&mut rng, &wire), lc: true, compress }
                        }
                        other => other,
                    })
                    .collect();
                w::compose_fields(&fs2)
            })
            .collect();
        if changed {
            let v: Vec<SRec> = alt.iter().map(|rd| srecord(&owner, t, ttl, rd)).collect();
            if !check(c, "rdata-name-case", &v) {
                return;
            }
        }
    }
    // wildcard expansion
    if w::labels(&owner).first().map(|l| *l == b"*").unwrap_or(false) {
        let rest = &owner[2..];
        let mut exp_owner = Vec::new();
        for _ in 0..rng.range(1, 2) {
            let l = gn::small_label(&mut rng);
            exp_owner.push(l.len() as u8);
            exp_owner.extend(l);
        }
        exp_owner.extend_from_slice(rest);
        if exp_owner.len() <= 255 {
            let v: Vec<SRec> = rdatas.iter().map(|rd| srecord(&exp_owner, t, ttl, rd)).collect();
            if !check(c, "wildcard-expanded", &v) {
                return;
            }
            c.count("wildcard_expansions_verified", 1);
            match ctx::catch(|| via_cname_message(&rrsig, &tk.dnskey, &v, &apex)) {
                Ok(Ok(true)) => c.count("verified_behind_an_alias_in_a_compressed_message_wildcard", 1),
                Ok(Ok(false)) => {}
                Ok(Err(e)) => {
                    c.violation(&format!("verify-fails:behind-alias-in-compressed-message:wildcard-expanded:TYPE{}", t), &format!("a wildcard-expanded RRset behind a CNAME in a compressed message (owners written as a pointer to the CNAME's target) does not verify: {}", e), rp(c, json!({})));
                    return;
                }
                Err(pi) => {
                    c.violation(&format!("panic:{}", pi.site()), &format!("panic verifying records parsed from a compressed message: {} at {}:{}", pi.msg, pi.file, pi.line), rp(c, json!({})));
                    return;
                }
            }
            let ce = rrsig.wildcard_closest_encloser(&v[0]);
            if ce.as_ref().map(|n| w::lower(n.as_slice())) != Some(w::lower(rest)) {
                c.violation("wildcard-closest-encloser", &format!("closest encloser of an expanded wildcard answer is {:?}, should be {}", ce.map(|n| w::name_text(n.as_slice())), w::name_text(rest)), rp(c, json!({})));
                return;
            }
        }
    }
    // through a compressed message
    {
        use domain::base::message_builder::{MessageBuilder, TreeCompressor};
        let mut mb = MessageBuilder::from_target(TreeCompressor::new(Vec::new())).unwrap().question();
        mb.push((sname(&owner), Rtype::from_int(t))).unwrap();
        let mut ab = mb.answer();
        for r in &recs {
            ab.push(r.clone()).unwrap();
        }
        let wire = ab.finish().into_target();
        let msg = domain::base::Message::from_octets(Bytes::from(wire)).unwrap();
        let mut parsed: Vec<Record<domain::base::ParsedName<Bytes>, ZoneRecordData<Bytes, domain::base::ParsedName<Bytes>>>> = Vec::new();
        for r in msg.answer().unwrap().limit_to::<ZoneRecordData<Bytes, domain::base::ParsedName<Bytes>>>() {
            match r {
                Ok(r) => parsed.push(r),
                Err(_) => {
                    parsed.clear();
                    break;
                }
            }
        }
        if parsed.len() == recs.len() {
            let mut buf: Vec<u8> = Vec::new();
            let ok = rrsig.signed_data(&mut buf, &mut parsed).is_ok() && rrsig.verify_signed_data(&tk.dnskey, &buf).is_ok();
            if !ok {
                c.violation(&format!("verify-fails:compressed-message:TYPE{}", t), "the signature does not verify on the records as parsed from a compressed message", rp(c, json!({})));
                return;
            }
            c.count("verified_through_compressed_message", 1);
            match ctx::catch(|| via_cname_message(&rrsig, &tk.dnskey, &recs, &apex)) {
                Ok(Ok(true)) => c.count("verified_behind_an_alias_in_a_compressed_message", 1),
                Ok(Ok(false)) => {}
                Ok(Err(e)) => {
                    c.violation(&format!("verify-fails:behind-alias-in-compressed-message:TYPE{}", t), &format!("an RRset behind a CNAME in a compressed message (owners written as a pointer to the CNAME's target) does not verify: {}", e), rp(c, json!({})));
                    return;
                }
                Err(pi) => {
                    c.violation(&format!("panic:{}", pi.site()), &format!("panic verifying records parsed from a compressed message: {} at {}:{}", pi.msg, pi.file, pi.line), rp(c, json!({})));
                    return;
                }
            }
        }
    }
    // --- alterations must break it
    ctx::step("alterations");
    let mk = |tc: u16, alg: SecurityAlgorithm, labels: u8, ottl: u32, e: u32, i: u32, kt: u16, signer: &[u8], sig: &[u8]| Rrsig::<Bytes, StoredName>::new(Rtype::from_int(tc), alg, labels, Ttl::from_secs(ottl), Timestamp::from(e), Timestamp::from(i), kt, sname(signer), Bytes::copy_from_slice(sig)).unwrap();
    let alg = rrsig.algorithm();
    let sig = rrsig.signature().to_vec();
    let lab = rrsig.labels();
    let mut alts: Vec<(&'static str, Rrsig<Bytes, StoredName>, Vec<SRec>, Dnskey<Vec<u8>>)> = Vec::new();
    let base = |f: &dyn Fn() -> Rrsig<Bytes, StoredName>| f();
    let _ = base;
    alts.push(("type-covered", mk(t ^ 1, alg, lab, ttl, exp, inc, tag, &signer_spelled, &sig), recs.clone(), tk.dnskey.clone()));
    alts.push(("labels", mk(t, alg, lab.wrapping_add(1), ttl, exp, inc, tag, &signer_spelled, &sig), recs.clone(), tk.dnskey.clone()));
    if lab > 0 {
        alts.push(("labels-less", mk(t, alg, lab - 1, ttl, exp, inc, tag, &signer_spelled, &sig), recs.clone(), tk.dnskey.clone()));
    }
    alts.push(("original-ttl", mk(t, alg, lab, ttl ^ 1, exp, inc, tag, &signer_spelled, &sig), recs.clone(), tk.dnskey.clone()));
    alts.push(("expiration", mk(t, alg, lab, ttl, exp ^ 0x100, inc, tag, &signer_spelled, &sig), recs.clone(), tk.dnskey.clone()));
    alts.push(("inception", mk(t, alg, lab, ttl, exp, inc ^ 0x100, tag, &signer_spelled, &sig), recs.clone(), tk.dnskey.clone()));
    alts.push(("key-tag", mk(t, alg, lab, ttl, exp, inc, tag ^ 0x8000, &signer_spelled, &sig), recs.clone(), tk.dnskey.clone()));
    {
        let mut other = vec![1, b'q'];
        other.extend_from_slice(&signer_spelled);
        if other.len() <= 255 {
            alts.push(("signer-name", mk(t, alg, lab, ttl, exp, inc, tag, &other, &sig), recs.clone(), tk.dnskey.clone()));
        }
    }
    for _ in 0..4 {
        let mut s2 = sig.clone();
        let b = rng.below(s2.len() * 8);
        s2[b / 8] ^= 1 << (b % 8);
        alts.push(("signature-bit", mk(t, alg, lab, ttl, exp, inc, tag, &signer_spelled, &s2), recs.clone(), tk.dnskey.clone()));
    }
    {
        let mut s2 = sig.clone();
        s2.pop();
        alts.push(("signature-shortened", mk(t, alg, lab, ttl, exp, inc, tag, &signer_spelled, &s2), recs.clone(), tk.dnskey.clone()));
        let mut s3 = sig.clone();
        s3.push(0);
        alts.push(("signature-extended", mk(t, alg, lab, ttl, exp, inc, tag, &signer_spelled, &s3), recs.clone(), tk.dnskey.clone()));
    }
    for _ in 0..3 {
        let mut pk = tk.dnskey.public_key().clone();
        let b = rng.below(pk.len() * 8);
        pk[b / 8] ^= 1 << (b % 8);
        if let Ok(k2) = Dnskey::new(tk.dnskey.flags(), tk.dnskey.protocol(), tk.dnskey.algorithm(), pk) {
            alts.push(("public-key-bit", rrsig.clone(), recs.clone(), k2));
        }
    }
    // the same key material under another algorithm number is another key (other RDATA, other key tag); likewise the
    // signature under another algorithm number
    for a2 in [1u8, 3, 5, 6, 7, 8, 10, 12, 13, 14, 15, 16, 253, rng.u8()] {
        if a2 == alg.to_int() {
            continue;
        }
        if let Ok(k2) = Dnskey::new(tk.dnskey.flags(), tk.dnskey.protocol(), SecurityAlgorithm::from_int(a2), tk.dnskey.public_key().clone()) {
            alts.push(("key-algorithm", rrsig.clone(), recs.clone(), k2));
        }
        if rng.chance(1, 4) {
            alts.push(("rrsig-algorithm", mk(t, SecurityAlgorithm::from_int(a2), lab, ttl, exp, inc, tag, &signer_spelled, &sig), recs.clone(), tk.dnskey.clone()));
        }
    }
    {
        // records
        let mut rd2 = rdatas.clone();
        let k = rng.below(rd2.len());
        let p = rng.below(rd2[k].len().max(1));
        if !rd2[k].is_empty() {
            rd2[k][p] ^= 0x01;
            // only if the canonical form really changes (a case flip inside a folded name does not)
            if try_sdata(t, &rd2[k]).is_some() && canonical_rdata(t, &rd2[k]).is_some() && canonical_rdata(t, &rd2[k]) != canonical_rdata(t, &rdatas[k]) && !rd2.iter().enumerate().any(|(j, x)| j != k && canonical_rdata(t, x) == canonical_rdata(t, &rd2[k])) {
                let v: Vec<SRec> = rd2.iter().map(|rd| srecord(&owner, t, ttl, rd)).collect();
                alts.push(("rdata-bit", rrsig.clone(), v, tk.dnskey.clone()));
            }
        }
        if recs.len() > 1 {
            alts.push(("record-removed", rrsig.clone(), recs[1..].to_vec(), tk.dnskey.clone()));
        }
        let mut o2 = vec![1, b'z'];
        o2.extend_from_slice(&owner);
        if o2.len() <= 255 && !w::labels(&owner).first().map(|l| *l == b"*").unwrap_or(false) {
            // a longer owner with the same labels count is how an expanded wildcard looks: use a sibling instead
            let mut sib = owner.clone();
            if sib.len() > apex.len() && sib[0] > 0 {
                sib[1] = if sib[1] == b'k' { b'j' } else { b'k' };
                if w::lower(&sib) != w::lower(&owner) {
                    let v: Vec<SRec> = rdatas.iter().map(|rd| srecord(&sib, t, ttl, rd)).collect();
                    alts.push(("owner", rrsig.clone(), v, tk.dnskey.clone()));
                }
            }
        }
        let v: Vec<SRec> = rdatas.iter().map(|rd| Record::new(sname(&owner), Class::CH, Ttl::from_secs(ttl), sdata(t, rd))).collect();
        alts.push(("class", rrsig.clone(), v, tk.dnskey.clone()));
    }
    for (what, sigv, rs, k) in alts {
        let r = ctx::catch(|| verify(&sigv, &k, &rs));
        match r {
            Ok(Ok(())) => {
                c.violation(&format!("altered-still-verifies:{}", what), &format!("after altering [{}] the signature still verifies", what), rp(c, json!({"altered": what})));
                return;
            }
            Ok(Err(_)) => c.count("alterations_rejected", 1),
            Err(pi) => {
                c.violation(&format!("panic:{}", pi.site()), &format!("panic verifying after altering [{}]: {} at {}:{}", what, pi.msg, pi.file, pi.line), rp(c, json!({"altered": what})));
                return;
            }
        }
        c.evals_n(1);
    }
    // --- key tag and DS digests
    ctx::step("key tag / DS");
    if tk.dnskey.key_tag() != tag {
        c.violation("key-tag", &format!("Dnskey::key_tag() = {} but RFC 4034 appendix B gives {}", tk.dnskey.key_tag(), tag), rp(c, json!({})));
        return;
    }
    {
        use domain::base::rdata::ComposeRecordData;
        let mut rd = Vec::new();
        tk.dnskey.compose_rdata(&mut rd).unwrap();
        let own = gn::case_variant(&mut rng, &apex);
        let mut pre = w::lower(&own);
        pre.extend_from_slice(&rd);
        for (da, ra) in [(DigestAlgorithm::SHA1, &ring::digest::SHA1_FOR_LEGACY_USE_ONLY), (DigestAlgorithm::SHA256, &ring::digest::SHA256), (DigestAlgorithm::SHA384, &ring::digest::SHA384)] {
            let want = ring::digest::digest(ra, &pre).as_ref().to_vec();
            match tk.dnskey.digest(&sname(&own), da) {
                Ok(d) if d.as_ref() == &want[..] => {
                    c.count("ds_digests_compared", 1);
                    if let Some(f) = log {
                        if rng.chance(1, 4) {
                            let _ = writeln!(f, "{}", json!({"owner": hex(&own), "dnskey_rdata": hex(&rd), "digest_type": da.to_int(), "digest": hex(d.as_ref()), "key_tag": tk.dnskey.key_tag()}));
                        }
                    }
                }
                other => {
                    c.violation("ds-digest", &format!("Dnskey::digest({:?}) = {:?}, RFC 4034 5.1.4 gives {}", da, other.map(|d| hex(d.as_ref())).map_err(|e| format!("{:?}", e)), hex(&want)), rp(c, json!({})));
                    return;
                }
            }
        }
    }
    let wild = w::labels(&owner).first().map(|l| *l == b"*").unwrap_or(false);
    c.eval(&("rrset", t, tk.dnskey.algorithm().to_int(), rdatas.len(), wild, w::labels(&owner).len().min(5), serial_gt(exp, inc), ttl == 0));
    if c.want_sample() && idx % 29 == 0 {
        c.sample(json!({"owner": w::name_text(&owner), "type": t, "records": rdatas.len(), "alg": tk.dnskey.algorithm().to_int(), "signed_octets": want.len()}));
    }
}

/// Key tags of random DNSKEY RDATA (any algorithm number, any key length, including RSA/MD5).
fn key_tags(c: &mut Ctx, log: &mut Option<std::fs::File>) {
    let fam = "keytags";
    let total = c.total(20_000, 1_000_000);
    for idx in c.cases(fam, total) {
        let mut rng = c.case_rng(fam, idx);
        let alg = match rng.below(4) {
            0 => 1u8,
            1 => rng.u8(),
            _ => *rng.pick(&[5u8, 7, 8, 10, 13, 14, 15, 16]),
        };
        let klen = match rng.below(6) {
            0 => rng.below(4),
            1 => rng.range(1000, 3000),
            _ => rng.range(4, 600),
        };
        let mut pk = rng.bytes(klen);
        if rng.chance(1, 6) {
            for b in pk.iter_mut() {
                *b = 0xff;
            }
        }
        let flags = rng.u16();
        let proto = if rng.chance(1, 4) { rng.u8() } else { 3 };
        let Ok(k) = Dnskey::new(flags, proto, SecurityAlgorithm::from_int(alg), pk.clone()) else { continue };
        let mut rd = flags.to_be_bytes().to_vec();
        rd.push(proto);
        rd.push(alg);
        rd.extend_from_slice(&pk);
        let want = key_tag(&rd);
        let got = ctx::catch(|| k.key_tag());
        match got {
            Ok(g) if g == want => {
                c.count("key_tags_compared", 1);
                if let Some(f) = log {
                    if rng.chance(1, 8) {
                        let _ = writeln!(f, "{}", json!({"dnskey_rdata": hex(&rd), "key_tag": g}));
                    }
                }
                c.eval(&("keytag", alg == 1, klen.min(5), klen & 1));
            }
            Ok(g) => {
                c.violation(&format!("key-tag:{}", if alg == 1 { "rsamd5" } else { "general" }), &format!("Dnskey::key_tag() = {} but RFC 4034 appendix B gives {} (algorithm {}, key of {} octets)", g, want, alg, klen), c.replay_of(fam, idx, json!({"rdata": hex(&rd)})));
                return;
            }
            Err(pi) => {
                c.violation(&format!("panic:{}", pi.site()), &format!("panic in key_tag: {}", pi.msg), c.replay_of(fam, idx, json!({"rdata": hex(&rd)})));
                return;
            }
        }
    }
}

/// Signatures the ring back end can verify but not make (RSA/SHA-1, algorithms 5 and 7, which share one verifier): the
/// example of RFC 4035 appendix B.6 (a.z.w.example. MX, expanded from *.w.example.) verifies under the zone's key, and
/// under that key with any other algorithm number, with a flipped bit, or with the RRSIG relabelled, it does not.
fn rfc_vectors(c: &mut Ctx) {
    let fam = "rfc-vectors";
    let b64 = |t: &str| -> Vec<u8> {
        match crate::refimpl::b64::dec64(&t.chars().filter(|ch| !ch.is_whitespace()).collect::<String>()) {
            crate::refimpl::b64::Dec::Ok(v) | crate::refimpl::b64::Dec::Tolerated(v) => v,
            _ => vec![],
        }
    };
    let pk = b64("AQOy1bZVvpPqhg4j7EJoM9rI3ZmyEx2OzDBVrZy/lvI5CQePxXHZS4i8dANH4DX3tbHol61ek8EFMcsGXxKciJFHyhl94C+NwILQdzsUlSFovBZsyl/NX6yEbtw/xN9ZNcrbYvgjjZ/UVPZIySFNsgEYvh0z2542lzMKR4Dh8uZffQ==");
    let sig = b64("OMK8rAZlepfzLWW75Dxd63jy2wswESzxDKG2f9AMN1CytCd10cYISAxfAdvXSZ7xujKAtPbctvOQ2ofO7AZJ+d01EeeQTVBPq4/6KCWhqe2XTjnkVLNvvhnc0u28aoSsG0+4InvkkOHknKxw4kX18MMR34i8lC36SR5xBni8vHI=");
    let example = b"\x07example\x00".to_vec();
    let owner = b"\x01a\x01z\x01w\x07example\x00".to_vec();
    let mut mx = vec![0u8, 1];
    mx.extend_from_slice(b"\x02ai\x07example\x00");
    let recs = vec![srecord(&owner, 15, 3600, &mx)];
    // 20040509183619 / 20040409183619
    let (exp, inc) = (1084127779u32, 1081535779u32);
    let mk = |alg: u8, sig: &[u8]| Rrsig::<Bytes, StoredName>::new(Rtype::MX, SecurityAlgorithm::from_int(alg), 2, Ttl::from_secs(3600), Timestamp::from(exp), Timestamp::from(inc), 38519, sname(&example), Bytes::copy_from_slice(sig)).unwrap();
    let key = |alg: u8, pk: &[u8]| Dnskey::<Vec<u8>>::new(256, 3, SecurityAlgorithm::from_int(alg), pk.to_vec());
    let genuine = match ctx::catch(|| verify(&mk(5, &sig), &key(5, &pk).unwrap(), &recs)) {
        Ok(r) => r,
        Err(pi) => {
            c.violation(&format!("panic:{}", pi.site()), &format!("panic verifying the RFC 4035 B.6 example: {}", pi.msg), c.replay_of(fam, 0, json!({})));
            return;
        }
    };
    if let Err(e) = genuine {
        c.violation("rfc-vector:genuine-refused", &format!("the RRSIG of RFC 4035 appendix B.6 (RSA/SHA-1, wildcard expansion) does not verify under the zone's key: {}", e), c.replay_of(fam, 0, json!({})));
        return;
    }
    c.count("rfc_vectors_verified", 1);
    let mut alts: Vec<(String, Rrsig<Bytes, StoredName>, Dnskey<Vec<u8>>)> = Vec::new();
    for a in 0..=255u8 {
        if a != 5 {
            if let Ok(k) = key(a, &pk) {
                alts.push((format!("key-algorithm-{}", a), mk(5, &sig), k));
            }
            alts.push((format!("rrsig-algorithm-{}", a), mk(a, &sig), key(5, &pk).unwrap()));
        }
    }
    for bit in 0..sig.len() * 8 {
        let mut s2 = sig.clone();
        s2[bit / 8] ^= 1 << (bit % 8);
        alts.push(("signature-bit".into(), mk(5, &s2), key(5, &pk).unwrap()));
    }
    for bit in 0..pk.len() * 8 {
        let mut p2 = pk.clone();
        p2[bit / 8] ^= 1 << (bit % 8);
        if let Ok(k) = key(5, &p2) {
            alts.push(("public-key-bit".into(), mk(5, &sig), k));
        }
    }
    for (what, sg, k) in alts {
        match ctx::catch(|| verify(&sg, &k, &recs)) {
            Ok(Ok(())) => {
                let cls = what.trim_end_matches(|ch: char| ch.is_ascii_digit() || ch == '-').to_string();
                c.violation(&format!("altered-still-verifies:{}:rsasha1-vector", cls), &format!("the RSA/SHA-1 example of RFC 4035 B.6 still verifies after altering [{}]", what), c.replay_of(fam, 0, json!({"altered": what})));
            }
            Ok(Err(_)) => c.count("alterations_rejected", 1),
            Err(pi) => c.violation(&format!("panic:{}", pi.site()), &format!("panic verifying the RFC 4035 B.6 example after altering [{}]: {} at {}:{}", what, pi.msg, pi.file, pi.line), c.replay_of(fam, 0, json!({"altered": what}))),
        }
        c.evals_n(1);
    }
}

pub fn run(c: &mut Ctx) {
    c.families(2);
    let mut log = std::fs::File::create(c.logdir.join(format!("dnssec_{}.jsonl", c.shard))).ok();
    let keys = make_keys();
    c.count("keys_available", keys.len() as u64);
    if keys.is_empty() {
        c.note("no signing keys could be generated or loaded");
        return;
    }
    key_tags(c, &mut log);
    if c.shard == 0 && !c.replaying() {
        rfc_vectors(c);
        c.floor("rfc_vectors_verified", 1);
    }
    let fam = "rrsets";
    let total = c.total(40_000, 1_500_000);
    for idx in c.cases(fam, total) {
        if c.out_of_time() {
            break;
        }
        ctx::slot_write(idx, &format!("{}|case", fam), &[]);
        one(c, fam, idx, &keys, &mut log);
    }
    if !c.replaying() {
        for k in ["signed_octets_compared", "verifications_ok", "alterations_rejected", "wildcard_expansions_verified", "verified_through_compressed_message", "ds_digests_compared", "key_tags_compared", "invalid_validity_periods_refused", "verified_behind_an_alias_in_a_compressed_message", "verified_behind_an_alias_in_a_compressed_message_wildcard"] {
            c.floor(k, 5);
        }
    }
}
