//! C13 — generated NSEC/NSEC3 chains are complete, ordered, closed and exactly typed.
use crate::ctx::{self, hex, Ctx};
use crate::gen::rdata::bitmap_of;
use crate::refimpl::b64;
use crate::refimpl::wire as w;
use crate::rng::Rng;
use crate::zlib::*;
use crate::zmodel::*;
use bytes::Bytes;
use domain::base::iana::Nsec3HashAlgorithm;
use domain::base::name::ToName;
use domain::base::rdata::ComposeRecordData;
use domain::base::Ttl;
use domain::dnssec::sign::denial::nsec::{generate_nsecs, GenerateNsecConfig};
use domain::dnssec::sign::denial::nsec3::{generate_nsec3s, GenerateNsec3Config};
use domain::dnssec::sign::records::{DefaultSorter, SortedRecords};
use domain::rdata::nsec3::Nsec3Salt;
use domain::rdata::Nsec3param;
use domain::zonetree::types::{StoredName, StoredRecordData};
use serde_json::json;
use std::collections::{BTreeMap, BTreeSet};
use std::io::Write;

const T_RRSIG: u16 = 46;
const T_NSEC: u16 = 47;
const T_DNSKEY: u16 = 48;
const T_NSEC3PARAM: u16 = 51;

/// The whole-zone entry points reach the same generators by another route: `sign_zone` in place
/// and `sign_zone` into a separate collection (no keys: denial records only) must add exactly the
/// denial records that direct generation yields.
fn routes_agree(c: &mut Ctx, fam: &str, idx: u64, z: &ZoneC, denial: domain::dnssec::sign::denial::config::DenialConfig<Bytes, DefaultSorter>, direct: &BTreeSet<(Vec<u8>, u16, Vec<u8>)>, what: &str) {
    use domain::crypto::sign::KeyPair;
    use domain::dnssec::sign::config::SigningConfig;
    use domain::dnssec::sign::keys::SigningKey;
    use domain::dnssec::sign::traits::{SignableZone, SignableZoneInPlace};
    use domain::rdata::dnssec::Timestamp;
    let apex = sname(&z.apex);
    let cfg = SigningConfig::new(denial, Timestamp::from(0), Timestamp::from(1));
    let no_keys: &[&SigningKey<Bytes, KeyPair>] = &[];
    let denial_types = |t: u16| matches!(t, 47 | 50 | 51);
    let collect = |recs: &[domain::base::Record<StoredName, StoredRecordData>]| -> BTreeSet<(Vec<u8>, u16, Vec<u8>)> {
        recs.iter()
            .filter(|r| denial_types(r.rtype().to_int()))
            .map(|r| {
                let mut rd = Vec::new();
                r.data().compose_rdata(&mut rd).unwrap();
                (w::lower(r.owner().as_slice()), r.rtype().to_int(), rd)
            })
            .collect()
    };
    let r = ctx::catch(|| {
        let mut in_place = sorted_records(z);
        let a = SignableZoneInPlace::sign_zone(&mut in_place, &apex, &cfg, no_keys).map(|_| collect(&in_place)).map_err(|e| format!("{:?}", e));
        let src = sorted_records(z);
        let mut out = SortedRecords::<StoredName, StoredRecordData, DefaultSorter>::default();
        let b = SignableZone::sign_zone(&src, &apex, &cfg, no_keys, &mut out).map(|_| collect(&out)).map_err(|e| format!("{:?}", e));
        (a, b)
    });
    let ex = || json!({"zone": z.records().iter().map(|(o, t, _, _)| format!("{} TYPE{}", w::name_text(o), t)).collect::<Vec<_>>(), "denial": what});
    match r {
        Err(pi) => c.violation(&format!("panic:{}", pi.site()), &format!("panic in sign_zone ({}): {} at {}:{}", what, pi.msg, pi.file, pi.line), c.replay_of(fam, idx, ex())),
        Ok((a, b)) => {
            for (route, got) in [("in-place", a), ("into-a-separate-collection", b)] {
                match got {
                    Err(e) => {
                        c.violation(&format!("route:{}:{}:error", what, route), &format!("sign_zone ({}, {}) fails on a zone for which direct generation succeeds: {}", what, route, e), c.replay_of(fam, idx, ex()));
                        return;
                    }
                    Ok(set) if &set != direct => {
                        c.violation(&format!("route:{}:{}:differs", what, route), &format!("sign_zone ({}, {}) adds {} denial records, direct generation yields {} (or other ones)", what, route, set.len(), direct.len()), c.replay_of(fam, idx, ex()));
                        return;
                    }
                    Ok(_) => {}
                }
            }
            c.count("sign_zone_routes_agree", 1);
        }
    }
}

// ------------------------------------------------------------- SHA-1 ----

pub fn sha1(data: &[u8]) -> [u8; 20] {
    let mut h: [u32; 5] = [0x67452301, 0xEFCDAB89, 0x98BADCFE, 0x10325476, 0xC3D2E1F0];
    let mut msg = data.to_vec();
    let ml = (data.len() as u64) * 8;
    msg.push(0x80);
    while msg.len() % 64 != 56 {
        msg.push(0);
    }
    msg.extend_from_slice(&ml.to_be_bytes());
    for chunk in msg.chunks(64) {
        let mut wv = [0u32; 80];
        for i in 0..16 {
            wv[i] = u32::from_be_bytes([chunk[4 * i], chunk[4 * i + 1], chunk[4 * i + 2], chunk[4 * i + 3]]);
        }
        for i in 16..80 {
            wv[i] = (wv[i - 3] ^ wv[i - 8] ^ wv[i - 14] ^ wv[i - 16]).rotate_left(1);
        }
        let (mut a, mut b, mut c, mut d, mut e) = (h[0], h[1], h[2], h[3], h[4]);
        for (i, wi) in wv.iter().enumerate() {
            let (f, k) = match i {
                0..=19 => ((b & c) | (!b & d), 0x5A827999u32),
                20..=39 => (b ^ c ^ d, 0x6ED9EBA1),
                40..=59 => ((b & c) | (b & d) | (c & d), 0x8F1BBCDC),
                _ => (b ^ c ^ d, 0xCA62C1D6),
            };
            let t = a.rotate_left(5).wrapping_add(f).wrapping_add(e).wrapping_add(k).wrapping_add(*wi);
            e = d;
            d = c;
            c = b.rotate_left(30);
            b = a;
            a = t;
        }
        h[0] = h[0].wrapping_add(a);
        h[1] = h[1].wrapping_add(b);
        h[2] = h[2].wrapping_add(c);
        h[3] = h[3].wrapping_add(d);
        h[4] = h[4].wrapping_add(e);
    }
    let mut out = [0u8; 20];
    for i in 0..5 {
        out[4 * i..4 * i + 4].copy_from_slice(&h[i].to_be_bytes());
    }
    out
}

/// RFC 5155 §5: IH(salt, x, k)
pub fn nsec3_hash(name_lower_wire: &[u8], salt: &[u8], iterations: u16) -> [u8; 20] {
    let mut buf = name_lower_wire.to_vec();
    buf.extend_from_slice(salt);
    let mut h = sha1(&buf);
    for _ in 0..iterations {
        let mut b = h.to_vec();
        b.extend_from_slice(salt);
        h = sha1(&b);
    }
    h
}

// ------------------------------------------------------------- model ----

struct Auth {
    /// authoritative owners (lower-cased) -> (is_cut, has_ds, types in bitmap without NSEC/RRSIG)
    owners: BTreeMap<Vec<u8>, (bool, bool, Vec<u16>)>,
}

fn authoritative(z: &ZoneC) -> Auth {
    let cuts: Vec<Vec<u8>> = z.names().into_iter().filter(|n| z.is_cut(n)).collect();
    let mut owners = BTreeMap::new();
    for n in z.names() {
        if cuts.iter().any(|c| is_at_or_below(&n, c) && n != *c) {
            continue; // glue / occluded
        }
        let cut = z.is_cut(&n);
        let mut types = z.types_at(&n);
        if cut {
            types.retain(|t| *t == T_NS || *t == T_DS);
        }
        owners.insert(n.clone(), (cut, z.get(&n, T_DS).is_some(), types));
    }
    Auth { owners }
}

fn soa_ttl(z: &ZoneC) -> u32 {
    let s = z.get(&z.apex, T_SOA).unwrap();
    let min = u32::from_be_bytes(s.rdatas[0][s.rdatas[0].len() - 4..].try_into().unwrap());
    s.ttl.min(min)
}

fn sorted_records(z: &ZoneC) -> SortedRecords<StoredName, StoredRecordData> {
    let recs: Vec<_> = z.records().into_iter().map(|(o, t, ttl, d)| srecord(&o, t, ttl, &d)).collect();
    SortedRecords::<StoredName, StoredRecordData, DefaultSorter>::from(recs)
}

/// Enrich a generated zone with the situations C13 names.
fn enrich(rng: &mut Rng, z: &mut ZoneC) {
    let apex = z.apex.clone();
    if rng.chance(1, 8) {
        // apex-only zone
        z.rrsets.retain(|k, _| k.0 == w::lower(&apex));
        return;
    }
    if rng.bool() {
        // glue below a cut that sorts at the very end of the zone
        let cut = nm(&[b"zz"], &apex);
        if z.types_at(&cut).is_empty() {
            z.insert(RRset { name: cut.clone(), rtype: T_NS, ttl: 3600, rdatas: vec![nm(&[b"ns", b"zz"], &apex)] });
            z.insert(RRset { name: nm(&[b"ns", b"zz"], &apex), rtype: T_A, ttl: 60, rdatas: vec![vec![192, 0, 2, 53]] });
        }
    }
    if rng.chance(2, 3) {
        // types outside window 0 (CAA, URI, TA, DLV, private use): several of one window at one name, several windows at one
        // name, so that a bitmap has blocks behind the first one that are extended and inserted into
        let cuts: Vec<Vec<u8>> = z.names().into_iter().filter(|n| z.is_cut(n)).collect();
        let hosts: Vec<Vec<u8>> = z.names().into_iter().filter(|n| !cuts.iter().any(|c| is_at_or_below(n, c)) && z.get(n, T_CNAME).is_none()).collect();
        for _ in 0..rng.range(1, 4) {
            let n = rng.pick(&hosts).clone();
            let pool: [u16; 18] = [256, 257, 258, 259, 300, 511, 512, 513, 767, 1000, 32768, 32769, 32770, 65280, 65281, 65300, 65400, 65534];
            let k = rng.range(1, 6);
            let mut ts: Vec<u16> = (0..k).map(|_| *rng.pick(&pool)).collect();
            if rng.bool() {
                // in the order the blocks will not be met in
                ts.sort_unstable_by(|a, b| b.cmp(a));
            }
            for t in ts {
                let rd = if t == 257 { let mut v = vec![0, 5]; v.extend_from_slice(b"issue"); v.extend_from_slice(b"ca.example"); v } else { vec![1, 2, 3, (t & 0xff) as u8] };
                z.insert(RRset { name: n.clone(), rtype: t, ttl: 300, rdatas: vec![rd] });
            }
        }
    }
    if rng.bool() {
        // an empty non-terminal shared by two branches
        for l in [&b"x"[..], b"y"] {
            let n = nm(&[l, b"ent", b"deep"], &apex);
            z.insert(RRset { name: n, rtype: T_TXT, ttl: 60, rdatas: vec![vec![1, b'e']] });
        }
    }
}

/// The accessors of a generated bitmap against its octets: `contains` for every type of every window the bitmap has,
/// of the window behind each and of window 0, and the iterator against the set bits.
fn probe_bitmap<O: AsRef<[u8]>>(bm: &domain::rdata::dnssec::RtypeBitmap<O>, octets: &[u8]) -> Result<u64, String> {
    let mut set: BTreeSet<u16> = BTreeSet::new();
    let mut windows: BTreeSet<u8> = BTreeSet::new();
    windows.insert(0);
    let mut p = 0;
    while p + 2 <= octets.len() {
        let (wn, l) = (octets[p], octets[p + 1] as usize);
        if l == 0 || l > 32 || p + 2 + l > octets.len() {
            return Err(format!("malformed bitmap {}", hex(octets)));
        }
        windows.insert(wn);
        windows.insert(wn.wrapping_add(1));
        for (i, b) in octets[p + 2..p + 2 + l].iter().enumerate() {
            for bit in 0..8 {
                if b & (0x80 >> bit) != 0 {
                    set.insert((wn as u16) << 8 | (i * 8 + bit) as u16);
                }
            }
        }
        p += 2 + l;
    }
    let mut n = 0;
    for wn in windows {
        for lo in 0..=255u16 {
            let t = (wn as u16) << 8 | lo;
            n += 1;
            if bm.contains(domain::base::iana::Rtype::from_int(t)) != set.contains(&t) {
                return Err(format!("contains(TYPE{}) is {} for the bitmap {}", t, !set.contains(&t), hex(octets)));
            }
        }
    }
    let it: Vec<u16> = bm.iter().map(|t| t.to_int()).collect();
    if it != set.iter().copied().collect::<Vec<_>>() {
        return Err(format!("iterating the bitmap {} gives {:?}", hex(octets), it));
    }
    Ok(n)
}

fn nsec_case(c: &mut Ctx, fam: &str, idx: u64, z: &ZoneC, assume_dnskey: bool) {
    let ex = || json!({"zone": z.records().iter().map(|(o, t, _, _)| format!("{} TYPE{}", w::name_text(o), t)).collect::<Vec<_>>(), "assume_dnskeys": assume_dnskey});
    let auth = authoritative(z);
    let recs = sorted_records(z);
    let cfg = if assume_dnskey { GenerateNsecConfig::new() } else { GenerateNsecConfig::new().without_assuming_dnskeys_will_be_added() };
    let apex = sname(&z.apex);
    let res = ctx::catch(|| generate_nsecs(&apex, recs.owner_rrs(), &cfg));
    let nsecs = match res {
        Ok(Ok(v)) => v,
        Ok(Err(e)) => {
            c.violation("nsec:generator-error", &format!("generate_nsecs failed on a well-formed zone: {:?}", e), c.replay_of(fam, idx, ex()));
            return;
        }
        Err(pi) => {
            c.violation(&format!("panic:{}", pi.site()), &format!("panic in generate_nsecs: {} at {}:{}", pi.msg, pi.file, pi.line), c.replay_of(fam, idx, ex()));
            return;
        }
    };
    if idx % 3 == 0 {
        let direct: BTreeSet<(Vec<u8>, u16, Vec<u8>)> = nsecs
            .iter()
            .map(|r| {
                let mut rd = Vec::new();
                r.data().compose_rdata(&mut rd).unwrap();
                (w::lower(r.owner().as_slice()), T_NSEC, rd)
            })
            .collect();
        routes_agree(c, fam, idx, z, domain::dnssec::sign::denial::config::DenialConfig::Nsec(cfg.clone()), &direct, "nsec");
    }
    // observed: (owner lower, next lower, bitmap octets, ttl)
    let obs: Vec<(Vec<u8>, Vec<u8>, Vec<u8>, u32)> = nsecs
        .iter()
        .map(|r| {
            let mut rd = Vec::new();
            r.data().compose_rdata(&mut rd).unwrap();
            let next = r.data().next_name().to_vec().as_slice().to_vec();
            let bm = rd[next.len()..].to_vec();
            (w::lower(r.owner().as_slice()), w::lower(&next), bm, r.ttl().as_secs())
        })
        .collect();
    for (r, o) in nsecs.iter().zip(obs.iter()) {
        match ctx::catch(|| probe_bitmap(r.data().types(), &o.2)) {
            Ok(Ok(n)) => c.count("bitmap_membership_probes", n),
            Ok(Err(e)) => {
                c.violation("nsec:bitmap-accessors", &format!("NSEC at {}: {}", w::name_text(&o.0), e), c.replay_of(fam, idx, ex()));
                return;
            }
            Err(pi) => {
                c.violation(&format!("panic:{}", pi.site()), &format!("panic probing a generated type bitmap: {} at {}:{}", pi.msg, pi.file, pi.line), c.replay_of(fam, idx, ex()));
                return;
            }
        }
    }
    // expected
    let mut owners: Vec<Vec<u8>> = auth.owners.keys().cloned().collect();
    owners.sort_by(|a, b| w::canonical_name_cmp(a, b));
    let ttl = soa_ttl(z);
    let mut exp = Vec::new();
    for (i, o) in owners.iter().enumerate() {
        let (_, _, types) = &auth.owners[o];
        let mut ts = types.clone();
        ts.push(T_NSEC);
        ts.push(T_RRSIG);
        if assume_dnskey && z.is_apex(o) {
            ts.push(T_DNSKEY);
        }
        let next = if i + 1 < owners.len() { owners[i + 1].clone() } else { w::lower(&z.apex) };
        exp.push((o.clone(), next, bitmap_of(&ts), ttl));
    }
    if obs != exp {
        // classify
        let oset: BTreeSet<&Vec<u8>> = obs.iter().map(|x| &x.0).collect();
        let eset: BTreeSet<&Vec<u8>> = exp.iter().map(|x| &x.0).collect();
        let (sig, what) = if oset != eset {
            let extra: Vec<String> = oset.difference(&eset).map(|n| w::name_text(n)).collect();
            let missing: Vec<String> = eset.difference(&oset).map(|n| w::name_text(n)).collect();
            ("nsec:owner-set", format!("NSEC owners differ from the authoritative names: extra {:?} missing {:?}", extra, missing))
        } else if obs.iter().map(|x| &x.0).collect::<Vec<_>>() != exp.iter().map(|x| &x.0).collect::<Vec<_>>() {
            ("nsec:order", "NSEC records are not in canonical order".to_string())
        } else if obs.iter().zip(&exp).any(|(a, b)| a.1 != b.1) {
            ("nsec:next-name", "an NSEC does not point to its successor / the last one not to the apex".to_string())
        } else if obs.iter().zip(&exp).any(|(a, b)| a.2 != b.2) {
            let (a, b) = obs.iter().zip(&exp).find(|(a, b)| a.2 != b.2).unwrap();
            ("nsec:type-bitmap", format!("type bitmap at {} is {} but the name has {}", w::name_text(&a.0), hex(&a.2), hex(&b.2)))
        } else {
            ("nsec:ttl", "NSEC TTL is not min(SOA TTL, SOA minimum)".to_string())
        };
        c.violation(sig, &what, c.replay_of(fam, idx, ex()));
        return;
    }
    c.count("nsec_chains_checked", 1);
    c.count("nsec_records", obs.len() as u64);
    // denial probes on the emitted records (independent of their order)
    let mut rng = c.case_rng("probe", idx);
    for _ in 0..6 {
        let q = w::lower(&gen_name(&mut rng, &z.apex));
        if auth.owners.contains_key(&q) || !is_at_or_below(&q, &z.apex) {
            continue;
        }
        let cuts: Vec<&Vec<u8>> = auth.owners.iter().filter(|(_, v)| v.0).map(|(k, _)| k).collect();
        if cuts.iter().any(|cn| is_at_or_below(&q, cn)) {
            continue;
        }
        let apex_l = w::lower(&z.apex);
        let covering = obs.iter().filter(|r| w::canonical_name_cmp(&r.0, &q) == std::cmp::Ordering::Less && (w::canonical_name_cmp(&q, &r.1) == std::cmp::Ordering::Less || r.1 == apex_l)).count();
        c.count("nsec_denial_probes", 1);
        if covering != 1 {
            c.violation("nsec:no-covering-record", &format!("absent name {} is covered by {} NSEC records", w::name_text(&q), covering), c.replay_of(fam, idx, ex()));
            return;
        }
    }
    let feats = (auth.owners.values().any(|v| v.0), auth.owners.len().min(8), assume_dnskey, z.names().len() != auth.owners.len());
    c.eval(&("nsec", feats));
}

fn nsec3_case(c: &mut Ctx, fam: &str, idx: u64, rng: &mut Rng, z: &ZoneC, log: &mut Option<std::fs::File>) {
    let salt: Vec<u8> = match rng.below(5) { 0 => vec![], 1 => rng.bytes(255), _ => rng.bytes(rng.clone().range(1, 16)) };
    let iterations: u16 = match rng.below(4) { 0 => 0, 1 => rng.range(1, 5) as u16, 2 => rng.range(5, 50) as u16, _ => 1 };
    let opt_out = rng.bool();
    let exclude = rng.chance(2, 3);
    let assume_dnskey = rng.bool();
    let ex = || json!({"zone": z.records().iter().map(|(o, t, _, _)| format!("{} TYPE{}", w::name_text(o), t)).collect::<Vec<_>>(), "salt": hex(&salt), "iterations": iterations, "opt_out": opt_out, "exclude_unsigned": exclude, "assume_dnskeys": assume_dnskey});
    let auth = authoritative(z);
    let recs = sorted_records(z);
    let params = Nsec3param::<Bytes>::new(Nsec3HashAlgorithm::SHA1, 0, iterations, Nsec3Salt::from_octets(Bytes::from(salt.clone())).unwrap());
    // the configuration is assembled from its setters in a seeded order, the TTL mode among them: what one setter
    // has set, a later one leaves alone
    use domain::dnssec::sign::denial::nsec3::Nsec3ParamTtlMode;
    let ttl_mode = match rng.below(4) { 0 => None, 1 => Some(Nsec3ParamTtlMode::Soa), 2 => Some(Nsec3ParamTtlMode::SoaMinimum), _ => Some(Nsec3ParamTtlMode::fixed(domain::base::Ttl::from_secs(777))) };
    let mut order: Vec<u8> = vec![0, 1, 2, 3];
    rng.shuffle(&mut order);
    if ttl_mode.is_some() && order.last() == Some(&3) {
        c.count("nsec3_config_ttl_mode_set_last", 1);
    }
    let mk_cfg = || {
        let mut cfg = GenerateNsec3Config::<Bytes, DefaultSorter>::new(params.clone());
        for step in &order {
            match step {
                0 => {
                    if opt_out {
                        cfg = cfg.with_opt_out();
                    }
                }
                1 => {
                    if !exclude {
                        cfg = cfg.without_opt_out_excluding_owner_names_of_unsigned_delegations();
                    }
                }
                2 => {
                    if !assume_dnskey {
                        cfg = cfg.without_assuming_dnskeys_will_be_added();
                    }
                }
                _ => {
                    if let Some(m) = ttl_mode {
                        cfg = cfg.with_ttl_mode(m);
                    }
                }
            }
        }
        cfg
    };
    let cfg = mk_cfg();
    let apex = sname(&z.apex);
    let res = ctx::catch(|| generate_nsec3s(&apex, recs.owner_rrs(), &cfg));
    let out = match res {
        Ok(Ok(v)) => v,
        Ok(Err(e)) => {
            c.violation("nsec3:generator-error", &format!("generate_nsec3s failed on a well-formed zone: {:?}", e), c.replay_of(fam, idx, ex()));
            return;
        }
        Err(pi) => {
            c.violation(&format!("panic:{}", pi.site()), &format!("panic in generate_nsec3s: {} at {}:{}", pi.msg, pi.file, pi.line), c.replay_of(fam, idx, ex()));
            return;
        }
    };
    if idx % 3 == 1 {
        let mut direct: BTreeSet<(Vec<u8>, u16, Vec<u8>)> = out
            .nsec3s
            .iter()
            .map(|r| {
                let mut rd = Vec::new();
                r.data().compose_rdata(&mut rd).unwrap();
                (w::lower(r.owner().as_slice()), 50u16, rd)
            })
            .collect();
        let mut rd = Vec::new();
        out.nsec3param.data().compose_rdata(&mut rd).unwrap();
        direct.insert((w::lower(out.nsec3param.owner().as_slice()), T_NSEC3PARAM, rd));
        routes_agree(c, fam, idx, z, domain::dnssec::sign::denial::config::DenialConfig::Nsec3(mk_cfg()), &direct, "nsec3");
    }
    // expected names
    let skip_unsigned = opt_out && exclude;
    let mut included: BTreeMap<Vec<u8>, Vec<u16>> = BTreeMap::new();
    for (o, (cut, has_ds, types)) in &auth.owners {
        if skip_unsigned && *cut && !*has_ds {
            continue;
        }
        let mut ts = types.clone();
        if !*cut || *has_ds {
            ts.push(T_RRSIG);
        }
        if z.is_apex(o) {
            ts.push(T_NSEC3PARAM);
            if assume_dnskey {
                ts.push(T_DNSKEY);
            }
        }
        included.insert(o.clone(), ts);
    }
    // empty non-terminals of the included names
    let mut ents: BTreeSet<Vec<u8>> = BTreeSet::new();
    for o in included.keys() {
        let mut cur = o.clone();
        while !z.is_apex(&cur) {
            cur = parent(&cur).unwrap();
            if !included.contains_key(&cur) {
                ents.insert(cur.clone());
            }
        }
    }
    let mut exp: Vec<([u8; 20], Vec<u8>, Vec<u8>)> = Vec::new(); // (hash, bitmap, name)
    for (o, ts) in &included {
        exp.push((nsec3_hash(o, &salt, iterations), bitmap_of(ts), o.clone()));
    }
    for e in &ents {
        exp.push((nsec3_hash(e, &salt, iterations), vec![], e.clone()));
    }
    exp.sort();
    // observed
    let mut obs: Vec<(Vec<u8>, Vec<u8>, Vec<u8>, u8, u16, Vec<u8>, u32)> = Vec::new(); // (owner hash, next hash, bitmap, flags, iter, salt, ttl)
    for r in &out.nsec3s {
        let owner = r.owner().as_slice().to_vec();
        let first = w::labels(&owner)[0].to_vec();
        let rest = owner[1 + first.len()..].to_vec();
        if w::lower(&rest) != w::lower(&z.apex) {
            c.violation("nsec3:owner-not-under-apex", &format!("NSEC3 owner {} is not <hash>.<apex>", w::name_text(&owner)), c.replay_of(fam, idx, ex()));
            return;
        }
        let text = String::from_utf8_lossy(&first).to_uppercase();
        let h = match b64::dec32hex(&text) {
            b64::Dec::Ok(h) | b64::Dec::Tolerated(h) => h,
            b64::Dec::Bad => {
                c.violation("nsec3:owner-label-not-base32hex", &format!("NSEC3 owner label {:?} is not Base32hex", text), c.replay_of(fam, idx, ex()));
                return;
            }
        };
        let d = r.data();
        let mut rd = Vec::new();
        d.compose_rdata(&mut rd).unwrap();
        // alg(1) flags(1) iter(2) saltlen+salt hashlen+hash bitmap
        let sl = rd[4] as usize;
        let hl = rd[5 + sl] as usize;
        let next = rd[6 + sl..6 + sl + hl].to_vec();
        let bm = rd[6 + sl + hl..].to_vec();
        if rd[0] != 1 {
            c.violation("nsec3:hash-algorithm", "NSEC3 hash algorithm is not SHA-1", c.replay_of(fam, idx, ex()));
            return;
        }
        match ctx::catch(|| probe_bitmap(d.types(), &bm)) {
            Ok(Ok(n)) => c.count("bitmap_membership_probes", n),
            Ok(Err(e)) => {
                c.violation("nsec3:bitmap-accessors", &format!("NSEC3 {}: {}", text, e), c.replay_of(fam, idx, ex()));
                return;
            }
            Err(pi) => {
                c.violation(&format!("panic:{}", pi.site()), &format!("panic probing a generated type bitmap: {} at {}:{}", pi.msg, pi.file, pi.line), c.replay_of(fam, idx, ex()));
                return;
            }
        }
        obs.push((h, next, bm, rd[1], u16::from_be_bytes([rd[2], rd[3]]), rd[5..5 + sl].to_vec(), r.ttl().as_secs()));
        if let Some(f) = log {
            if rng.chance(1, 6) {
                // name for this hash, if it is one of ours
                if let Some(e) = exp.iter().find(|e| e.0[..] == obs.last().unwrap().0[..]) {
                    let _ = writeln!(f, "{}", json!({"name": hex(&e.2), "salt": hex(&salt), "iterations": iterations, "hash": hex(&e.0)}));
                }
            }
        }
    }
    let ttl = soa_ttl(z);
    let want_flags = if opt_out { 1u8 } else { 0 };
    let oh: Vec<&Vec<u8>> = obs.iter().map(|x| &x.0).collect();
    let eh: Vec<Vec<u8>> = exp.iter().map(|x| x.0.to_vec()).collect();
    let verdict: Option<(&str, String)> = if oh.iter().map(|x| (*x).clone()).collect::<BTreeSet<_>>() != eh.iter().cloned().collect::<BTreeSet<_>>() {
        let os: BTreeSet<Vec<u8>> = oh.iter().map(|x| (*x).clone()).collect();
        let missing: Vec<String> = exp.iter().filter(|e| !os.contains(&e.0.to_vec())).map(|e| w::name_text(&e.2)).collect();
        let extra = os.iter().filter(|h| !eh.contains(h)).count();
        Some(("nsec3:owner-set", format!("NSEC3 owner hashes differ from IH(salt, name, iterations) of the authoritative names and empty non-terminals: missing {:?}, {} unexpected", missing, extra)))
    } else if oh.iter().map(|x| (*x).clone()).collect::<Vec<_>>() != eh {
        Some(("nsec3:order", "NSEC3 records are not sorted by hash".into()))
    } else if obs.iter().enumerate().any(|(i, o)| o.1 != eh[(i + 1) % eh.len()]) {
        Some(("nsec3:next-hash", "an NSEC3 next-hashed-owner is not the following hash / the chain is not closed".into()))
    } else if obs.iter().zip(&exp).any(|(o, e)| o.2 != e.1) {
        let (o, e) = obs.iter().zip(&exp).find(|(o, e)| o.2 != e.1).unwrap();
        Some(("nsec3:type-bitmap", format!("type bitmap for {} is {} but should be {}", w::name_text(&e.2), hex(&o.2), hex(&e.1))))
    } else if obs.iter().any(|o| o.3 != want_flags || o.4 != iterations || o.5 != salt) {
        Some(("nsec3:parameters", "flags / iterations / salt differ from the configuration".into()))
    } else if obs.iter().any(|o| o.6 != ttl) {
        Some(("nsec3:ttl", "NSEC3 TTL is not min(SOA TTL, SOA minimum)".into()))
    } else {
        None
    };
    if let Some((sig, what)) = verdict {
        c.violation(sig, &what, c.replay_of(fam, idx, ex()));
        return;
    }
    c.count("nsec3_chains_checked", 1);
    c.count("nsec3_records", obs.len() as u64);
    c.count("nsec3_ents", ents.len() as u64);
    if skip_unsigned && auth.owners.values().any(|v| v.0 && !v.1) {
        c.count("nsec3_opt_out_exclusions", 1);
    }
    c.eval(&("nsec3", opt_out, exclude, assume_dnskey, salt.len().min(3), iterations.min(6), ents.len().min(3), auth.owners.values().any(|v| v.0)));
}

pub fn run(c: &mut Ctx) {
    let mut log = std::fs::File::create(c.logdir.join(format!("nsec3_{}.jsonl", c.shard))).ok();
    let fam = "zones";
    let total = c.total(150_000, 3_000_000);
    for idx in c.cases(fam, total) {
        if c.out_of_time() {
            break;
        }
        let mut rng = c.case_rng(fam, idx);
        let mut z = gen_zone(&mut rng, 7);
        enrich(&mut rng, &mut z);
        let a = authoritative(&z);
        if a.owners.values().any(|v| v.0) {
            c.count("zones_with_cuts", 1);
        }
        if z.names().len() != a.owners.len() {
            c.count("zones_with_glue_or_occluded", 1);
        }
        if z.names().iter().any(|n| n.starts_with(&[1, b'*'])) {
            c.count("zones_with_wildcards", 1);
        }
        nsec_case(c, fam, idx, &z, rng.bool());
        nsec3_case(c, fam, idx, &mut rng, &z, &mut log);
        if c.want_sample() && idx % 23 == 5 {
            c.sample(json!({"zone": z.records().iter().take(8).map(|(o, t, _, _)| format!("{} TYPE{}", w::name_text(o), t)).collect::<Vec<_>>()}));
        }
    }
    if !c.replaying() {
        for k in ["sign_zone_routes_agree", "nsec_chains_checked", "nsec3_chains_checked", "zones_with_cuts", "zones_with_glue_or_occluded", "zones_with_wildcards", "nsec3_ents", "nsec3_opt_out_exclusions", "nsec_denial_probes"] {
            c.floor(k, 10);
        }
    }
}
