//! C14 — the validator says 'secure' only for data with a valid chain to a trust anchor.
//!
//! A signed hierarchy (root -> test -> zones) is built with the library's signer, served by a
//! mock upstream that answers the way a DNSSEC-aware recursive resolver does, and an adversary
//! layer damages either the answer under validation or the upstream's DS/DNSKEY answers.
use crate::ctx::{self, hex, Ctx};
use crate::refimpl::b64;
use crate::refimpl::wire as w;
use crate::rng::Rng;
use crate::zlib::*;
use bytes::Bytes;
use domain::base::iana::{Class, Rtype, SecurityAlgorithm};
use domain::base::message::Message;
use domain::base::name::ToName;
use domain::base::rdata::ComposeRecordData;
use domain::base::record::Record;
use domain::crypto::sign::{generate, GenerateParams, KeyPair, SecretKeyBytes, SignRaw};
use domain::dnssec::sign::denial::nsec::{generate_nsecs, GenerateNsecConfig};
use domain::dnssec::sign::denial::nsec3::{generate_nsec3s, GenerateNsec3Config};
use domain::dnssec::sign::keys::SigningKey;
use domain::dnssec::sign::records::{DefaultSorter, Rrset as SRrset, SortedRecords};
use domain::dnssec::sign::signatures::rrsigs::sign_rrset;
use domain::dnssec::validator::anchor::TrustAnchors;
use domain::dnssec::validator::context::{ValidationContext, ValidationState};
use domain::net::client::request::{ComposeRequest, Error as ClientError, GetResponse, RequestMessage, SendRequest};
use domain::rdata::dnssec::Timestamp;
use domain::rdata::nsec3::Nsec3Salt;
use domain::rdata::{Dnskey, Nsec3param};
use domain::zonetree::types::{StoredName, StoredRecordData};
use serde_json::json;
use std::collections::{BTreeMap, BTreeSet};
use std::future::Future;
use std::pin::Pin;
use std::sync::atomic::{AtomicU64, Ordering};
use std::sync::{Arc, Mutex};

const T_A: u16 = 1;
const T_NS: u16 = 2;
const T_CNAME: u16 = 5;
const T_SOA: u16 = 6;
const T_TXT: u16 = 16;
const T_AAAA: u16 = 28;
const T_DNAME: u16 = 39;
const T_DS: u16 = 43;
const T_RRSIG: u16 = 46;
const T_NSEC: u16 = 47;
const T_DNSKEY: u16 = 48;
const T_NSEC3: u16 = 50;
const T_NSEC3PARAM: u16 = 51;

/// A record on the wire: (owner, type, ttl, rdata)
type RR = (Vec<u8>, u16, u32, Vec<u8>);

#[derive(Clone, Debug)]
struct Set {
    name: Vec<u8>,
    rtype: u16,
    ttl: u32,
    rdatas: Vec<Vec<u8>>,
    /// RRSIG RDATA
    sigs: Vec<Vec<u8>>,
}

#[derive(Clone, Debug, PartialEq)]
enum Denial {
    Nsec,
    Nsec3 { salt: Vec<u8>, iterations: u16, opt_out: bool },
}

struct ZKey {
    secret: SecretKeyBytes,
    dnskey: Dnskey<Vec<u8>>,
}

struct SZone {
    apex: Vec<u8>,
    signed: bool,
    keys: Vec<ZKey>, // [ksk, zsk] or [csk]
    denial: Denial,
    sets: BTreeMap<(Vec<u8>, u16), Set>,
    /// names that exist for denial purposes (owners of authoritative data and cut names)
    owners: BTreeSet<Vec<u8>>,
    /// (hash, owner of the NSEC3 record)
    nsec3_index: Vec<(Vec<u8>, Vec<u8>)>,
}

fn nm(labels: &[&[u8]], apex: &[u8]) -> Vec<u8> {
    crate::zmodel::nm(labels, apex)
}

fn soa_rdata(apex: &[u8]) -> Vec<u8> {
    crate::zmodel::rd_soa(apex, 1)
}

fn is_below(name: &[u8], anc: &[u8]) -> bool {
    crate::zmodel::is_at_or_below(name, anc)
}

fn parent(name: &[u8]) -> Option<Vec<u8>> {
    crate::zmodel::parent(name)
}

impl SZone {
    fn get(&self, name: &[u8], t: u16) -> Option<&Set> {
        self.sets.get(&(w::lower(name), t))
    }
    fn types_at(&self, name: &[u8]) -> Vec<u16> {
        let n = w::lower(name);
        self.sets.range((n.clone(), 0)..=(n, u16::MAX)).map(|(k, _)| k.1).filter(|t| !matches!(*t, T_NSEC | T_NSEC3)).collect()
    }
    fn insert(&mut self, name: &[u8], t: u16, ttl: u32, rdatas: Vec<Vec<u8>>) {
        self.sets.insert((w::lower(name), t), Set { name: name.to_vec(), rtype: t, ttl, rdatas, sigs: vec![] });
    }
    fn is_cut(&self, name: &[u8]) -> bool {
        w::lower(name) != w::lower(&self.apex) && self.get(name, T_NS).is_some()
    }
    /// the delegation point at or above `name`, if any
    fn cut_above(&self, name: &[u8]) -> Option<Vec<u8>> {
        let mut cur = w::lower(name);
        let apex = w::lower(&self.apex);
        let mut found = None;
        while cur != apex && cur.len() > apex.len() {
            if self.is_cut(&cur) {
                found = Some(cur.clone());
            }
            cur = parent(&cur)?;
        }
        found
    }
    /// does the name exist (own data, or an empty non-terminal)?
    fn exists(&self, name: &[u8]) -> bool {
        let n = w::lower(name);
        self.owners.iter().any(|o| is_below(o, &n))
    }
    fn zsk(&self) -> &ZKey {
        self.keys.last().unwrap()
    }
}

fn compose<D: ComposeRecordData>(d: &D) -> Vec<u8> {
    let mut v = Vec::new();
    d.compose_rdata(&mut v).unwrap();
    v
}

fn sign_set(apex: &[u8], key: &ZKey, set: &Set, inc: u32, exp: u32) -> Option<Vec<u8>> {
    let kp = KeyPair::from_bytes(&key.secret, &key.dnskey).ok()?;
    let sk = SigningKey::new(sname(apex), key.dnskey.flags(), kp);
    let recs: Vec<Record<StoredName, StoredRecordData>> = set.rdatas.iter().filter_map(|rd| try_sdata(set.rtype, rd).map(|d| Record::new(sname(&set.name), Class::IN, domain::base::Ttl::from_secs(set.ttl), d))).collect();
    if recs.len() != set.rdatas.len() {
        // data ZoneRecordData will not take (hostile content): sign it as opaque data
        use domain::base::rdata::UnknownRecordData;
        let recs: Vec<Record<StoredName, UnknownRecordData<Bytes>>> = set.rdatas.iter().map(|rd| Record::new(sname(&set.name), Class::IN, domain::base::Ttl::from_secs(set.ttl), UnknownRecordData::from_octets(Rtype::from_int(set.rtype), Bytes::copy_from_slice(rd)).unwrap())).collect();
        let rrset = SRrset::new_from_owned(&recs).ok()?;
        let r = sign_rrset(&sk, &rrset, Timestamp::from(inc), Timestamp::from(exp)).ok()?;
        return Some(compose(r.data()));
    }
    let rrset = SRrset::new_from_owned(&recs).ok()?;
    let r = sign_rrset(&sk, &rrset, Timestamp::from(inc), Timestamp::from(exp)).ok()?;
    Some(compose(r.data()))
}

fn now_secs() -> u32 {
    std::time::SystemTime::now().duration_since(std::time::UNIX_EPOCH).unwrap().as_secs() as u32
}

/// Generate the denial chain and all signatures of a zone.
fn finish_zone(z: &mut SZone) -> Result<(), String> {
    z.owners.clear();
    let cuts: Vec<Vec<u8>> = z.sets.keys().map(|k| k.0.clone()).filter(|n| z.is_cut(n)).collect();
    for (n, t) in z.sets.keys() {
        if cuts.iter().any(|c| is_below(n, c) && n != c) {
            continue;
        }
        let _ = t;
        z.owners.insert(n.clone());
    }
    if !z.signed {
        return Ok(());
    }
    // DNSKEY RRset
    let keys: Vec<Vec<u8>> = z.keys.iter().map(|k| compose(&k.dnskey)).collect();
    let apex = z.apex.clone();
    z.insert(&apex, T_DNSKEY, 3600, keys);
    // denial
    let recs: Vec<Record<StoredName, StoredRecordData>> = z.sets.values().flat_map(|s| s.rdatas.iter().map(|rd| srecord(&s.name, s.rtype, s.ttl, rd)).collect::<Vec<_>>()).collect();
    let sorted = SortedRecords::<StoredName, StoredRecordData, DefaultSorter>::from(recs);
    let apex_n = sname(&apex);
    match z.denial.clone() {
        Denial::Nsec => {
            let cfg = GenerateNsecConfig::new().without_assuming_dnskeys_will_be_added();
            let nsecs = generate_nsecs(&apex_n, sorted.owner_rrs(), &cfg).map_err(|e| format!("nsec: {:?}", e))?;
            for r in nsecs {
                z.insert(r.owner().as_slice(), T_NSEC, r.ttl().as_secs(), vec![compose(r.data())]);
            }
        }
        Denial::Nsec3 { salt, iterations, opt_out } => {
            let params = Nsec3param::<Bytes>::new(domain::base::iana::Nsec3HashAlgorithm::SHA1, 0, iterations, Nsec3Salt::from_octets(Bytes::from(salt.clone())).unwrap());
            let mut cfg = GenerateNsec3Config::<Bytes, DefaultSorter>::new(params).without_assuming_dnskeys_will_be_added();
            if opt_out {
                cfg = cfg.with_opt_out();
            }
            let out = generate_nsec3s(&apex_n, sorted.owner_rrs(), &cfg).map_err(|e| format!("nsec3: {:?}", e))?;
            z.insert(&apex, T_NSEC3PARAM, out.nsec3param.ttl().as_secs(), vec![compose(out.nsec3param.data())]);
            for r in out.nsec3s {
                let owner = r.owner().as_slice().to_vec();
                let first = w::labels(&owner)[0].to_vec();
                let text = String::from_utf8_lossy(&first).to_uppercase();
                let h = match b64::dec32hex(&text) {
                    b64::Dec::Ok(h) | b64::Dec::Tolerated(h) => h,
                    b64::Dec::Bad => return Err("nsec3 owner".into()),
                };
                z.nsec3_index.push((h, w::lower(&owner)));
                z.insert(&owner, T_NSEC3, r.ttl().as_secs(), vec![compose(r.data())]);
            }
            z.nsec3_index.sort();
            // Opt-Out is a flag of the single NSEC3 record (RFC 5155 3.1.2.1): in half of the opt-out zones only some
            // records keep it - every record whose span holds the hash of an unsigned delegation, and about half of the rest
            let mixed = opt_out && salt.first().map(|b| b & 1 == 1).unwrap_or(false);
            if mixed {
                let hidden: Vec<Vec<u8>> = cuts.iter().filter(|cn| z.get(cn, T_DS).is_none()).map(|cn| crate::p13::nsec3_hash(&w::lower(cn), &salt, iterations).to_vec()).collect();
                let idx = z.nsec3_index.clone();
                for (i, (h, owner)) in idx.iter().enumerate() {
                    let next = &idx[(i + 1) % idx.len()].0;
                    let in_span = |x: &Vec<u8>| if h < next { x > h && x < next } else { x > h || x < next };
                    if hidden.iter().any(|x| in_span(x)) || h[0] % 2 == 1 {
                        continue;
                    }
                    if let Some(set) = z.sets.get_mut(&(owner.clone(), T_NSEC3)) {
                        set.rdatas[0][1] &= 0xFE;
                    }
                }
            }
        }
    }
    // signatures
    let now = now_secs();
    let (inc, exp) = (now.wrapping_sub(3600), now.wrapping_add(7 * 86400));
    let keys: Vec<(Vec<u8>, u16)> = z.sets.keys().cloned().collect();
    for k in keys {
        let set = z.sets.get(&k).unwrap().clone();
        let at_cut = z.is_cut(&k.0);
        let below_cut = cuts.iter().any(|c| is_below(&k.0, c) && &k.0 != c);
        if below_cut || (at_cut && !matches!(k.1, T_DS | T_NSEC)) {
            continue;
        }
        let mut sigs = Vec::new();
        if k.1 == T_DNSKEY {
            for key in &z.keys {
                sigs.push(sign_set(&apex, key, &set, inc, exp).ok_or("sign")?);
            }
        } else {
            sigs.push(sign_set(&apex, z.zsk(), &set, inc, exp).ok_or("sign")?);
        }
        z.sets.get_mut(&k).unwrap().sigs = sigs;
    }
    Ok(())
}

struct World {
    zones: Vec<SZone>, // root, test, then leaves
    anchor_text: String,
}

fn gen_keys(rng: &mut Rng, alg: &GenerateParams) -> Vec<ZKey> {
    let split = rng.bool();
    let mut v = Vec::new();
    if split {
        let (s, d) = generate(alg, 257).unwrap();
        v.push(ZKey { secret: s, dnskey: d });
        let (s, d) = generate(alg, 256).unwrap();
        v.push(ZKey { secret: s, dnskey: d });
    } else {
        let (s, d) = generate(alg, 257).unwrap();
        v.push(ZKey { secret: s, dnskey: d });
    }
    v
}

/// One of the repository's RSA test keys (ring cannot generate RSA keys) as a combined signing key.
fn rsa_keys(rng: &mut Rng) -> Option<Vec<ZKey>> {
    let stem = *rng.pick(&["Ktest.+008+60616", "Ktest.+010+46731"]);
    let base = format!("/repo/test-data/dnssec-keys/{}", stem);
    let pubt = std::fs::read_to_string(format!("{}.key", base)).ok()?;
    let privt = std::fs::read_to_string(format!("{}.private", base)).ok()?;
    let rec = domain::dnssec::common::parse_from_bind::<Vec<u8>>(&pubt).ok()?;
    let secret = SecretKeyBytes::parse_from_bind(&privt).ok()?;
    Some(vec![ZKey { secret, dnskey: rec.data().clone() }])
}

/// A copy of a key (the secret has no Clone: through its BIND text form).
fn clone_key(k: &ZKey) -> ZKey {
    let text = format!("{}", k.secret.display_as_bind());
    ZKey { secret: SecretKeyBytes::parse_from_bind(&text).expect("a key's own BIND form parses"), dnskey: k.dnskey.clone() }
}

/// A copy of a zone that has not been signed yet.
fn clone_zone(z: &SZone) -> SZone {
    SZone { apex: z.apex.clone(), signed: z.signed, keys: z.keys.iter().map(clone_key).collect(), denial: z.denial.clone(), sets: z.sets.clone(), owners: z.owners.clone(), nsec3_index: z.nsec3_index.clone() }
}

fn gen_denial(rng: &mut Rng) -> Denial {
    match rng.below(3) {
        0 => Denial::Nsec,
        1 => Denial::Nsec3 { salt: rng.bytes(rng.clone().below(9)), iterations: rng.below(4) as u16, opt_out: false },
        _ => Denial::Nsec3 { salt: rng.bytes(4), iterations: 1, opt_out: true },
    }
}

fn ds_rdata(owner: &[u8], key: &Dnskey<Vec<u8>>) -> Vec<u8> {
    let rd = compose(key);
    let mut pre = w::lower(owner);
    pre.extend_from_slice(&rd);
    let dg = ring::digest::digest(&ring::digest::SHA256, &pre);
    let mut v = key.key_tag().to_be_bytes().to_vec();
    v.push(key.algorithm().to_int());
    v.push(2);
    v.extend_from_slice(dg.as_ref());
    v
}

fn a_rd(rng: &mut Rng) -> Vec<u8> {
    vec![192, 0, 2, rng.u8()]
}

fn txt_rd(s: &str) -> Vec<u8> {
    let mut v = vec![s.len() as u8];
    v.extend_from_slice(s.as_bytes());
    v
}

fn base_zone(apex: &[u8], signed: bool, keys: Vec<ZKey>, denial: Denial) -> SZone {
    let mut z = SZone { apex: apex.to_vec(), signed, keys, denial, sets: BTreeMap::new(), owners: BTreeSet::new(), nsec3_index: vec![] };
    z.insert(apex, T_SOA, 3600, vec![soa_rdata(apex)]);
    z.insert(apex, T_NS, 3600, vec![nm(&[b"ns"], apex)]);
    let nsn = nm(&[b"ns"], apex);
    z.insert(&nsn, T_A, 3600, vec![vec![192, 0, 2, 53]]);
    z
}

/// Leaf zone content: plain data, a wildcard, CNAMEs inside and out of the zone, an empty non-terminal.
fn fill_leaf(rng: &mut Rng, z: &mut SZone, other_zone_target: &[u8]) {
    let apex = z.apex.clone();
    let a1 = a_rd(rng);
    let mut a2 = a_rd(rng);
    if a2 == a1 {
        a2[3] ^= 0x80; // an RRset holds no duplicates
    }
    z.insert(&nm(&[b"www"], &apex), T_A, 300, vec![a1, a2]);
    z.insert(&nm(&[b"www"], &apex), T_TXT, 300, vec![txt_rd("hello")]);
    z.insert(&nm(&[b"*", b"w"], &apex), T_A, 120, vec![a_rd(rng)]);
    // an existing name next to the wildcard: names below it are not the wildcard's to answer
    z.insert(&nm(&[b"host", b"w"], &apex), T_A, 120, vec![a_rd(rng)]);
    z.insert(&nm(&[b"alias"], &apex), T_CNAME, 60, vec![nm(&[b"www"], &apex)]);
    z.insert(&nm(&[b"walias"], &apex), T_CNAME, 60, vec![nm(&[b"x", b"w"], &apex)]);
    z.insert(&nm(&[b"out"], &apex), T_CNAME, 60, vec![other_zone_target.to_vec()]);
    // a wildcard that holds a CNAME: the CNAME itself is synthesised
    z.insert(&nm(&[b"*", b"wc"], &apex), T_CNAME, 90, vec![nm(&[b"www"], &apex)]);
    z.insert(&nm(&[b"deep", b"ent"], &apex), T_AAAA, 300, vec![vec![0x20, 1, 0xd, 0xb8, 0, 0, 0, 0, 0, 0, 0, 0, 0, 0, 0, rng.u8()]]);
    if rng.bool() {
        z.insert(&nm(&[b"mail"], &apex), T_TXT, 900, vec![txt_rd("v=spf1 -all")]);
    }
    // a DNAME into the other zone, and a CNAME that leads to it
    let other_apex = parent(other_zone_target).unwrap();
    z.insert(&nm(&[b"dn"], &apex), T_DNAME, 600, vec![other_apex]);
    z.insert(&nm(&[b"viadname"], &apex), T_CNAME, 60, vec![{
        let mut t = vec![3, b'w', b'w', b'w', 2, b'd', b'n'];
        t.extend_from_slice(&w::lower(&other_zone_target[4..]));
        t
    }]);
    // an unsigned delegation inside the leaf (matters for opt-out)
    z.insert(&nm(&[b"unsigned-child"], &apex), T_NS, 3600, vec![nm(&[b"ns", b"elsewhere"], b"\x04test\x00")]);
}

struct WorldSpec {
    leaf_algs: Vec<&'static str>,
}

fn alg_params(name: &str) -> GenerateParams {
    match name {
        "p256" => GenerateParams::EcdsaP256Sha256,
        "p384" => GenerateParams::EcdsaP384Sha384,
        _ => GenerateParams::Ed25519,
    }
}

fn build_world(rng: &mut Rng) -> Result<(World, WorldSpec), String> {
    let (zones, odd_alg) = build_zones(rng, 3600);
    finish_world(zones, odd_alg)
}

/// The zones of a world before signing. `sec_ds_ttl` is the TTL of the DS RRset of `secure.test.`.
fn build_zones(rng: &mut Rng, sec_ds_ttl: u32) -> (Vec<SZone>, &'static str) {
    let root_keys = gen_keys(rng, &GenerateParams::EcdsaP256Sha256);
    let tld_keys = gen_keys(rng, &GenerateParams::EcdsaP256Sha256);
    let mut root = base_zone(b"\x00", true, root_keys, gen_denial(rng));
    let tld_apex = b"\x04test\x00".to_vec();
    let mut tld = base_zone(&tld_apex, true, tld_keys, gen_denial(rng));
    // leaves: secure (p256), insecure (no DS), unsupported algorithm (validator treats the delegation as insecure)
    let sec_apex = nm(&[b"secure"], &tld_apex);
    let ins_apex = nm(&[b"insecure"], &tld_apex);
    let odd_apex = nm(&[b"odd"], &tld_apex);
    let odd_alg = *rng.pick(&["ed25519", "p384"]);
    let mut sec = base_zone(&sec_apex, true, gen_keys(rng, &GenerateParams::EcdsaP256Sha256), gen_denial(rng));
    let mut ins = base_zone(&ins_apex, false, vec![], Denial::Nsec);
    let mut odd = base_zone(&odd_apex, true, gen_keys(rng, &alg_params(odd_alg)), gen_denial(rng));
    fill_leaf(rng, &mut sec, &nm(&[b"www"], &ins_apex));
    fill_leaf(rng, &mut ins, &nm(&[b"www"], &sec_apex));
    fill_leaf(rng, &mut odd, &nm(&[b"www"], &sec_apex));
    // a second secure zone to chase CNAMEs into
    let sec2_apex = nm(&[b"secure2"], &tld_apex);
    let sec2_keys = if rng.chance(1, 3) { rsa_keys(rng) } else { None }.unwrap_or_else(|| gen_keys(rng, &GenerateParams::EcdsaP256Sha256));
    let mut sec2 = base_zone(&sec2_apex, true, sec2_keys, gen_denial(rng));
    fill_leaf(rng, &mut sec2, &nm(&[b"www"], &sec_apex));
    sec.insert(&nm(&[b"out2"], &sec_apex), T_CNAME, 60, vec![nm(&[b"www"], &sec2_apex)]);
    // an unsigned CNAME whose target is reached through a signed DNAME and ends in signed data
    ins.insert(&nm(&[b"viadname2"], &ins_apex), T_CNAME, 60, vec![nm(&[b"www", b"dn"], &sec2_apex)]);
    odd.insert(&nm(&[b"viadname2"], &odd_apex), T_CNAME, 60, vec![nm(&[b"www", b"dn"], &sec2_apex)]);
    // delegations
    for (child, zone_keys) in [(&sec_apex, Some(&sec.keys[0].dnskey)), (&ins_apex, None), (&odd_apex, Some(&odd.keys[0].dnskey)), (&sec2_apex, Some(&sec2.keys[0].dnskey))] {
        tld.insert(child, T_NS, 3600, vec![nm(&[b"ns"], child)]);
        tld.insert(&nm(&[b"ns"], child), T_A, 3600, vec![vec![192, 0, 2, 54]]);
        if let Some(k) = zone_keys {
            tld.insert(child, T_DS, if *child == sec_apex { sec_ds_ttl } else { 3600 }, vec![ds_rdata(child, k)]);
        }
    }
    // a zone that is an alias as a whole: a DNAME at its apex (NSEC, so that the apex NSEC lists SOA and DNAME together)
    let alias_apex = nm(&[b"aliaszone"], &tld_apex);
    let mut alias = base_zone(&alias_apex, true, gen_keys(rng, &GenerateParams::EcdsaP256Sha256), Denial::Nsec);
    alias.insert(&alias_apex, T_DNAME, 600, vec![sec2_apex.clone()]);
    tld.insert(&alias_apex, T_NS, 3600, vec![nm(&[b"ns"], &alias_apex)]);
    tld.insert(&nm(&[b"ns"], &alias_apex), T_A, 3600, vec![vec![192, 0, 2, 56]]);
    tld.insert(&alias_apex, T_DS, 3600, vec![ds_rdata(&alias_apex, &alias.keys[0].dnskey)]);
    tld.insert(&nm(&[b"plain"], &tld_apex), T_TXT, 300, vec![txt_rd("tld data")]);
    tld.insert(&nm(&[b"zzz"], &tld_apex), T_TXT, 300, vec![txt_rd("sorts last")]);
    root.insert(&tld_apex, T_NS, 3600, vec![nm(&[b"ns"], &tld_apex)]);
    root.insert(&tld_apex, T_DS, 3600, vec![ds_rdata(&tld_apex, &tld.keys[0].dnskey)]);
    root.insert(&nm(&[b"ns"], &tld_apex), T_A, 3600, vec![vec![192, 0, 2, 55]]);
    (vec![root, tld, sec, ins, odd, sec2, alias], odd_alg)
}

fn finish_world(mut zones: Vec<SZone>, odd_alg: &'static str) -> Result<(World, WorldSpec), String> {
    for z in zones.iter_mut() {
        finish_zone(z)?;
    }
    let rk = &zones[0].keys[0].dnskey;
    let anchor_text = format!(". 3600 IN DNSKEY {} 3 {} {}\n", rk.flags(), rk.algorithm().to_int(), b64::enc64(rk.public_key()));
    let sec2_alg = if zones[5].keys[0].dnskey.algorithm().to_int() == 13 { "p256" } else { "rsa" };
    Ok((World { zones, anchor_text }, WorldSpec { leaf_algs: vec!["p256", "none", odd_alg, sec2_alg] }))
}

// ----------------------------------------------------------- responder ----

#[derive(Clone, Debug, Default)]
struct Resp {
    rcode: u8,
    answer: Vec<RR>,
    authority: Vec<RR>,
    /// what kind of answer this is (for coverage and fault selection)
    kind: &'static str,
    /// some link of the answer was synthesised from a wildcard (so a proof that the name itself does not exist is part of it)
    wild: bool,
}

fn push_set(out: &mut Vec<RR>, s: &Set, owner_override: Option<&[u8]>) {
    let owner = owner_override.unwrap_or(&s.name).to_vec();
    for rd in &s.rdatas {
        out.push((owner.clone(), s.rtype, s.ttl, rd.clone()));
    }
    for sig in &s.sigs {
        out.push((owner.clone(), T_RRSIG, s.ttl, sig.clone()));
    }
}

impl World {
    /// zone responsible for (qname, qtype)
    fn zone_for(&self, qname: &[u8], qtype: u16) -> &SZone {
        let q = w::lower(qname);
        let mut best: Option<&SZone> = None;
        for z in &self.zones {
            let a = w::lower(&z.apex);
            if !is_below(&q, &a) {
                continue;
            }
            if qtype == T_DS && q == a && a.len() > 1 {
                continue; // the parent answers for DS
            }
            if best.map(|b| b.apex.len() < z.apex.len()).unwrap_or(true) {
                best = Some(z);
            }
        }
        best.unwrap_or(&self.zones[0])
    }

    fn nsec3_hash(z: &SZone, name: &[u8]) -> Vec<u8> {
        match &z.denial {
            Denial::Nsec3 { salt, iterations, .. } => crate::p13::nsec3_hash(&w::lower(name), salt, *iterations).to_vec(),
            _ => vec![],
        }
    }
    fn nsec3_match<'a>(z: &'a SZone, name: &[u8]) -> Option<&'a Set> {
        let h = Self::nsec3_hash(z, name);
        let (_, owner) = z.nsec3_index.iter().find(|(hh, _)| *hh == h)?;
        z.get(owner, T_NSEC3)
    }
    fn nsec3_cover<'a>(z: &'a SZone, name: &[u8]) -> Option<&'a Set> {
        let h = Self::nsec3_hash(z, name);
        if z.nsec3_index.iter().any(|(hh, _)| *hh == h) {
            return None;
        }
        let idx = match z.nsec3_index.iter().rposition(|(hh, _)| *hh < h) {
            Some(i) => i,
            None => z.nsec3_index.len().checked_sub(1)?,
        };
        z.get(&z.nsec3_index[idx].1, T_NSEC3)
    }
    fn nsec_owners(z: &SZone) -> Vec<Vec<u8>> {
        let mut v: Vec<Vec<u8>> = z.sets.keys().filter(|k| k.1 == T_NSEC).map(|k| k.0.clone()).collect();
        v.sort_by(|a, b| w::canonical_name_cmp(a, b));
        v
    }
    fn nsec_cover<'a>(z: &'a SZone, name: &[u8]) -> Option<&'a Set> {
        let n = w::lower(name);
        let owners = Self::nsec_owners(z);
        let idx = owners.iter().rposition(|o| w::canonical_name_cmp(o, &n) == std::cmp::Ordering::Less)?;
        z.get(&owners[idx], T_NSEC)
    }

    fn add_unique(out: &mut Vec<RR>, s: &Set) {
        if !out.iter().any(|r| w::lower(&r.0) == w::lower(&s.name) && r.1 == s.rtype) {
            push_set(out, s, None);
        }
    }

    /// closest existing ancestor of a name that does not exist
    fn closest_encloser(z: &SZone, qname: &[u8]) -> (Vec<u8>, Vec<u8>) {
        let mut next = w::lower(qname);
        let mut cur = parent(&next).unwrap_or_else(|| vec![0]);
        while !z.exists(&cur) && cur.len() > z.apex.len() {
            next = cur.clone();
            cur = parent(&cur).unwrap();
        }
        (cur, next)
    }

    fn negative(&self, z: &SZone, qname: &[u8], out: &mut Resp, name_exists: bool, wildcard_nodata: Option<&[u8]>) {
        if let Some(soa) = z.get(&z.apex, T_SOA) {
            push_set(&mut out.authority, soa, None);
        }
        if !z.signed {
            return;
        }
        match &z.denial {
            Denial::Nsec => {
                if name_exists {
                    if let Some(s) = z.get(qname, T_NSEC) {
                        Self::add_unique(&mut out.authority, s);
                    } else if let Some(s) = Self::nsec_cover(z, qname) {
                        // empty non-terminal
                        Self::add_unique(&mut out.authority, s);
                    }
                } else {
                    if let Some(s) = Self::nsec_cover(z, qname) {
                        Self::add_unique(&mut out.authority, s);
                    }
                    let (ce, _) = Self::closest_encloser(z, qname);
                    let mut star = vec![1, b'*'];
                    star.extend_from_slice(&ce);
                    match wildcard_nodata {
                        Some(wc) => {
                            if let Some(s) = z.get(wc, T_NSEC) {
                                Self::add_unique(&mut out.authority, s);
                            }
                        }
                        None => {
                            if let Some(s) = Self::nsec_cover(z, &star) {
                                Self::add_unique(&mut out.authority, s);
                            }
                        }
                    }
                }
            }
            Denial::Nsec3 { .. } => {
                if name_exists {
                    if let Some(s) = Self::nsec3_match(z, qname) {
                        Self::add_unique(&mut out.authority, s);
                    } else {
                        // opted-out delegation: closest provable encloser + cover of the next closer name
                        let (ce, next) = Self::closest_provable(z, qname);
                        if let Some(s) = Self::nsec3_match(z, &ce) {
                            Self::add_unique(&mut out.authority, s);
                        }
                        if let Some(s) = Self::nsec3_cover(z, &next) {
                            Self::add_unique(&mut out.authority, s);
                        }
                    }
                } else {
                    let (ce, next) = Self::closest_encloser(z, qname);
                    if let Some(s) = Self::nsec3_match(z, &ce) {
                        Self::add_unique(&mut out.authority, s);
                    }
                    if let Some(s) = Self::nsec3_cover(z, &next) {
                        Self::add_unique(&mut out.authority, s);
                    }
                    let mut star = vec![1, b'*'];
                    star.extend_from_slice(&ce);
                    let s = if wildcard_nodata.is_some() { Self::nsec3_match(z, &star) } else { Self::nsec3_cover(z, &star) };
                    if let Some(s) = s {
                        Self::add_unique(&mut out.authority, s);
                    }
                }
            }
        }
    }

    /// for a name without NSEC3 record of its own: the closest ancestor that has one, and the name one label longer
    fn closest_provable(z: &SZone, qname: &[u8]) -> (Vec<u8>, Vec<u8>) {
        let mut next = w::lower(qname);
        let mut cur = parent(&next).unwrap_or_else(|| vec![0]);
        while Self::nsec3_match(z, &cur).is_none() && cur.len() > z.apex.len() {
            next = cur.clone();
            cur = parent(&cur).unwrap();
        }
        (cur, next)
    }

    /// What a validating-resolver-facing upstream returns (DO set, CD set).
    fn respond(&self, qname: &[u8], qtype: u16) -> Resp {
        let mut out = Resp::default();
        let mut sname_ = qname.to_vec();
        for _hop in 0..6 {
            let z = self.zone_for(&sname_, qtype);
            // names at or below a delegation of this zone belong to a child this world does not serve
            if let Some(cut) = z.cut_above(&sname_) {
                if !(qtype == T_DS && w::lower(&sname_) == cut) {
                    out.rcode = 2;
                    out.kind = "servfail";
                    return out;
                }
            }
            if z.exists(&sname_) {
                let types = z.types_at(&sname_);
                if types.contains(&T_CNAME) && qtype != T_CNAME {
                    let s = z.get(&sname_, T_CNAME).unwrap();
                    push_set(&mut out.answer, s, None);
                    sname_ = s.rdatas[0].clone();
                    out.kind = "cname";
                    continue;
                }
                if let Some(s) = z.get(&sname_, qtype) {
                    push_set(&mut out.answer, s, None);
                    if out.kind.is_empty() {
                        out.kind = "positive";
                    }
                    return out;
                }
                self.negative(z, &sname_, &mut out, true, None);
                out.kind = if out.kind == "cname" { "cname-nodata" } else if types.is_empty() { "nodata-ent" } else { "nodata" };
                return out;
            }
            // a DNAME above the name?
            {
                let mut anc = parent(&w::lower(&sname_));
                let mut found: Option<Vec<u8>> = None;
                while let Some(a) = anc {
                    if !is_below(&a, &z.apex) {
                        break;
                    }
                    if z.get(&a, T_DNAME).is_some() {
                        found = Some(a.clone());
                        break;
                    }
                    anc = parent(&a);
                }
                if let Some(downer) = found {
                    let s = z.get(&downer, T_DNAME).unwrap();
                    push_set(&mut out.answer, s, None);
                    let lq = w::lower(&sname_);
                    let mut newname = lq[..lq.len() - downer.len()].to_vec();
                    newname.extend_from_slice(&s.rdatas[0]);
                    if newname.len() > 255 {
                        out.rcode = 6;
                        out.kind = "servfail";
                        return out;
                    }
                    // the synthesized CNAME is not signed
                    out.answer.push((sname_.clone(), T_CNAME, s.ttl, newname.clone()));
                    sname_ = newname;
                    out.kind = "cname";
                    continue;
                }
            }
            // wildcard?
            let (ce, _next) = Self::closest_encloser(z, &sname_);
            let mut star = vec![1, b'*'];
            star.extend_from_slice(&ce);
            if z.exists(&star) && !z.types_at(&star).is_empty() {
                let st = z.types_at(&star);
                let pick = if st.contains(&T_CNAME) && qtype != T_CNAME { Some(T_CNAME) } else if st.contains(&qtype) { Some(qtype) } else { None };
                match pick {
                    Some(t) => {
                        let s = z.get(&star, t).unwrap();
                        push_set(&mut out.answer, s, Some(&sname_));
                        out.wild = true;
                        // proof that the name itself does not exist
                        if z.signed {
                            match &z.denial {
                                Denial::Nsec => {
                                    if let Some(n) = Self::nsec_cover(z, &sname_) {
                                        Self::add_unique(&mut out.authority, n);
                                    }
                                }
                                Denial::Nsec3 { .. } => {
                                    let (_, next) = Self::closest_encloser(z, &sname_);
                                    if let Some(n) = Self::nsec3_cover(z, &next) {
                                        Self::add_unique(&mut out.authority, n);
                                    }
                                }
                            }
                        }
                        if t == T_CNAME {
                            sname_ = s.rdatas[0].clone();
                            out.kind = "cname";
                            continue;
                        }
                        out.kind = if out.kind == "cname" { "cname-wildcard" } else { "wildcard" };
                        return out;
                    }
                    None => {
                        self.negative(z, &sname_, &mut out, false, Some(&star));
                        out.kind = "nodata-wildcard";
                        return out;
                    }
                }
            }
            out.rcode = 3;
            self.negative(z, &sname_, &mut out, false, None);
            out.kind = if out.kind == "cname" { "cname-nxdomain" } else { "nxdomain" };
            return out;
        }
        out.rcode = 2;
        out.kind = "servfail";
        out
    }
}

fn to_wire(id: u16, qname: &[u8], qtype: u16, r: &Resp) -> Vec<u8> {
    let mut m = w::header(id, 0x8190 | r.rcode as u16, [1, r.answer.len() as u16, r.authority.len() as u16, 0]);
    m.extend_from_slice(qname);
    m.extend_from_slice(&qtype.to_be_bytes());
    m.extend_from_slice(&1u16.to_be_bytes());
    for (o, t, ttl, rd) in r.answer.iter().chain(r.authority.iter()) {
        m.extend(w::compose_record(o, *t, 1, *ttl, rd));
    }
    m
}

// ------------------------------------------------------------- upstream ----

/// How the upstream misbehaves when asked for DS / DNSKEY.
#[derive(Clone, Debug, PartialEq)]
enum UpFault {
    None,
    /// for queries (name, type): apply this damage
    On { name: Vec<u8>, rtype: u16, what: &'static str },
}

struct Upstream {
    world: Arc<World>,
    fault: UpFault,
    requests: Arc<AtomicU64>,
    rng: Mutex<Rng>,
}

#[derive(Debug)]
struct Pending(Option<Result<Message<Bytes>, ClientError>>);

impl GetResponse for Pending {
    fn get_response(&mut self) -> Pin<Box<dyn Future<Output = Result<Message<Bytes>, ClientError>> + Send + Sync + '_>> {
        let r = self.0.take().unwrap_or(Err(ClientError::ConnectionClosed));
        Box::pin(std::future::ready(r))
    }
}

/// Replace the signature over (owner, rtype) in a response by one made now with the signing zone's key.
fn resign(world: &World, r: &mut Resp, owner: &[u8], rtype: u16, signed_as: Option<&[u8]>, signer_hint: Option<&[u8]>, inc: u32, exp: u32) -> bool {
    let owner = owner.to_vec();
    let recs: Vec<RR> = r.answer.iter().chain(r.authority.iter()).filter(|x| x.1 == rtype && x.0 == owner).cloned().collect();
    if recs.is_empty() {
        return false;
    }
    let covers = |x: &RR| x.1 == T_RRSIG && x.0 == owner && u16::from_be_bytes([x.3[0], x.3[1]]) == rtype;
    let sigrec = r.answer.iter().chain(r.authority.iter()).find(|x| covers(x)).cloned();
    let (signer, ttl, in_ans) = match (&sigrec, signer_hint) {
        (Some(sr), _) => {
            let mut p = 18;
            while sr.3[p] != 0 {
                p += 1 + sr.3[p] as usize;
            }
            (sr.3[18..p + 1].to_vec(), u32::from_be_bytes([sr.3[4], sr.3[5], sr.3[6], sr.3[7]]), r.answer.iter().any(|x| covers(x)))
        }
        (None, Some(h)) => (h.to_vec(), recs[0].2, r.answer.iter().any(|x| x.1 == rtype && x.0 == owner)),
        _ => return false,
    };
    let Some(z) = world.zones.iter().find(|z| w::lower(&z.apex) == w::lower(&signer)) else { return false };
    if !z.signed {
        return false;
    }
    // for an expanded wildcard the signed owner is the wildcard name
    let signed_owner = match (signed_as, &sigrec) {
        (Some(n), _) => n.to_vec(),
        (None, Some(sr)) => {
            let labels = sr.3[3];
            let owner_labels = w::labels(&owner).len() as u8;
            if labels < owner_labels {
                let ls = w::labels(&owner);
                let keep = &ls[(owner_labels - labels) as usize..];
                let mut n = vec![1, b'*'];
                for l in keep {
                    n.push(l.len() as u8);
                    n.extend_from_slice(l);
                }
                n.push(0);
                n
            } else {
                owner.clone()
            }
        }
        _ => owner.clone(),
    };
    let set = Set { name: signed_owner, rtype, ttl, rdatas: recs.iter().map(|x| x.3.clone()).collect(), sigs: vec![] };
    let key = if rtype == T_DNSKEY { &z.keys[0] } else { z.zsk() };
    let Some(newsig) = sign_set(&z.apex, key, &set, inc, exp) else { return false };
    r.answer.retain(|x| !covers(x));
    r.authority.retain(|x| !covers(x));
    let rec = (owner.clone(), T_RRSIG, ttl, newsig);
    if in_ans {
        r.answer.push(rec);
    } else {
        r.authority.push(rec);
    }
    true
}

/// Content a hostile but properly signing zone operator could publish. Returns false if it does not apply.
fn hostile(rng: &mut Rng, r: &mut Resp, what: &str, world: &World) -> bool {
    let now = now_secs();
    let (inc, exp) = (now - 3600, now + 86400);
    let pick_denial = |r: &Resp, t: u16, rng: &mut Rng| -> Option<usize> {
        let c: Vec<usize> = r.authority.iter().enumerate().filter(|(_, x)| x.1 == t).map(|(i, _)| i).collect();
        if c.is_empty() {
            None
        } else {
            Some(*rng.pick(&c))
        }
    };
    // the zone that signed the denial records
    let signer_of = |r: &Resp, owner: &[u8], t: u16| -> Option<Vec<u8>> {
        let sr = r.authority.iter().find(|x| x.1 == T_RRSIG && x.0 == owner && u16::from_be_bytes([x.3[0], x.3[1]]) == t)?;
        let mut p = 18;
        while sr.3[p] != 0 {
            p += 1 + sr.3[p] as usize;
        }
        Some(sr.3[18..p + 1].to_vec())
    };
    match what {
        "nsec3-owner-not-base32hex" | "nsec3-owner-too-long" | "nsec3-owner-not-utf8" | "nsec3-owner-short" => {
            let Some(i) = pick_denial(r, T_NSEC3, rng) else { return false };
            let old = r.authority[i].0.clone();
            let Some(signer) = signer_of(r, &old, T_NSEC3) else { return false };
            let rest = old[1 + old[0] as usize..].to_vec();
            let label: Vec<u8> = match what {
                "nsec3-owner-not-base32hex" => b"!!!!wxyz~~~~wxyz!!!!wxyz~~~~wxyz".to_vec(),
                "nsec3-owner-too-long" => vec![b'v'; 63],
                "nsec3-owner-not-utf8" => vec![0xff; 32],
                _ => b"0".to_vec(),
            };
            let mut newo = vec![label.len() as u8];
            newo.extend(label);
            newo.extend(rest);
            for x in r.authority.iter_mut() {
                if x.0 == old && (x.1 == T_NSEC3 || (x.1 == T_RRSIG && u16::from_be_bytes([x.3[0], x.3[1]]) == T_NSEC3)) {
                    x.0 = newo.clone();
                }
            }
            resign(world, r, &newo, T_NSEC3, None, Some(&signer), inc, exp)
        }
        "nsec3-hash-length" | "nsec3-iterations-huge" | "nsec3-unknown-algorithm" | "nsec3-bitmap-broken" => {
            let Some(i) = pick_denial(r, T_NSEC3, rng) else { return false };
            let owner = r.authority[i].0.clone();
            let rd = &mut r.authority[i].3;
            // alg(1) flags(1) iter(2) saltlen salt hashlen hash bitmap
            let sl = rd[4] as usize;
            match what {
                "nsec3-hash-length" => {
                    let hl = rd[5 + sl] as usize;
                    let cut = rng.range(1, hl.max(2) - 1);
                    rd[5 + sl] = (hl - cut) as u8;
                    rd.drain(6 + sl + hl - cut..6 + sl + hl);
                }
                "nsec3-iterations-huge" => {
                    rd[2] = 0xff;
                    rd[3] = 0xff;
                }
                "nsec3-unknown-algorithm" => rd[0] = 7,
                _ => {
                    let l = rd.len();
                    rd.truncate(l.saturating_sub(1).max(6 + sl));
                    rd.extend_from_slice(&[0, 40, 1]);
                }
            }
            resign(world, r, &owner, T_NSEC3, None, None, inc, exp)
        }
        "nsec-next-outside-zone" | "nsec-next-is-owner" | "nsec-bitmap-broken" => {
            let Some(i) = pick_denial(r, T_NSEC, rng) else { return false };
            let owner = r.authority[i].0.clone();
            let rd = &mut r.authority[i].3;
            let mut p = 0;
            while rd[p] != 0 {
                p += 1 + rd[p] as usize;
            }
            let bitmap = rd[p + 1..].to_vec();
            match what {
                "nsec-next-outside-zone" => {
                    let mut n = b"org ".to_vec();
                    n.extend(bitmap);
                    *rd = n;
                }
                "nsec-next-is-owner" => {
                    let mut n = owner.clone();
                    n.extend(bitmap);
                    *rd = n;
                }
                _ => {
                    rd.truncate(p + 1);
                    rd.extend_from_slice(&[0, 33, 1]);
                }
            }
            resign(world, r, &owner, T_NSEC, None, None, inc, exp)
        }
        "dnskey-with-empty-key" | "dnskey-with-short-rsa-key" | "dnskey-many-keys" => {
            let Some(first) = r.answer.iter().find(|x| x.1 == T_DNSKEY).cloned() else { return false };
            let extra: Vec<Vec<u8>> = match what {
                "dnskey-with-empty-key" => vec![vec![1, 0, 3, 8], vec![1, 1, 3, 13]],
                "dnskey-with-short-rsa-key" => vec![vec![1, 0, 3, 8, 0], vec![1, 0, 3, 8, 0, 0xff], vec![1, 0, 3, 8, 200, 1, 2], vec![1, 1, 3, 10, 0, 0, 1]],
                _ => (0..40u8).map(|k| vec![1, 0, 3, 13, k, k, k, k]).collect(),
            };
            for e in extra {
                r.answer.push((first.0.clone(), T_DNSKEY, first.2, e));
            }
            // both keys sign the DNSKEY RRset: drop the old signatures, sign with the KSK
            let owner = first.0.clone();
            let ok = resign(world, r, &owner, T_DNSKEY, None, None, inc, exp);
            let mut seen = 0;
            r.answer.retain(|x| {
                if x.1 == T_RRSIG && u16::from_be_bytes([x.3[0], x.3[1]]) == T_DNSKEY {
                    seen += 1;
                    seen == 1
                } else {
                    true
                }
            });
            ok
        }
        "ds-with-short-rdata" | "ds-unknown-digest" | "ds-many" => {
            let Some(first) = r.answer.iter().find(|x| x.1 == T_DS).cloned() else { return false };
            let extra: Vec<Vec<u8>> = match what {
                "ds-with-short-rdata" => vec![vec![0, 1, 13], vec![0, 1, 13, 2]],
                "ds-unknown-digest" => vec![{
                    let mut v = first.3.clone();
                    v[3] = 99;
                    v
                }],
                _ => (0..40u8).map(|k| {
                    let mut v = first.3.clone();
                    let l = v.len();
                    v[l - 1] = k;
                    v
                }).collect(),
            };
            for e in extra {
                if !r.answer.iter().any(|x| x.1 == T_DS && x.3 == e) {
                    r.answer.push((first.0.clone(), T_DS, first.2, e));
                }
            }
            let owner = first.0.clone();
            resign(world, r, &owner, T_DS, None, None, inc, exp)
        }
        _ => false,
    }
}

/// Damage to one response. Returns false if it does not apply.
fn damage(rng: &mut Rng, r: &mut Resp, what: &str, world: &World, target_type: u16) -> bool {
    let in_answer = |r: &Resp, t: u16| r.answer.iter().any(|x| x.1 == t);
    match what {
        "drop-rrsigs" => {
            // the signatures covering the target type
            let before = r.answer.len() + r.authority.len();
            let covers = |rd: &Vec<u8>| rd.len() > 2 && u16::from_be_bytes([rd[0], rd[1]]) == target_type;
            r.answer.retain(|x| !(x.1 == T_RRSIG && covers(&x.3)));
            r.authority.retain(|x| !(x.1 == T_RRSIG && covers(&x.3)));
            before != r.answer.len() + r.authority.len()
        }
        "corrupt-signature" => {
            let mut hit = false;
            for x in r.answer.iter_mut().chain(r.authority.iter_mut()) {
                if x.1 == T_RRSIG && x.3.len() > 20 && u16::from_be_bytes([x.3[0], x.3[1]]) == target_type {
                    let l = x.3.len();
                    let p = l - 1 - rng.below(16);
                    x.3[p] ^= 1 << rng.below(8);
                    hit = true;
                }
            }
            hit
        }
        "alter-rdata" => {
            let cands: Vec<usize> = r.answer.iter().enumerate().filter(|(_, x)| x.1 == target_type && !x.3.is_empty()).map(|(i, _)| i).collect();
            if cands.is_empty() {
                return false;
            }
            let i = *rng.pick(&cands);
            let l = r.answer[i].3.len();
            // the last octet: never part of a name's length octets for the types used here (A, AAAA, TXT, DS digest, DNSKEY key)
            r.answer[i].3[l - 1] ^= 0x01;
            true
        }
        "wrong-signer" => {
            let mut hit = false;
            for x in r.answer.iter_mut().chain(r.authority.iter_mut()) {
                if x.1 == T_RRSIG && u16::from_be_bytes([x.3[0], x.3[1]]) == target_type {
                    // signer name starts at offset 18: replace by "test." keeping everything else
                    let mut p = 18;
                    while x.3[p] != 0 {
                        p += 1 + x.3[p] as usize;
                    }
                    let sig = x.3[p + 1..].to_vec();
                    let mut n = x.3[..18].to_vec();
                    let old = x.3[18..p + 1].to_vec();
                    let newname: &[u8] = if w::lower(&old) == b"\x04test\x00" { b"\x00" } else { b"\x04test\x00" };
                    n.extend_from_slice(newname);
                    n.extend(sig);
                    x.3 = n;
                    hit = true;
                }
            }
            hit
        }
        "signer-is-an-insecure-zone" => {
            // the signature is replaced by one that names an unsigned zone (insecure.test.) as its signer
            let ins = world.zones[3].apex.clone();
            let mut hit = false;
            for x in r.answer.iter_mut().chain(r.authority.iter_mut()) {
                if x.1 == T_RRSIG && u16::from_be_bytes([x.3[0], x.3[1]]) == target_type && !is_below(&x.0, &ins) {
                    let mut p = 18;
                    while x.3[p] != 0 {
                        p += 1 + x.3[p] as usize;
                    }
                    let mut n = x.3[..18].to_vec();
                    n.extend_from_slice(&ins);
                    n.extend(rng.bytes(64));
                    x.3 = n;
                    hit = true;
                }
            }
            hit
        }
        "expired" | "not-yet-valid" => {
            // re-sign the target RRset with a validity period that does not include now
            let now = now_secs();
            let (inc, exp) = if what == "expired" { (now - 10 * 86400, now - 86400) } else { (now + 86400, now + 10 * 86400) };
            let mut hit = false;
            let owners: BTreeSet<Vec<u8>> = r.answer.iter().chain(r.authority.iter()).filter(|x| x.1 == target_type).map(|x| x.0.clone()).collect();
            for owner in owners {
                hit |= resign(world, r, &owner, target_type, None, None, inc, exp);
            }
            hit
        }
        "drop-proof" => {
            // one of the NSEC/NSEC3 RRsets (with its signature) goes missing
            // (the NSEC3 matching a zone apex is dispensable: that the apex exists is known from the SOA and the signer name)
            let apex_match = |o: &Vec<u8>| world.zones.iter().any(|z| World::nsec3_match(z, &z.apex).map(|s| w::lower(&s.name) == w::lower(o)).unwrap_or(false));
            let owners: Vec<Vec<u8>> = r.authority.iter().filter(|x| matches!(x.1, T_NSEC | T_NSEC3) && !apex_match(&x.0)).map(|x| x.0.clone()).collect();
            if owners.is_empty() {
                return false;
            }
            let o = rng.pick(&owners).clone();
            r.authority.retain(|x| !(x.0 == o && (matches!(x.1, T_NSEC | T_NSEC3) || (x.1 == T_RRSIG && matches!(u16::from_be_bytes([x.3[0], x.3[1]]), T_NSEC | T_NSEC3)))));
            true
        }
        "orphan-proof-signatures" => {
            // the denial records go missing, their signatures stay behind: RRSIGs that cover nothing in the message
            let before = r.authority.len();
            r.authority.retain(|x| !matches!(x.1, T_NSEC | T_NSEC3));
            before != r.authority.len()
        }
        "drop-all-proofs" => {
            let before = r.authority.len();
            r.authority.retain(|x| !(matches!(x.1, T_NSEC | T_NSEC3) || (x.1 == T_RRSIG && matches!(u16::from_be_bytes([x.3[0], x.3[1]]), T_NSEC | T_NSEC3))));
            before != r.authority.len()
        }
        "drop-soa" => {
            let before = r.authority.len();
            r.authority.retain(|x| !(x.1 == T_SOA || (x.1 == T_RRSIG && u16::from_be_bytes([x.3[0], x.3[1]]) == T_SOA)));
            before != r.authority.len() && r.answer.iter().all(|x| x.1 == T_CNAME || x.1 == T_RRSIG)
        }
        "unsigned-extra-rrset" => {
            if !in_answer(r, target_type) {
                return false;
            }
            let owner = r.answer[0].0.clone();
            r.answer.push((owner, 99, 60, vec![3, b'b', b'a', b'd']));
            true
        }
        "pretend-unsigned" => {
            // strip everything DNSSEC: an answer from a secure zone presented as if the zone were unsigned
            let before = r.answer.len() + r.authority.len();
            r.answer.retain(|x| !matches!(x.1, T_RRSIG | T_NSEC | T_NSEC3));
            r.authority.retain(|x| !matches!(x.1, T_RRSIG | T_NSEC | T_NSEC3));
            before != r.answer.len() + r.authority.len()
        }
        "ttl-zero" => {
            // every record arrives with a TTL of zero (do not cache): still a valid answer
            for x in r.answer.iter_mut().chain(r.authority.iter_mut()) {
                x.2 = 0;
            }
            true
        }
        "servfail" => {
            r.rcode = 2;
            r.answer.clear();
            r.authority.clear();
            true
        }
        "empty-noerror" => {
            r.rcode = 0;
            r.answer.clear();
            r.authority.clear();
            true
        }
        _ => false,
    }
}

impl SendRequest<RequestMessage<Vec<u8>>> for Upstream {
    fn send_request(&self, request_msg: RequestMessage<Vec<u8>>) -> Box<dyn GetResponse + Send + Sync> {
        self.requests.fetch_add(1, Ordering::SeqCst);
        let Ok(msg) = request_msg.to_message() else { return Box::new(Pending(None)) };
        let Ok(q) = msg.sole_question() else { return Box::new(Pending(None)) };
        let qname = q.qname().to_vec().as_slice().to_vec();
        let qtype = q.qtype().to_int();
        let mut r = self.world.respond(&qname, qtype);
        if let UpFault::On { name, rtype, what } = &self.fault {
            if w::lower(name) == w::lower(&qname) && *rtype == qtype {
                let mut rng = self.rng.lock().unwrap();
                if *what == "timeout" {
                    return Box::new(Pending(Some(Err(ClientError::ConnectionClosed))));
                }
                if *what == "garbage" {
                    let mut wire = to_wire(msg.header().id(), &qname, qtype, &r);
                    let l = wire.len();
                    wire.truncate(l - rng.range(1, 30).min(l - 13));
                    return match Message::from_octets(Bytes::from(wire)) {
                        Ok(m) => Box::new(Pending(Some(Ok(m)))),
                        Err(_) => Box::new(Pending(None)),
                    };
                }
                if let Some(h) = what.strip_prefix("hostile:") {
                    hostile(&mut rng, &mut r, h, &self.world);
                } else {
                    damage(&mut rng, &mut r, what, &self.world, qtype);
                }
            }
        }
        let wire = to_wire(msg.header().id(), &qname, qtype, &r);
        match Message::from_octets(Bytes::from(wire)) {
            Ok(m) => Box::new(Pending(Some(Ok(m)))),
            Err(_) => Box::new(Pending(None)),
        }
    }
}

// ---------------------------------------------------------------- cases ----

fn state_name(s: ValidationState) -> &'static str {
    match s {
        ValidationState::Secure => "Secure",
        ValidationState::Insecure => "Insecure",
        ValidationState::Bogus => "Bogus",
        ValidationState::Indeterminate => "Indeterminate",
    }
}

enum Out {
    State(&'static str),
    Error(String),
    Panic(ctx::PanicInfo),
}

fn validate(rt: &tokio::runtime::Runtime, world: &Arc<World>, fault: UpFault, seed: u64, wire: &[u8]) -> (Out, u64) {
    let requests = Arc::new(AtomicU64::new(0));
    let up = Upstream { world: world.clone(), fault, requests: requests.clone(), rng: Mutex::new(Rng::new(&[seed, 77])) };
    let ta = match TrustAnchors::from_u8(world.anchor_text.as_bytes()) {
        Ok(t) => t,
        Err(e) => return (Out::Error(format!("trust anchor: {:?}", e)), 0),
    };
    let r = ctx::catch(|| {
        let vc = ValidationContext::new(ta, up);
        let Ok(mut m) = Message::from_octets(wire.to_vec()) else { return Out::Error("short".into()) };
        match rt.block_on(vc.validate_msg::<Vec<u8>, Vec<u8>>(&mut m)) {
            Ok((s, _ede)) => Out::State(state_name(s)),
            Err(e) => Out::Error(format!("{:?}", e)),
        }
    });
    let n = requests.load(Ordering::SeqCst);
    match r {
        Ok(o) => (o, n),
        Err(pi) => (Out::Panic(pi), n),
    }
}

/// What an untouched answer for a name in leaf `li` must validate as.
fn expected_state(spec: &WorldSpec, zone_index: usize) -> &'static str {
    // zones: 0 root, 1 test, 2 secure, 3 insecure, 4 odd, 5 secure2
    match zone_index {
        0 | 1 | 2 | 5 => "Secure",
        3 => "Insecure",
        4 => {
            // a delegation whose DS names only algorithms the validator does not support is insecure (RFC 4035 5.2)
            let _ = spec;
            "Insecure"
        }
        _ => "Secure",
    }
}

fn queries(world: &World) -> Vec<(Vec<u8>, u16, usize)> {
    let mut v = Vec::new();
    for (zi, z) in world.zones.iter().enumerate().skip(2).take(4) {
        let a = &z.apex;
        for (labels, t) in [
            (vec![&b"www"[..]], T_A),
            (vec![&b"www"[..]], T_TXT),
            (vec![&b"www"[..]], T_AAAA), // nodata
            (vec![&b"x"[..], b"w"], T_A),  // wildcard
            (vec![&b"y"[..], b"z"[..].into(), b"w"], T_A), // wildcard, two labels deep
            (vec![&b"x"[..], b"w"], T_TXT), // wildcard nodata
            (vec![&b"host"[..], b"w"], T_A),  // the wildcard's sibling
            (vec![&b"x"[..], b"host"[..].into(), b"w"], T_A), // nxdomain below the wildcard's sibling: the wildcard does not apply
            (vec![&b"w"[..]], T_A),        // ent nodata
            (vec![&b"ent"[..]], T_A),      // ent nodata
            (vec![&b"alias"[..]], T_A),    // cname
            (vec![&b"walias"[..]], T_A),   // cname to wildcard
            (vec![&b"foo"[..], b"wc"], T_A),   // cname synthesised from a wildcard, then data
            (vec![&b"bar"[..], b"wc"], T_AAAA), // ... then nodata
            (vec![&b"out"[..]], T_A),      // cname to another zone
            (vec![&b"out2"[..]], T_A),
            (vec![&b"www"[..], b"dn"], T_A),      // through a DNAME into another zone
            (vec![&b"nope"[..], b"dn"], T_A),     // DNAME, then NXDOMAIN
            (vec![&b"viadname"[..]], T_A),        // CNAME into the other zone, DNAME back, then data
            (vec![&b"viadname2"[..]], T_A),
            (vec![&b"dn"[..]], T_DNAME),
            (vec![&b"alias"[..]], T_TXT),
            (vec![&b"alias"[..]], T_AAAA), // cname then nodata
            (vec![&b"nope"[..]], T_A),     // nxdomain
            (vec![&b"a"[..], b"nope"], T_A),
            (vec![&b"zzz"[..]], T_TXT),    // nxdomain after the last name
            (vec![&b"0"[..]], T_A),        // nxdomain before the first name
            (vec![&b"deep"[..], b"ent"], T_AAAA),
            (vec![&b"nope"[..], b"ent"], T_AAAA),
            (vec![], T_SOA),
            (vec![], T_NS),
            (vec![], T_DNSKEY),
            (vec![], T_TXT), // apex nodata
            (vec![&b"mail"[..]], T_TXT),
        ] {
            let refs: Vec<&[u8]> = labels.iter().map(|l| &l[..]).collect();
            v.push((nm(&refs, a), t, zi));
        }
        v.push((a.clone(), T_DS, 1)); // answered by the parent
    }
    let tld = &world.zones[1].apex;
    v.push((nm(&[b"plain"], tld), T_TXT, 1));
    v.push((nm(&[b"nothing"], tld), T_TXT, 1));
    v.push((tld.clone(), T_DS, 0));
    v.push((tld.clone(), T_DNSKEY, 1));
    v.push((b"\x00".to_vec(), T_DNSKEY, 0));
    v.push((b"\x03org\x00".to_vec(), T_A, 0)); // nxdomain at the root
    v
}

/// The zone index whose security status decides the final answer: the zone of the last name in the CNAME chain.
fn final_zone(world: &World, qname: &[u8], qtype: u16, r: &Resp) -> (usize, bool) {
    // follow CNAMEs in the answer
    let mut cur = w::lower(qname);
    let mut crossed_insecure = false;
    for _ in 0..8 {
        let zi = world.zones.iter().position(|z| std::ptr::eq(z, world.zone_for(&cur, qtype))).unwrap();
        if matches!(zi, 3 | 4) {
            crossed_insecure = true;
        }
        match r.answer.iter().find(|x| x.1 == T_CNAME && w::lower(&x.0) == cur) {
            Some(c) if qtype != T_CNAME => cur = w::lower(&c.3),
            _ => return (zi, crossed_insecure),
        }
    }
    (0, crossed_insecure)
}

fn one_world(c: &mut Ctx, rt: &tokio::runtime::Runtime, fam: &str, idx: u64) {
    let mut rng = c.case_rng(fam, idx);
    ctx::step("build world");
    let (world, spec) = match ctx::catch(|| build_world(&mut rng)) {
        Ok(Ok(w)) => w,
        Ok(Err(e)) => {
            c.note(&format!("harness: world not built: {}", e));
            return;
        }
        Err(pi) => {
            c.violation(&format!("panic:{}", pi.site()), &format!("panic while signing a hierarchy: {} at {}:{}", pi.msg, pi.file, pi.line), c.replay_of(fam, idx, json!({})));
            return;
        }
    };
    if spec.leaf_algs[3] == "rsa" {
        c.count("worlds_with_rsa_signed_zone", 1);
    }
    c.count("worlds", 1);
    let world = Arc::new(world);
    let denials: Vec<String> = world.zones.iter().map(|z| format!("{}:{}", w::name_text(&z.apex), match &z.denial { Denial::Nsec => "nsec".to_string(), Denial::Nsec3 { opt_out, iterations, .. } => format!("nsec3(it={},optout={})", iterations, opt_out) })).collect();
    let qs = queries(&world);
    let ex = |q: &(Vec<u8>, u16, usize), more: serde_json::Value| json!({"zones": denials, "leaf_algs": spec.leaf_algs, "qname": w::name_text(&q.0), "qtype": q.1, "more": more});
    for (qi, q) in qs.iter().enumerate() {
        if c.out_of_time() {
            return;
        }
        ctx::step("honest answer");
        let resp = world.respond(&q.0, q.1);
        if resp.kind == "servfail" {
            continue;
        }
        let wire = to_wire(rng.u16(), &q.0, q.1, &resp);
        let (fz, crossed) = final_zone(&world, &q.0, q.1, &resp);
        let mut want = if crossed { "Insecure" } else { expected_state(&spec, fz) };
        // RFC 5155 9.2 / 12.2: a non-existence proof whose covering NSEC3 has the Opt-Out flag proves nothing about
        // unsigned delegations, so the answer is insecure; with opt-out every NSEC3 of the zone carries the flag
        let zones_on_chain: BTreeSet<usize> = {
            let mut s = BTreeSet::new();
            let mut cur = w::lower(&q.0);
            for _ in 0..8 {
                s.insert(world.zones.iter().position(|z| std::ptr::eq(z, world.zone_for(&cur, q.1))).unwrap());
                match resp.answer.iter().find(|x| x.1 == T_CNAME && (w::lower(&x.0) == cur)) {
                    Some(cn) if q.1 != T_CNAME => cur = w::lower(&cn.3),
                    _ => break,
                }
            }
            s
        };
        let optout = |zi: usize| matches!(world.zones[zi].denial, Denial::Nsec3 { opt_out: true, .. });
        let has_cover = resp.authority.iter().any(|x| x.1 == T_NSEC3) && (matches!(resp.kind, "nxdomain" | "wildcard" | "nodata-wildcard" | "cname-wildcard" | "cname-nxdomain") || (resp.kind == "nodata" && World::nsec3_match(&world.zones[fz], &q.0).is_none() && zones_on_chain.len() == 1) || resp.wild);
        let mut either = false;
        if want == "Secure" && has_cover && zones_on_chain.iter().any(|zi| optout(*zi)) {
            if zones_on_chain.len() == 1 {
                want = "Insecure";
                // where only some NSEC3 records of the zone carry the flag, the one covering the next closer name decides
                // (RFC 5155 9.2); with the flag on the record that denies the wildcard only, either verdict is accepted,
                // and so it is for chains of several links
                let z = &world.zones[fz];
                let flag = |s: Option<&Set>| s.map(|s| s.rdatas[0][1] & 1 == 1);
                let all_flagged = z.sets.values().filter(|s| s.rtype == T_NSEC3).all(|s| s.rdatas[0][1] & 1 == 1);
                if !all_flagged {
                    c.count("answers_from_zones_with_mixed_opt_out_flags", 1);
                    if matches!(resp.kind, "nxdomain" | "wildcard" | "nodata-wildcard") && !resp.answer.iter().any(|x| x.1 == T_CNAME) {
                        let (ce, next) = World::closest_encloser(z, &q.0);
                        let mut star = vec![1, b'*'];
                        star.extend_from_slice(&ce);
                        match (flag(World::nsec3_cover(z, &next)), flag(World::nsec3_cover(z, &star))) {
                            (Some(true), _) => {
                                c.count("opt_out_on_the_next_closer_cover_only_or_both", 1);
                            }
                            (Some(false), Some(true)) => either = true,
                            (Some(false), _) => {
                                want = "Secure";
                                c.count("opt_out_zone_answer_proven_without_opt_out_records", 1);
                            }
                            (None, _) => either = true,
                        }
                    } else {
                        either = true;
                    }
                }
            } else {
                either = true;
            }
        }
        let (got, nreq) = validate(rt, &world, UpFault::None, idx * 1000 + qi as u64, &wire);
        let dk = match &world.zones[fz].denial { Denial::Nsec => "nsec", Denial::Nsec3 { opt_out: true, .. } => "nsec3-optout", _ => "nsec3" };
        match &got {
            Out::Panic(pi) => {
                c.violation(&format!("panic:{}", pi.site()), &format!("panic validating an honest {} answer: {} at {}:{}", resp.kind, pi.msg, pi.file, pi.line), c.replay_of(fam, idx, ex(q, json!({"wire": hex(&wire)}))));
                continue;
            }
            Out::Error(e) => {
                c.violation(&format!("honest-answer-error:{}", resp.kind), &format!("validate_msg fails on an honest {} answer: {}", resp.kind, e), c.replay_of(fam, idx, ex(q, json!({"wire": hex(&wire)}))));
                continue;
            }
            Out::State(s) => {
                if nreq > 200 {
                    c.violation("too-many-upstream-requests", &format!("{} upstream requests for one validation", nreq), c.replay_of(fam, idx, ex(q, json!({}))));
                    continue;
                }
                if *s != want && !(either && (*s == "Insecure" || *s == "Secure")) {
                    let sig = if want == "Secure" { format!("honest-answer-not-secure:{}:{}:{}", resp.kind, dk, s) } else if *s == "Secure" { format!("secure-without-chain:{}", resp.kind) } else { format!("insecure-zone-reported-{}:{}", s, resp.kind) };
                    c.violation(&sig, &format!("an untouched {} answer ({} TYPE{}) from a correctly signed hierarchy validates as {}, expected {}", resp.kind, w::name_text(&q.0), q.1, s, want), c.replay_of(fam, idx, ex(q, json!({"wire": hex(&wire)}))));
                    continue;
                }
                c.count(&format!("honest:{}", resp.kind), 1);
                c.eval(&("honest", resp.kind, dk, want, q.1));
            }
        }
        if want != "Secure" {
            continue;
        }
        // ---- damage to the answer under validation
        ctx::step("damaged answer");
        let target = if resp.answer.iter().any(|x| x.1 == q.1) { q.1 } else if resp.answer.iter().any(|x| x.1 == T_CNAME) { T_CNAME } else if resp.authority.iter().any(|x| x.1 == T_NSEC) { T_NSEC } else if resp.authority.iter().any(|x| x.1 == T_NSEC3) { T_NSEC3 } else { T_SOA };
        let msg_faults: &[&str] = &["drop-rrsigs", "corrupt-signature", "alter-rdata", "wrong-signer", "expired", "not-yet-valid", "drop-proof", "drop-all-proofs", "orphan-proof-signatures", "drop-soa", "unsigned-extra-rrset", "pretend-unsigned", "signer-is-an-insecure-zone"];
        for f in msg_faults {
            if !rng.chance(1, 2) && c.tier != ctx::Tier::Thorough {
                continue;
            }
            let mut r2 = resp.clone();
            let t = if matches!(*f, "alter-rdata") && !resp.answer.iter().any(|x| x.1 == target) { continue } else { target };
            if *f == "unsigned-extra-rrset" && q.1 == T_DS {
                continue; // other data at a delegation point belongs to the child zone, whose status is its own
            }
            if !damage(&mut rng, &mut r2, f, &world, t) {
                continue;
            }
            // dropping a proof of a positive non-wildcard answer changes nothing that matters
            if matches!(*f, "drop-proof" | "drop-all-proofs" | "orphan-proof-signatures") && !matches!(resp.kind, "nodata" | "nodata-ent" | "nodata-wildcard" | "nxdomain" | "wildcard" | "cname-nodata" | "cname-nxdomain" | "cname-wildcard") && !(resp.wild && matches!(*f, "drop-all-proofs" | "orphan-proof-signatures")) {
                continue;
            }
            if *f == "drop-proof" && (matches!(resp.kind, "cname-nodata" | "cname-nxdomain" | "cname-wildcard") || resp.wild && resp.kind == "cname") {
                continue; // which proof belongs to which link of the chain is not tracked here
            }
            let wire2 = to_wire(rng.u16(), &q.0, q.1, &r2);
            let (got, _) = validate(rt, &world, UpFault::None, idx * 1000 + qi as u64, &wire2);
            match got {
                Out::Panic(pi) => {
                    c.violation(&format!("panic:{}", pi.site()), &format!("panic validating a {} answer damaged by [{}]: {} at {}:{}", resp.kind, f, pi.msg, pi.file, pi.line), c.replay_of(fam, idx, ex(q, json!({"fault": f, "wire": hex(&wire2)}))));
                }
                Out::State("Secure") => {
                    c.violation(&format!("secure-despite:{}:{}", f, resp.kind), &format!("a {} answer ({} TYPE{}) damaged by [{}] (covering TYPE{}) still validates as Secure", resp.kind, w::name_text(&q.0), q.1, f, t), c.replay_of(fam, idx, ex(q, json!({"fault": f, "wire": hex(&wire2)}))));
                }
                Out::State("Insecure") if *f == "signer-is-an-insecure-zone" && want == "Secure" && !either => {
                    c.violation(&format!("downgrade-accepted:{}:{}", f, resp.kind), &format!("a {} answer ({} TYPE{}) from a secure zone whose signature (covering TYPE{}) was replaced by one naming the unsigned zone insecure.test. as signer validates as Insecure: the data of a signed zone is accepted without any valid signature", resp.kind, w::name_text(&q.0), q.1, t), c.replay_of(fam, idx, ex(q, json!({"fault": f, "wire": hex(&wire2)}))));
                }
                Out::State(s) => {
                    c.count(&format!("damaged:{}", f), 1);
                    c.eval(&("damaged", *f, resp.kind, dk, s));
                }
                Out::Error(_) => {
                    c.count(&format!("damaged:{}", f), 1);
                    c.eval(&("damaged", *f, resp.kind, dk, "error"));
                }
            }
        }
        // ---- content only the zone's own operator could have signed: anything goes, except a panic or a runaway
        ctx::step("hostile content");
        for h in ["nsec3-owner-not-base32hex", "nsec3-owner-too-long", "nsec3-owner-not-utf8", "nsec3-owner-short", "nsec3-hash-length", "nsec3-iterations-huge", "nsec3-unknown-algorithm", "nsec3-bitmap-broken", "nsec-next-outside-zone", "nsec-next-is-owner", "nsec-bitmap-broken", "dnskey-with-empty-key", "dnskey-with-short-rsa-key", "dnskey-many-keys", "ds-with-short-rdata", "ds-unknown-digest", "ds-many"] {
            let mut r2 = resp.clone();
            if !hostile(&mut rng, &mut r2, h, &world) {
                continue;
            }
            let wire2 = to_wire(rng.u16(), &q.0, q.1, &r2);
            if w::parse_message(&wire2).is_err() {
                continue;
            }
            let t0 = std::time::Instant::now();
            let (got, nreq) = validate(rt, &world, UpFault::None, idx * 1000 + qi as u64, &wire2);
            match got {
                Out::Panic(pi) => {
                    c.violation(&format!("panic:{}", pi.site()), &format!("panic validating a {} answer with properly signed but hostile content [{}]: {} at {}:{}", resp.kind, h, pi.msg, pi.file, pi.line), c.replay_of(fam, idx, ex(q, json!({"hostile": h, "wire": hex(&wire2)}))));
                }
                _ => {
                    if nreq > 200 || t0.elapsed().as_secs() > 20 {
                        c.violation(&format!("runaway:{}", h), &format!("{} upstream requests / {:?} for one validation of hostile content [{}]", nreq, t0.elapsed(), h), c.replay_of(fam, idx, ex(q, json!({"hostile": h}))));
                    }
                    c.count(&format!("hostile:{}", h), 1);
                    c.eval(&("hostile", h, resp.kind));
                }
            }
        }
        // ---- a misbehaving upstream: DS / DNSKEY answers on the chain to the answer's zone
        ctx::step("damaged upstream");
        if !(rng.chance(1, 3) || c.tier == ctx::Tier::Thorough) {
            continue;
        }
        let zone_apex = world.zones[fz].apex.clone();
        let chain: Vec<(Vec<u8>, u16)> = {
            let mut v = vec![(b"\x00".to_vec(), T_DNSKEY)];
            if fz >= 1 {
                v.push((b"\x04test\x00".to_vec(), T_DS));
                v.push((b"\x04test\x00".to_vec(), T_DNSKEY));
            }
            if fz >= 2 {
                v.push((zone_apex.clone(), T_DS));
                v.push((zone_apex.clone(), T_DNSKEY));
            }
            v
        };
        // a query for the very record the upstream lies about is judged by the message faults above
        let up_faults: &[&str] = &["hostile:dnskey-with-empty-key", "hostile:dnskey-with-short-rsa-key", "hostile:dnskey-many-keys", "hostile:ds-with-short-rdata", "hostile:ds-unknown-digest", "hostile:ds-many", "drop-rrsigs", "corrupt-signature", "alter-rdata", "wrong-signer", "expired", "drop-all-proofs", "pretend-unsigned", "servfail", "empty-noerror", "timeout", "garbage", "ttl-zero", "ttl-zero"];
        for _ in 0..2 {
            let (name, rtype) = rng.pick(&chain).clone();
            let what = *rng.pick(up_faults);
            if w::lower(&name) == w::lower(&q.0) && rtype == q.1 {
                continue;
            }
            let fault = UpFault::On { name: name.clone(), rtype, what };
            let (got, nreq) = validate(rt, &world, fault, idx * 1000 + qi as u64, &wire);
            // "drop-all-proofs" only matters where the DS answer is a denial (not on this chain: all DS exist)
            let harmless = matches!(what, "drop-all-proofs" | "garbage" | "ttl-zero") || what.starts_with("hostile:");
            match got {
                Out::Panic(pi) => {
                    c.violation(&format!("panic:{}", pi.site()), &format!("panic when the upstream answers {} TYPE{} with [{}]: {} at {}:{}", w::name_text(&name), rtype, what, pi.msg, pi.file, pi.line), c.replay_of(fam, idx, ex(q, json!({"upstream_fault": what}))));
                }
                Out::State("Secure") if !harmless => {
                    c.violation(&format!("secure-despite-upstream:{}:TYPE{}", what, rtype), &format!("the answer validates as Secure although the upstream's answer for {} TYPE{} was damaged by [{}]", w::name_text(&name), rtype, what), c.replay_of(fam, idx, ex(q, json!({"upstream_fault": what, "at": w::name_text(&name), "rtype": rtype}))));
                }
                Out::State("Insecure") if !harmless => {
                    c.violation(&format!("downgrade-accepted:{}:TYPE{}", what, rtype), &format!("a secure zone is treated as insecure because the upstream's answer for {} TYPE{} was damaged by [{}]: no signed proof that the DS does not exist was ever seen", w::name_text(&name), rtype, what), c.replay_of(fam, idx, ex(q, json!({"upstream_fault": what, "at": w::name_text(&name), "rtype": rtype}))));
                }
                _ => {
                    if nreq > 200 {
                        c.violation("too-many-upstream-requests", &format!("{} upstream requests for one validation", nreq), c.replay_of(fam, idx, ex(q, json!({"upstream_fault": what}))));
                    }
                    c.count(&format!("upstream:{}", what), 1);
                    c.eval(&("upstream", what, rtype, fz));
                }
            }
        }
    }
    // ---- a forged denial assembled from validly signed records of two zones: the parent's SOA and apex NSEC, and the
    // last NSEC of a child zone's chain, which wraps around and so "covers" every name sorting after the child
    ctx::step("forged denial");
    for child in [2usize, 5] {
        if world.zones[1].denial != Denial::Nsec || world.zones[child].denial != Denial::Nsec {
            continue;
        }
        let tld = &world.zones[1];
        let ch = &world.zones[child];
        let owners = World::nsec_owners(ch);
        let (Some(last), Some(soa), Some(apex_nsec)) = (owners.last().and_then(|o| ch.get(o, T_NSEC)), tld.get(&tld.apex, T_SOA), tld.get(&tld.apex, T_NSEC)) else { continue };
        let qname = nm(&[b"zzz"], &tld.apex);
        let mut r = Resp { rcode: 3, answer: vec![], authority: vec![], kind: "nxdomain", wild: false };
        push_set(&mut r.authority, soa, None);
        push_set(&mut r.authority, apex_nsec, None);
        push_set(&mut r.authority, last, None);
        let wire = to_wire(rng.u16(), &qname, T_TXT, &r);
        let (got, _) = validate(rt, &world, UpFault::None, idx * 1000 + 999, &wire);
        match got {
            Out::Panic(pi) => c.violation(&format!("panic:{}", pi.site()), &format!("panic validating a forged denial: {} at {}:{}", pi.msg, pi.file, pi.line), c.replay_of(fam, idx, json!({"zones": denials, "wire": hex(&wire)}))),
            Out::State("Secure") => c.violation("secure-despite:forged-nxdomain-with-nsec-of-a-child-zone", &format!("NXDOMAIN for the existing name {} validates as Secure: its proof is the wrap-around NSEC of the child zone {} next to the parent's SOA", w::name_text(&qname), w::name_text(&ch.apex)), c.replay_of(fam, idx, json!({"zones": denials, "wire": hex(&wire)}))),
            _ => {
                c.count("forged_denials_rejected", 1);
                c.eval(&("forged-denial", child));
            }
        }
    }
    // ---- the same kind of forgery against a zone that is an alias as a whole: NXDOMAIN for a name below a DNAME at the apex,
    // "proven" with the zone's genuine SOA and apex NSEC (whose bitmap lists SOA and DNAME): every name below is redirected
    if let Some(az) = world.zones.get(6) {
        if let (Some(soa), Some(apex_nsec)) = (az.get(&az.apex, T_SOA), az.get(&az.apex, T_NSEC)) {
            // the chain to the zone is sound: its SOA validates
            let honest = world.respond(&az.apex, T_SOA);
            let hw = to_wire(rng.u16(), &az.apex, T_SOA, &honest);
            let (hs, _) = validate(rt, &world, UpFault::None, idx * 1000 + 997, &hw);
            if matches!(hs, Out::State("Secure")) {
                // (a name the apex NSEC itself covers: it sorts before the zone's only other name, ns.<apex>, as does the wildcard)
                let qname = nm(&[b"a"], &az.apex);
                let mut r = Resp { rcode: 3, answer: vec![], authority: vec![], kind: "nxdomain", wild: false };
                push_set(&mut r.authority, soa, None);
                push_set(&mut r.authority, apex_nsec, None);
                let wire = to_wire(rng.u16(), &qname, T_A, &r);
                let (got, _) = validate(rt, &world, UpFault::None, idx * 1000 + 998, &wire);
                match got {
                    Out::Panic(pi) => c.violation(&format!("panic:{}", pi.site()), &format!("panic validating a forged denial: {} at {}:{}", pi.msg, pi.file, pi.line), c.replay_of(fam, idx, json!({"zones": denials, "wire": hex(&wire)}))),
                    Out::State("Secure") => c.violation("secure-despite:forged-nxdomain-below-a-dname-at-the-apex", &format!("NXDOMAIN for {}, a name below the DNAME at the apex of {}, validates as Secure on the strength of the apex NSEC, which lists DNAME", w::name_text(&qname), w::name_text(&az.apex)), c.replay_of(fam, idx, json!({"zones": denials, "wire": hex(&wire)}))),
                    _ => {
                        c.count("forged_denials_below_an_apex_dname_rejected", 1);
                        c.eval(&("forged-denial", 6usize));
                    }
                }
            } else {
                c.count("alias_zone_chain_not_secure", 1);
            }
        }
    }
    // ---- a genuine, validly signed wildcard RRset replayed as the answer for a name it does not cover: x.host.w.<zone>
    // lies below the existing name host.w.<zone>, so its closest encloser is that name and not the wildcard's parent; the
    // truthful answer is NXDOMAIN. The proof that the name itself does not exist is genuine too.
    ctx::step("replayed wildcard");
    for zi in 2..6 {
        let z = &world.zones[zi];
        if !z.signed || expected_state(&spec, zi) != "Secure" {
            continue;
        }
        let star = nm(&[b"*", b"w"], &z.apex);
        let Some(ws) = z.get(&star, T_A) else { continue };
        for labels in [vec![&b"x"[..], b"host", b"w"], vec![&b"a"[..], b"b", b"host", b"w"]] {
            let qname = nm(&labels, &z.apex);
            let mut r = Resp { rcode: 0, answer: vec![], authority: vec![], kind: "wildcard", wild: true };
            push_set(&mut r.answer, ws, Some(&qname));
            let dk = match &z.denial {
                Denial::Nsec => {
                    if let Some(n) = World::nsec_cover(z, &qname) {
                        World::add_unique(&mut r.authority, n);
                    }
                    "nsec"
                }
                Denial::Nsec3 { .. } => {
                    // the best an attacker has: the NSEC3 covering the name itself, and the one matching the claimed encloser
                    if let Some(n) = World::nsec3_cover(z, &qname) {
                        World::add_unique(&mut r.authority, n);
                    }
                    if let Some(n) = World::nsec3_match(z, &nm(&[b"w"], &z.apex)) {
                        World::add_unique(&mut r.authority, n);
                    }
                    "nsec3"
                }
            };
            let wire = to_wire(rng.u16(), &qname, T_A, &r);
            let (got, _) = validate(rt, &world, UpFault::None, idx * 1000 + 998, &wire);
            match got {
                Out::Panic(pi) => c.violation(&format!("panic:{}", pi.site()), &format!("panic validating a replayed wildcard answer: {} at {}:{}", pi.msg, pi.file, pi.line), c.replay_of(fam, idx, json!({"zones": denials, "wire": hex(&wire)}))),
                Out::State("Secure") => c.violation(&format!("secure-despite:wildcard-replayed-below-an-existing-name:{}", dk), &format!("the signed RRset of {} presented as the answer for {} validates as Secure, although {} exists and is the closest encloser (the wildcard does not apply; the truthful answer is NXDOMAIN)", w::name_text(&star), w::name_text(&qname), w::name_text(&nm(&[b"host", b"w"], &z.apex))), c.replay_of(fam, idx, json!({"zones": denials, "wire": hex(&wire)}))),
                _ => {
                    c.count("replayed_wildcards_rejected", 1);
                    c.eval(&("replayed-wildcard", dk, labels.len()));
                }
            }
        }
    }
    if c.want_sample() {
        c.sample(json!({"zones": denials, "queries": qs.len()}));
    }
}

/// For C17: how an honest positive answer validates when its RRSIG carries the given inception
/// and expiration (offsets from now, modulo 2^32). Everything else in the hierarchy is signed
/// with an ordinary validity period around now.
pub(crate) fn sigtime_probe(rt: &tokio::runtime::Runtime, rng: &mut Rng, inc_off: i64, exp_off: i64) -> Result<&'static str, String> {
    let (world, _) = build_world(rng)?;
    let world = Arc::new(world);
    let n = nm(&[b"www"], &world.zones[5].apex);
    let mut r = world.respond(&n, T_A);
    let now = now_secs();
    let inc = (now as i64 + inc_off).rem_euclid(1 << 32) as u32;
    let exp = (now as i64 + exp_off).rem_euclid(1 << 32) as u32;
    if !resign(&world, &mut r, &n, T_A, None, None, inc, exp) {
        return Err("could not re-sign".into());
    }
    let wire = to_wire(rng.u16(), &n, T_A, &r);
    match validate(rt, &world, UpFault::None, rng.u64(), &wire) {
        (Out::State(s), _) => Ok(s),
        (Out::Error(e), _) => Err(format!("error: {}", e)),
        (Out::Panic(pi), _) => Err(format!("panic: {} at {}:{}", pi.msg, pi.file, pi.line)),
    }
}

/// An upstream that serves one world and, once switched, another.
struct SwitchUp {
    a: Arc<World>,
    b: Arc<World>,
    use_b: Arc<std::sync::atomic::AtomicBool>,
    requests: Arc<AtomicU64>,
}

impl SendRequest<RequestMessage<Vec<u8>>> for SwitchUp {
    fn send_request(&self, request_msg: RequestMessage<Vec<u8>>) -> Box<dyn GetResponse + Send + Sync> {
        self.requests.fetch_add(1, Ordering::SeqCst);
        let Ok(msg) = request_msg.to_message() else { return Box::new(Pending(None)) };
        let Ok(q) = msg.sole_question() else { return Box::new(Pending(None)) };
        let qname = q.qname().to_vec().as_slice().to_vec();
        let qtype = q.qtype().to_int();
        let world = if self.use_b.load(Ordering::SeqCst) { &self.b } else { &self.a };
        let r = world.respond(&qname, qtype);
        match Message::from_octets(Bytes::from(to_wire(msg.header().id(), &qname, qtype, &r))) {
            Ok(m) => Box::new(Pending(Some(Ok(m)))),
            Err(_) => Box::new(Pending(None)),
        }
    }
}

/// A key of `secure.test.` is withdrawn: the parent replaces the DS RRset (TTL one second) and
/// the child its DNSKEY RRset, everything is signed afresh. One validation context lives through
/// it. Once the old DS RRset has run out, answers signed with the withdrawn key are no longer
/// secure and answers signed with the new key are. (The validator's caches run on
/// std::time::Instant: the second is a real one.)
fn rollover_case(c: &mut Ctx, rt: &tokio::runtime::Runtime, fam: &str, idx: u64) {
    let mut rng = c.case_rng(fam, idx);
    ctx::step("build rollover worlds");
    let built = ctx::catch(|| -> Result<(World, World), String> {
        let (za, odd_alg) = build_zones(&mut rng, 1);
        let mut zb: Vec<SZone> = za.iter().map(clone_zone).collect();
        zb[2].keys = gen_keys(&mut rng, &GenerateParams::EcdsaP256Sha256);
        let sec_apex = zb[2].apex.clone();
        let ds = ds_rdata(&sec_apex, &zb[2].keys[0].dnskey);
        zb[1].insert(&sec_apex, T_DS, 1, vec![ds]);
        let (wa, _) = finish_world(za, odd_alg)?;
        let (wb, _) = finish_world(zb, odd_alg)?;
        Ok((wa, wb))
    });
    let (wa, wb) = match built {
        Ok(Ok(x)) => x,
        Ok(Err(e)) => {
            c.note(&format!("harness: rollover worlds not built: {}", e));
            return;
        }
        Err(pi) => {
            c.violation(&format!("panic:{}", pi.site()), &format!("panic while signing the rollover worlds: {} at {}:{}", pi.msg, pi.file, pi.line), c.replay_of(fam, idx, json!({})));
            return;
        }
    };
    let (wa, wb) = (Arc::new(wa), Arc::new(wb));
    let qname = nm(&[*rng.pick(&[&b"www"[..], b"alias", b"nope", b"mail"])], &wa.zones[2].apex);
    let qtype = *rng.pick(&[T_A, T_TXT]);
    let old_wire = to_wire(rng.u16(), &qname, qtype, &wa.respond(&qname, qtype));
    let new_wire = to_wire(rng.u16(), &qname, qtype, &wb.respond(&qname, qtype));
    // a positive answer from another secure zone whose signature runs out in a second
    let (exp_wire, exp_name) = {
        let z = &wa.zones[5];
        let n = nm(&[b"www"], &z.apex);
        let mut r = wa.respond(&n, T_A);
        let now = now_secs();
        let ok = resign(&wa, &mut r, &n, T_A, None, None, now - 3600, now + 1);
        (if ok { Some(to_wire(rng.u16(), &n, T_A, &r)) } else { None }, n)
    };
    let use_b = Arc::new(std::sync::atomic::AtomicBool::new(false));
    let requests = Arc::new(AtomicU64::new(0));
    let up = SwitchUp { a: wa.clone(), b: wb.clone(), use_b: use_b.clone(), requests: requests.clone() };
    let Ok(ta) = TrustAnchors::from_u8(wa.anchor_text.as_bytes()) else { return };
    let ex = json!({"query": format!("{} TYPE{}", w::name_text(&qname), qtype)});
    let r = ctx::catch(|| {
        let vc = ValidationContext::new(ta, up);
        let mut states: Vec<&'static str> = Vec::new();
        let mut run = |wire: &[u8]| -> &'static str {
            let Ok(mut m) = Message::from_octets(wire.to_vec()) else { return "short" };
            match rt.block_on(vc.validate_msg::<Vec<u8>, Vec<u8>>(&mut m)) {
                Ok((s, _)) => state_name(s),
                Err(_) => "Error",
            }
        };
        states.push(run(&old_wire));
        let e0 = exp_wire.as_ref().map(|w| run(w)).unwrap_or("none");
        use_b.store(true, Ordering::SeqCst);
        std::thread::sleep(std::time::Duration::from_millis(2300));
        states.push(run(&old_wire));
        states.push(run(&new_wire));
        states.push(e0);
        states.push(exp_wire.as_ref().map(|w| run(w)).unwrap_or("none"));
        states
    });
    let states = match r {
        Ok(s) => s,
        Err(pi) => {
            c.violation(&format!("panic:{}", pi.site()), &format!("panic validating across a key withdrawal: {} at {}:{}", pi.msg, pi.file, pi.line), c.replay_of(fam, idx, ex));
            return;
        }
    };
    // (an opt-out zone makes some of these answers Insecure from the start)
    if states[0] != "Secure" && states[0] != "Insecure" {
        c.violation(&format!("rollover:before:{}", states[0]), &format!("before the key withdrawal the honest answer validates as {}", states[0]), c.replay_of(fam, idx, ex));
        return;
    }
    if states[0] == "Secure" {
        if states[1] == "Secure" {
            c.violation("secure-after-ds-withdrawn", &format!("{} s after the parent replaced the DS RRset (TTL 1 s) an answer signed with the withdrawn key still validates as Secure ({} upstream requests in all)", 2.3, requests.load(Ordering::SeqCst)), c.replay_of(fam, idx, ex));
            return;
        }
        if states[2] != "Secure" {
            c.violation(&format!("rollover:new-key-answer:{}", states[2]), &format!("after the old DS RRset ran out, an answer signed with the new, properly chained key validates as {}", states[2]), c.replay_of(fam, idx, ex));
            return;
        }
        c.count("rollover_withdrawn_key_refused", 1);
    }
    // the signature that was good a moment ago has run out meanwhile
    if states[3] == "Secure" {
        if states[4] == "Secure" {
            c.violation("secure-with-expired-signature:validated-before-it-expired", &format!("an answer ({} A) validated as Secure while its signature was within its validity period still validates as Secure by the same validation context more than a second after the signature expired", w::name_text(&exp_name)), c.replay_of(fam, idx, ex));
            return;
        }
        c.count("expired_after_first_validation_refused", 1);
    }
    c.count("rollover_cases", 1);
    c.eval(&("rollover", states[0], states[1], states[2], states[3], states[4], qtype));
}

/// One validation context is asked about several answers in a row: whatever it remembers of the first must not
/// decide the second. The genuine answer and the same answer with its data altered under the very same RRSIG, in
/// either order, and the same once more for an answer the upstream's DS / DNSKEY chain is involved in.
fn context_reuse_case(c: &mut Ctx, rt: &tokio::runtime::Runtime, fam: &str, idx: u64) {
    let mut rng = c.case_rng(fam, idx);
    ctx::step("build world");
    let world = match ctx::catch(|| build_world(&mut rng)) {
        Ok(Ok((w_, _))) => Arc::new(w_),
        Ok(Err(e)) => {
            c.note(&format!("harness: world not built: {}", e));
            return;
        }
        Err(pi) => {
            c.violation(&format!("panic:{}", pi.site()), &format!("panic while signing a hierarchy: {} at {}:{}", pi.msg, pi.file, pi.line), c.replay_of(fam, idx, json!({})));
            return;
        }
    };
    let zi = *rng.pick(&[2usize, 5, 1]);
    let (qname, qtype) = if zi == 1 { (world.zones[1].apex.clone(), T_SOA) } else { (nm(&[*rng.pick(&[&b"www"[..], b"mail"])], &world.zones[zi].apex), *rng.pick(&[T_A, T_TXT])) };
    let genuine = world.respond(&qname, qtype);
    if genuine.kind != "positive" {
        return;
    }
    let mut forged = world.respond(&qname, qtype);
    if !damage(&mut rng, &mut forged, "alter-rdata", &world, qtype) {
        return;
    }
    let gw = to_wire(rng.u16(), &qname, qtype, &genuine);
    let fw = to_wire(rng.u16(), &qname, qtype, &forged);
    let forged_first = rng.bool();
    let ex = json!({"query": format!("{} TYPE{}", w::name_text(&qname), qtype), "forged_first": forged_first});
    let requests = Arc::new(AtomicU64::new(0));
    let up = Upstream { world: world.clone(), fault: UpFault::None, requests: requests.clone(), rng: Mutex::new(Rng::new(&[c.seed ^ idx, 78])) };
    let Ok(ta) = TrustAnchors::from_u8(world.anchor_text.as_bytes()) else { return };
    let r = ctx::catch(|| {
        let vc = ValidationContext::new(ta, up);
        let run = |wire: &[u8]| -> &'static str {
            let Ok(mut m) = Message::from_octets(wire.to_vec()) else { return "short" };
            match rt.block_on(vc.validate_msg::<Vec<u8>, Vec<u8>>(&mut m)) {
                Ok((s, _)) => state_name(s),
                Err(_) => "Error",
            }
        };
        let order: [&[u8]; 4] = if forged_first { [&fw, &gw, &fw, &gw] } else { [&gw, &fw, &gw, &fw] };
        order.iter().map(|wire| run(wire)).collect::<Vec<_>>()
    });
    let states = match r {
        Ok(s) => s,
        Err(pi) => {
            c.violation(&format!("panic:{}", pi.site()), &format!("panic validating several answers with one context: {} at {}:{}", pi.msg, pi.file, pi.line), c.replay_of(fam, idx, ex));
            return;
        }
    };
    let (g, f): (Vec<&str>, Vec<&str>) = if forged_first { (vec![states[1], states[3]], vec![states[0], states[2]]) } else { (vec![states[0], states[2]], vec![states[1], states[3]]) };
    c.eval(&("context-reuse", zi, qtype, forged_first, states.clone()));
    if f.iter().any(|s| *s == "Secure") {
        c.violation(&format!("secure-with-altered-data:one-context:{}", if forged_first { "forged-first" } else { "after-the-genuine-answer" }), &format!("one validation context, answers in the order {}: the answer whose data was altered under the genuine RRSIG validates as {:?} (the genuine one as {:?})", if forged_first { "forged, genuine, forged, genuine" } else { "genuine, forged, genuine, forged" }, f, g), c.replay_of(fam, idx, ex));
        return;
    }
    if g.iter().any(|s| *s != "Secure") {
        c.violation(&format!("genuine-answer-refused:one-context:{}", if forged_first { "after-a-forged-one" } else { "genuine-first" }), &format!("one validation context, answers in the order {}: the genuine answer validates as {:?}", if forged_first { "forged, genuine, forged, genuine" } else { "genuine, forged, genuine, forged" }, g), c.replay_of(fam, idx, ex));
        return;
    }
    c.count("context_reuse_cases", 1);
}

/// The validating client transport (`net::client::validator::Connection`): what it tells its caller through the AD
/// bit is what the validator found, whatever the request's CD / DO / AD bits and whatever the upstream claims.
fn client_transport_case(c: &mut Ctx, rt: &tokio::runtime::Runtime, fam: &str, idx: u64) {
    use domain::net::client::validator as cv;
    #[derive(Clone)]
    struct FlagUp {
        inner: Arc<Upstream>,
        /// header bits the upstream sets / clears in what it sends: (AD, CD)
        claim: (Option<bool>, Option<bool>),
        qname: Vec<u8>,
        qtype: u16,
        fault: Option<&'static str>,
        seed: u64,
        /// whether the fault found something to damage in the answer
        applied: Arc<std::sync::atomic::AtomicBool>,
    }
    impl SendRequest<RequestMessage<Vec<u8>>> for FlagUp {
        fn send_request(&self, request_msg: RequestMessage<Vec<u8>>) -> Box<dyn GetResponse + Send + Sync> {
            let Ok(msg) = request_msg.to_message() else { return Box::new(Pending(None)) };
            let Ok(q) = msg.sole_question() else { return Box::new(Pending(None)) };
            let qname = q.qname().to_vec().as_slice().to_vec();
            let qtype = q.qtype().to_int();
            let mut r = self.inner.world.respond(&qname, qtype);
            let mine = w::lower(&qname) == w::lower(&self.qname) && qtype == self.qtype;
            if mine {
                if let Some(f) = self.fault {
                    let mut rng = Rng::new(&[self.seed, 79]);
                    if damage(&mut rng, &mut r, f, &self.inner.world, qtype) {
                        self.applied.store(true, Ordering::SeqCst);
                    }
                }
            }
            let mut wire = to_wire(msg.header().id(), &qname, qtype, &r);
            if mine {
                if let Some(ad) = self.claim.0 {
                    wire[3] = (wire[3] & !0x20) | if ad { 0x20 } else { 0 };
                }
                if let Some(cd) = self.claim.1 {
                    wire[3] = (wire[3] & !0x10) | if cd { 0x10 } else { 0 };
                }
            }
            match Message::from_octets(Bytes::from(wire)) {
                Ok(m) => Box::new(Pending(Some(Ok(m)))),
                Err(_) => Box::new(Pending(None)),
            }
        }
    }
    let mut rng = c.case_rng(fam, idx);
    let world = match ctx::catch(|| build_world(&mut rng)) {
        Ok(Ok((w_, _))) => Arc::new(w_),
        _ => return,
    };
    let up = Arc::new(Upstream { world: world.clone(), fault: UpFault::None, requests: Arc::new(AtomicU64::new(0)), rng: Mutex::new(Rng::new(&[c.seed ^ idx, 80])) });
    for k in 0..24 {
        let zi = *rng.pick(&[2usize, 5, 3]);
        let qname = nm(&[*rng.pick(&[&b"www"[..], b"mail", b"nope"])], &world.zones[zi].apex);
        let qtype = *rng.pick(&[T_A, T_TXT]);
        let (cd, dnssec_ok, ad) = (rng.bool(), rng.bool(), rng.chance(1, 3));
        let fault = *rng.pick(&[None, None, Some("corrupt-signature"), Some("alter-rdata"), Some("pretend-unsigned")]);
        let claim = (*rng.pick(&[None, Some(true), Some(true), Some(false)]), *rng.pick(&[None, Some(true), Some(false)]));
        let applied = Arc::new(std::sync::atomic::AtomicBool::new(false));
        let fu = FlagUp { inner: up.clone(), claim, qname: qname.clone(), qtype, fault, seed: c.seed ^ idx ^ k, applied: applied.clone() };
        let Ok(ta) = TrustAnchors::from_u8(world.anchor_text.as_bytes()) else { return };
        let ex = json!({"query": format!("{} TYPE{}", w::name_text(&qname), qtype), "request": {"cd": cd, "do": dnssec_ok, "ad": ad}, "answer_fault": fault, "upstream_claims": {"ad": claim.0, "cd": claim.1}, "zone": zi});
        let res = ctx::catch(|| {
            rt.block_on(async {
                let vc = Arc::new(ValidationContext::new(ta, fu.clone()));
                let conn = cv::Connection::<_, Vec<u8>, _>::new(fu.clone(), vc);
                let mut mb = domain::base::message_builder::MessageBuilder::new_vec();
                mb.header_mut().set_id(7);
                mb.header_mut().set_rd(true);
                mb.header_mut().set_cd(cd);
                mb.header_mut().set_ad(ad);
                let mut qb = mb.question();
                qb.push((domain::base::name::Name::<Vec<u8>>::from_octets(qname.clone()).unwrap(), Rtype::from_int(qtype))).unwrap();
                let mut rm = RequestMessage::new(qb.into_message()).unwrap();
                if dnssec_ok {
                    rm.set_dnssec_ok(true);
                }
                let mut gr = SendRequest::send_request(&conn, rm);
                gr.get_response().await.map(|m| m.as_slice().to_vec()).map_err(|e| format!("{}", e))
            })
        });
        let got = match res {
            Err(pi) => {
                c.violation(&format!("panic:{}", pi.site()), &format!("panic in the validating client transport: {} at {}:{}", pi.msg, pi.file, pi.line), c.replay_of(fam, idx, ex));
                return;
            }
            Ok(g) => g,
        };
        // (a fault that found nothing to damage in this kind of answer left it genuine)
        let fault = if applied.load(Ordering::SeqCst) { fault } else { None };
        let secure_truth = fault.is_none() && zi != 3;
        c.eval(&("client-transport", cd, dnssec_ok, ad, fault, claim, zi == 3, got.is_ok()));
        match got {
            Err(_) => c.count("client_transport_errors", 1),
            Ok(m) => {
                if m.len() < 12 {
                    continue;
                }
                let (r_ad, rcode) = (m[3] & 0x20 != 0, m[3] & 0x0f);
                // AD is the transport's word for "validated as secure": never without a validation that said so
                if r_ad && (cd || !secure_truth) {
                    let why = if cd { "the request had CD set, nothing was validated" } else if zi == 3 { "the data lies below an insecure delegation" } else { "the answer was tampered with" };
                    c.violation(&format!("client-transport:ad-without-validation:{}", if cd { "cd-request" } else if zi == 3 { "insecure-zone" } else { "tampered-answer" }), &format!("the caller gets AD set although {} (request CD {} DO {} AD {}; upstream claimed AD {:?} CD {:?}; fault {:?})", why, cd, dnssec_ok, ad, claim.0, claim.1, fault), c.replay_of(fam, idx, ex));
                    return;
                }
                if !cd && fault.is_some() && zi != 3 && rcode == 0 && m[6..8] != [0, 0] && fault != Some("pretend-unsigned") {
                    c.violation("client-transport:bogus-data-handed-out", &format!("an answer damaged by [{}] reaches a caller that did not set CD with RCODE 0 and its answer section", fault.unwrap()), c.replay_of(fam, idx, ex));
                    return;
                }
                if !cd && secure_truth && (ad || dnssec_ok) && !r_ad && rcode == 0 {
                    c.count("client_transport_secure_answer_without_ad", 1);
                }
                if r_ad {
                    c.count("client_transport_ad_set_after_validation", 1);
                }
                if cd && claim.0 == Some(true) {
                    c.count("client_transport_upstream_ad_claim_with_cd_request", 1);
                }
                c.count("client_transport_responses", 1);
            }
        }
    }
}

pub fn run(c: &mut Ctx) {
    let rt = tokio::runtime::Builder::new_current_thread().enable_all().build().unwrap();
    c.families(4);
    let fam = "context-reuse";
    let total = c.total(96, 6_000);
    for idx in c.cases(fam, total) {
        if c.out_of_time() {
            break;
        }
        ctx::slot_write(idx, &format!("{}|case", fam), &[]);
        context_reuse_case(c, &rt, fam, idx);
    }
    let fam = "client-transport";
    let total = c.total(48, 3_000);
    for idx in c.cases(fam, total) {
        if c.out_of_time() {
            break;
        }
        ctx::slot_write(idx, &format!("{}|case", fam), &[]);
        client_transport_case(c, &rt, fam, idx);
    }
    let fam = "rollover";
    let total = c.total(32, 640);
    for idx in c.cases(fam, total) {
        if c.out_of_time() {
            break;
        }
        ctx::slot_write(idx, &format!("{}|case", fam), &[]);
        rollover_case(c, &rt, fam, idx);
    }
    let fam = "worlds";
    let total = c.total(64, 4_000);
    for idx in c.cases(fam, total) {
        if c.out_of_time() {
            break;
        }
        ctx::slot_write(idx, &format!("{}|case", fam), &[]);
        one_world(c, &rt, fam, idx);
    }
    if !c.replaying() {
        for k in ["honest:positive", "honest:wildcard", "honest:nodata", "honest:nodata-ent", "honest:nodata-wildcard", "honest:nxdomain", "honest:cname", "damaged:corrupt-signature", "damaged:drop-proof", "damaged:expired", "upstream:corrupt-signature", "upstream:servfail", "rollover_withdrawn_key_refused", "expired_after_first_validation_refused", "replayed_wildcards_rejected", "forged_denials_rejected", "forged_denials_below_an_apex_dname_rejected", "context_reuse_cases", "client_transport_responses", "client_transport_ad_set_after_validation", "client_transport_upstream_ad_claim_with_cd_request"] {
            c.floor(k, 3);
        }
    }
    let _ = (SecurityAlgorithm::ED25519, T_DS);
}
