//! C15 — client transports deliver each answer to its own request, exactly once.
//!
//! Mock datagram sockets and duplex streams under the paused tokio clock; a scripted peer that
//! reorders, delays, duplicates, drops, corrupts, answers with wrong IDs or other questions,
//! sends garbage and closes connections. Every request has a unique query name, so a response
//! names the request it answers; the peer logs every (wire ID, query name) it has seen.
use crate::ctx::{self, hex, Ctx};
use crate::refimpl::wire as w;
use crate::rng::Rng;
use bytes::Bytes;
use domain::base::iana::Rtype;
use domain::base::message::Message;
use domain::base::message_builder::MessageBuilder;
use domain::base::name::Name;
use domain::net::client::protocol::{AsyncConnect, AsyncDgramRecv, AsyncDgramSend};
use domain::net::client::request::{Error as ClientError, RequestMessage, SendRequest};
use domain::net::client::{dgram, dgram_stream, load_balancer, multi_stream, redundant, stream};
use serde_json::json;
use std::collections::{BTreeMap, HashMap};
use std::future::{ready, Ready};
use std::io;
use std::pin::Pin;
use std::sync::atomic::{AtomicU64, Ordering};
use std::sync::{Arc, Mutex};
use std::task::{Context, Poll};
use std::time::Duration;
use tokio::io::{AsyncReadExt, AsyncWriteExt, DuplexStream, ReadBuf};
use tokio::sync::mpsc;

#[derive(Clone, Copy, Debug, PartialEq, Eq)]
enum Kind {
    Good,
    WrongId,
    WrongQuestion,
    NotResponse,
    Garbage,
    Short,
    HeaderOnlyError,
    HeaderOnlyErrorWrongId,
    /// the request's ID, QR set, NOERROR, no question at all - and an answer record for some other name
    Questionless,
    Truncated,
    TruncatedWithAnswer,
    Foreign,
    Close,
    CaseChanged,
}

#[derive(Clone, Copy, Debug)]
struct Act {
    delay_ms: u64,
    kind: Kind,
}

/// What the peer does with the n-th transmission of a request.
type Script = Vec<Vec<Act>>;

struct PeerInner {
    /// (wire id, qname lower-case, transport)
    seen: Vec<(u16, Vec<u8>, &'static str)>,
    scripts: HashMap<Vec<u8>, Script>,
    attempts: HashMap<Vec<u8>, usize>,
    /// recent requests on any path, for "foreign" answers
    recent: Vec<Vec<u8>>,
    sent: BTreeMap<&'static str, u64>,
    connects: u64,
    refuse_stream_connects: u64,
    /// from this connect on (1-based; 0: never) a stream connect takes this long
    slow_connect_from: u64,
    slow_connect_ms: u64,
    /// when the first copy of each request reached the peer (virtual clock)
    first_seen: HashMap<Vec<u8>, tokio::time::Instant>,
}

struct Peer {
    inner: Mutex<PeerInner>,
    rng: Mutex<Rng>,
    /// capacity of the in-memory pipe of a stream connection: small ones make every frame go
    /// out in several partial writes
    pipe: usize,
    /// an honest peer that answers in one go and hangs up: once this many requests have arrived on a stream connection,
    /// all their answers are written with a single write and the connection is closed (0: off)
    burst_after: usize,
}

fn kind_name(k: Kind) -> &'static str {
    match k {
        Kind::Good => "good",
        Kind::WrongId => "wrong-id",
        Kind::WrongQuestion => "wrong-question",
        Kind::NotResponse => "qr-clear",
        Kind::Garbage => "garbage",
        Kind::Short => "short",
        Kind::HeaderOnlyError => "header-only-error",
        Kind::HeaderOnlyErrorWrongId => "header-only-error-wrong-id",
        Kind::Questionless => "questionless-answer",
        Kind::Truncated => "truncated",
        Kind::TruncatedWithAnswer => "truncated-with-answer",
        Kind::Foreign => "foreign-answer",
        Kind::Close => "close",
        Kind::CaseChanged => "case-changed",
    }
}

/// The reply of `kind` to request `req` (wire). `via` marks the path in the answer's address.
fn reply(rng: &mut Rng, req: &[u8], kind: Kind, via: u8, foreign: Option<&[u8]>) -> Option<Vec<u8>> {
    let base = match (kind, foreign) {
        (Kind::Foreign, Some(f)) => f,
        (Kind::Foreign, None) => return None,
        _ => req,
    };
    let pm = w::parse_message(base).ok()?;
    let q = pm.questions.first()?.clone();
    let mut id = pm.id;
    let mut flags = 0x8180u16 | (pm.flags & 0x0100);
    let mut qname = q.name.clone();
    match kind {
        Kind::WrongId | Kind::HeaderOnlyErrorWrongId => id = id.wrapping_add(1 + (rng.u16() % 1000)),
        Kind::WrongQuestion => {
            let p = 1 + rng.below(qname[0] as usize);
            qname[p] = if qname[p] == b'x' { b'y' } else { b'x' };
        }
        Kind::NotResponse => flags &= 0x7fff,
        Kind::Truncated | Kind::TruncatedWithAnswer => flags |= 0x0200,
        Kind::CaseChanged => {
            for b in qname.iter_mut() {
                if b.is_ascii_lowercase() && rng.bool() {
                    *b = b.to_ascii_uppercase();
                }
            }
        }
        Kind::Garbage => return Some(rng.bytes(rng.clone().range(12, 60))),
        Kind::Short => return Some(rng.bytes(rng.clone().range(0, 11))),
        _ => {}
    }
    if matches!(kind, Kind::HeaderOnlyError | Kind::HeaderOnlyErrorWrongId) {
        return Some(w::header(id, 0x8182, [0, 0, 0, 0]));
    }
    if kind == Kind::Questionless {
        let mut m = w::header(id, flags, [0, 1, 0, 0]);
        m.extend(w::compose_record(b"\x05other\x04name\x00", 1, 1, 60, &[10, 9, 9, via]));
        return Some(m);
    }
    let with_answer = kind != Kind::Truncated;
    let mut m = w::header(id, flags, [1, with_answer as u16, 0, 0]);
    m.extend_from_slice(&qname);
    m.extend_from_slice(&q.qtype.to_be_bytes());
    m.extend_from_slice(&q.qclass.to_be_bytes());
    if with_answer {
        m.extend(w::compose_record(&qname, 1, 1, 60, &[10, 0, 0, via]));
    }
    Some(m)
}

impl Peer {
    /// A request arrived on `path`; returns what to send back and when.
    fn on_request(&self, path: &'static str, req: &[u8]) -> Vec<(u64, Kind, Option<Vec<u8>>)> {
        let mut g = self.inner.lock().unwrap();
        let Ok(pm) = w::parse_message(req) else { return vec![] };
        let Some(q) = pm.questions.first() else { return vec![] };
        let name = w::lower(&q.name);
        g.seen.push((pm.id, name.clone(), path));
        g.first_seen.entry(name.clone()).or_insert_with(tokio::time::Instant::now);
        let n = *g.attempts.entry(name.clone()).and_modify(|a| *a += 1).or_insert(0);
        let acts: Vec<Act> = g.scripts.get(&name).and_then(|s| s.get(n)).cloned().unwrap_or_else(|| vec![Act { delay_ms: 1, kind: Kind::Good }]);
        let foreign = if g.recent.len() > 1 { Some(g.recent[g.recent.len() - 2].clone()) } else { None };
        g.recent.push(req.to_vec());
        if g.recent.len() > 8 {
            g.recent.remove(0);
        }
        let mut rng = self.rng.lock().unwrap();
        let via = if path == "dgram" { 1 } else { 2 };
        let mut out = Vec::new();
        for a in acts {
            *g.sent.entry(kind_name(a.kind)).or_insert(0) += 1;
            if a.kind == Kind::Close {
                out.push((a.delay_ms, a.kind, None));
            } else if let Some(m) = reply(&mut rng, req, a.kind, via, foreign.as_deref()) {
                out.push((a.delay_ms, a.kind, Some(m)));
            }
        }
        out
    }
}

// ------------------------------------------------------------- datagrams ----

#[derive(Clone)]
struct DgConnect {
    peer: Arc<Peer>,
}

impl std::fmt::Debug for DgConnect {
    fn fmt(&self, f: &mut std::fmt::Formatter<'_>) -> std::fmt::Result {
        f.write_str("DgConnect")
    }
}

struct DgSock {
    peer: Arc<Peer>,
    tx: mpsc::UnboundedSender<Vec<u8>>,
    rx: Mutex<mpsc::UnboundedReceiver<Vec<u8>>>,
}

impl AsyncConnect for DgConnect {
    type Connection = DgSock;
    type Fut = Ready<Result<DgSock, io::Error>>;
    fn connect(&self) -> Self::Fut {
        self.peer.inner.lock().unwrap().connects += 1;
        let (tx, rx) = mpsc::unbounded_channel();
        ready(Ok(DgSock { peer: self.peer.clone(), tx, rx: Mutex::new(rx) }))
    }
}

impl AsyncDgramSend for DgSock {
    fn poll_send(&self, _cx: &mut Context<'_>, buf: &[u8]) -> Poll<Result<usize, io::Error>> {
        let todo = self.peer.on_request("dgram", buf);
        for (delay, _k, m) in todo {
            let Some(m) = m else { continue };
            let tx = self.tx.clone();
            tokio::spawn(async move {
                tokio::time::sleep(Duration::from_millis(delay)).await;
                let _ = tx.send(m);
            });
        }
        Poll::Ready(Ok(buf.len()))
    }
}

impl AsyncDgramRecv for DgSock {
    fn poll_recv(&self, cx: &mut Context<'_>, buf: &mut ReadBuf<'_>) -> Poll<Result<(), io::Error>> {
        let mut rx = self.rx.lock().unwrap();
        match rx.poll_recv(cx) {
            Poll::Ready(Some(m)) => {
                let n = m.len().min(buf.remaining());
                buf.put_slice(&m[..n]);
                Poll::Ready(Ok(()))
            }
            Poll::Ready(None) => Poll::Pending,
            Poll::Pending => Poll::Pending,
        }
    }
}

// --------------------------------------------------------------- streams ----

#[derive(Clone)]
struct StConnect {
    peer: Arc<Peer>,
}

impl std::fmt::Debug for StConnect {
    fn fmt(&self, f: &mut std::fmt::Formatter<'_>) -> std::fmt::Result {
        f.write_str("StConnect")
    }
}

/// The peer's side of one stream connection.
async fn serve_stream(peer: Arc<Peer>, server: DuplexStream) {
    let (mut rd, wr) = tokio::io::split(server);
    let wr = Arc::new(tokio::sync::Mutex::new(Some(wr)));
    let closed = Arc::new(tokio::sync::Notify::new());
    if peer.burst_after > 0 {
        let mut out = Vec::new();
        let mut got = 0;
        while got < peer.burst_after {
            let mut lenb = [0u8; 2];
            if rd.read_exact(&mut lenb).await.is_err() {
                return;
            }
            let mut req = vec![0u8; u16::from_be_bytes(lenb) as usize];
            if rd.read_exact(&mut req).await.is_err() {
                return;
            }
            for (_, _, m) in peer.on_request("stream", &req) {
                if let Some(m) = m {
                    out.extend_from_slice(&(m.len() as u16).to_be_bytes());
                    out.extend_from_slice(&m);
                }
            }
            got += 1;
        }
        let mut g = wr.lock().await;
        if let Some(mut w_) = g.take() {
            let _ = w_.write_all(&out).await;
            let _ = w_.shutdown().await;
        }
        return;
    }
    loop {
        let mut lenb = [0u8; 2];
        let r = tokio::select! {
            r = rd.read_exact(&mut lenb) => r,
            _ = closed.notified() => break,
        };
        if r.is_err() {
            break;
        }
        let len = u16::from_be_bytes(lenb) as usize;
        let mut req = vec![0u8; len];
        if rd.read_exact(&mut req).await.is_err() {
            break;
        }
        let todo = peer.on_request("stream", &req);
        for (delay, kind, m) in todo {
            let wr = wr.clone();
            let closed = closed.clone();
            let mid_frame = peer.rng.lock().unwrap().chance(1, 3);
            tokio::spawn(async move {
                tokio::time::sleep(Duration::from_millis(delay)).await;
                let mut g = wr.lock().await;
                match (kind, m) {
                    (Kind::Close, _) => {
                        if let Some(mut w_) = g.take() {
                            if mid_frame {
                                // a length prefix promising more than will ever come
                                let _ = w_.write_all(&[0, 40, 1, 2, 3]).await;
                            }
                            let _ = w_.shutdown().await;
                        }
                        closed.notify_one();
                    }
                    (_, Some(m)) => {
                        if let Some(w_) = g.as_mut() {
                            let mut f = (m.len() as u16).to_be_bytes().to_vec();
                            f.extend_from_slice(&m);
                            let _ = w_.write_all(&f).await;
                        }
                    }
                    _ => {}
                }
            });
        }
    }
}

impl AsyncConnect for StConnect {
    type Connection = DuplexStream;
    type Fut = Pin<Box<dyn std::future::Future<Output = Result<DuplexStream, io::Error>> + Send + Sync>>;
    fn connect(&self) -> Self::Fut {
        let peer = self.peer.clone();
        Box::pin(async move {
            let slow = {
                let mut g = peer.inner.lock().unwrap();
                g.connects += 1;
                if g.slow_connect_from > 0 && g.connects >= g.slow_connect_from { g.slow_connect_ms } else { 0 }
            };
            if slow > 0 {
                tokio::time::sleep(Duration::from_millis(slow)).await;
            }
            {
                let mut g = peer.inner.lock().unwrap();
                if g.refuse_stream_connects > 0 {
                    g.refuse_stream_connects -= 1;
                    return Err(io::Error::new(io::ErrorKind::ConnectionRefused, "refused"));
                }
            }
            let (client, server) = tokio::io::duplex(peer.pipe);
            tokio::spawn(serve_stream(peer, server));
            Ok(client)
        })
    }
}

// ----------------------------------------------------------------- cases ----

fn gen_script(rng: &mut Rng, path_has_stream: bool, dgram: bool) -> Script {
    let attempts = rng.range(1, 3);
    let mut s = Vec::new();
    for a in 0..attempts {
        let mut acts = Vec::new();
        let noise = rng.below(3);
        for _ in 0..noise {
            let kind = *rng.pick(&[Kind::WrongId, Kind::WrongQuestion, Kind::NotResponse, Kind::Garbage, Kind::Short, Kind::Foreign, Kind::HeaderOnlyErrorWrongId, Kind::Questionless]);
            acts.push(Act { delay_ms: if rng.chance(1, 3) { rng.range(400, 1950) } else { rng.range(0, 400) } as u64, kind });
        }
        let fin = match rng.below(12) {
            0 => None, // nothing more: lost
            1 => Some(Act { delay_ms: rng.range(2500, 9000) as u64, kind: Kind::Good }), // late
            2 => Some(Act { delay_ms: rng.range(0, 300) as u64, kind: Kind::HeaderOnlyError }),
            3 if dgram => Some(Act { delay_ms: rng.range(0, 300) as u64, kind: if rng.bool() { Kind::Truncated } else { Kind::TruncatedWithAnswer } }),
            4 if path_has_stream && !dgram => Some(Act { delay_ms: rng.range(0, 600) as u64, kind: Kind::Close }),
            5 => Some(Act { delay_ms: rng.range(0, 300) as u64, kind: Kind::CaseChanged }),
            _ => Some(Act { delay_ms: rng.range(0, 900) as u64, kind: Kind::Good }),
        };
        if let Some(f) = fin {
            acts.push(f);
            if rng.chance(1, 5) {
                // a duplicate of the real answer, possibly much later (it may meet a recycled ID)
                acts.push(Act { delay_ms: f.delay_ms + rng.range(0, 6000) as u64, kind: Kind::Good });
            }
        }
        let _ = a;
        s.push(acts);
    }
    s
}

fn mk_request(qname: &[u8]) -> RequestMessage<Vec<u8>> {
    let mut mb = MessageBuilder::new_vec();
    mb.header_mut().set_rd(true);
    let mut q = mb.question();
    q.push((Name::<Vec<u8>>::from_octets(qname.to_vec()).unwrap(), Rtype::A)).unwrap();
    RequestMessage::new(q.into_message()).unwrap()
}

type Conn = Box<dyn SendRequest<RequestMessage<Vec<u8>>> + Send + Sync>;

struct Setup {
    conn: Conn,
    /// generous bound on the virtual time one request may take
    budget: Duration,
    has_stream: bool,
    has_dgram: bool,
    resp_timeout: Duration,
    /// (1 + retries) * read timeout of the datagram transport
    dg_budget: Duration,
    /// the task that adds the upstreams of a load balancer / redundant transport: requests wait for it
    /// (a request that comes before the first upstream is a case of its own, see no_upstream_case)
    ready: Option<tokio::task::JoinHandle<()>>,
}

fn build(transport: &str, peer: &Arc<Peer>, rng: &mut Rng, scale: u64) -> Setup {
    let read_timeout = Duration::from_millis(*rng.pick(&[1000u64, 1500, 2000]) / scale);
    let retries = rng.below(3) as u8;
    let resp_timeout = Duration::from_millis(*rng.pick(&[1000u64, 2000, 3000]) / scale);
    let mut dc = dgram::Config::new();
    dc.set_read_timeout(read_timeout);
    dc.set_max_retries(retries);
    dc.set_max_parallel(*rng.pick(&[1usize, 2, 100]));
    let mut sc = stream::Config::new();
    sc.set_response_timeout(resp_timeout);
    let mut mc = multi_stream::Config::default();
    mc.set_response_timeout(resp_timeout);
    let dg_budget = read_timeout * (retries as u32 + 1);
    match transport {
        "dgram" => Setup { conn: Box::new(dgram::Connection::with_config(DgConnect { peer: peer.clone() }, dc)), budget: dg_budget * 110, has_stream: false, has_dgram: true, resp_timeout, dg_budget, ready: None },
        "stream" => {
            let (client, server) = tokio::io::duplex(peer.pipe);
            tokio::spawn(serve_stream(peer.clone(), server));
            let (conn, tr) = stream::Connection::<RequestMessage<Vec<u8>>, domain::net::client::request::RequestMessageMulti<Vec<u8>>>::with_config(client, sc);
            tokio::spawn(tr.run());
            Setup { conn: Box::new(conn), budget: resp_timeout * 4, has_stream: true, has_dgram: false, resp_timeout, dg_budget, ready: None }
        }
        "multi_stream" => {
            let (conn, tr) = multi_stream::Connection::with_config(StConnect { peer: peer.clone() }, mc);
            tokio::spawn(tr.run());
            Setup { conn: Box::new(conn), budget: resp_timeout * 8, has_stream: true, has_dgram: false, resp_timeout, dg_budget, ready: None }
        }
        "dgram_stream" => {
            let mut c = dgram_stream::Config::new();
            c.set_dgram(dc);
            c.set_stream(mc);
            let (conn, tr) = dgram_stream::Connection::with_config(DgConnect { peer: peer.clone() }, StConnect { peer: peer.clone() }, c);
            tokio::spawn(tr.run());
            Setup { conn: Box::new(conn), budget: dg_budget * 110 + resp_timeout * 8, has_stream: true, has_dgram: true, resp_timeout, dg_budget, ready: None }
        }
        "redundant" => {
            let (conn, tr) = redundant::Connection::new();
            tokio::spawn(tr.run());
            let c1 = dgram::Connection::with_config(DgConnect { peer: peer.clone() }, dc.clone());
            let (c2, tr2) = multi_stream::Connection::with_config(StConnect { peer: peer.clone() }, mc);
            tokio::spawn(tr2.run());
            let conn2 = conn.clone();
            let ready = tokio::spawn(async move {
                let _ = conn2.add(Box::new(c1)).await;
                let _ = conn2.add(Box::new(c2)).await;
            });
            Setup { conn: Box::new(conn), budget: dg_budget * 110 + resp_timeout * 8, has_stream: true, has_dgram: true, resp_timeout, dg_budget, ready: Some(ready) }
        }
        _ => {
            let (conn, tr) = load_balancer::Connection::new();
            tokio::spawn(tr.run());
            let c1 = dgram::Connection::with_config(DgConnect { peer: peer.clone() }, dc.clone());
            let c2 = dgram::Connection::with_config(DgConnect { peer: peer.clone() }, dc);
            let conn2 = conn.clone();
            let ready = tokio::spawn(async move {
                let cc = load_balancer::ConnConfig::new();
                let _ = conn2.add("a", &cc, Box::new(c1)).await;
                let _ = conn2.add("b", &cc, Box::new(c2)).await;
            });
            Setup { conn: Box::new(conn), budget: dg_budget * 220, has_stream: false, has_dgram: true, resp_timeout, dg_budget, ready: Some(ready) }
        }
    }
}

#[derive(Debug)]
struct Done {
    k: usize,
    qname: Vec<u8>,
    result: Result<Vec<u8>, String>,
    elapsed: Duration,
    timed_out: bool,
    done_at: tokio::time::Instant,
}

/// A connection attempt that takes long must not hold up the connections that exist (multiplexed stream
/// transport): request A is in flight on the first connection, answered by the peer after a moment; request B fails
/// on its own (it is longer than a stream message can be) and makes the transport open another connection, whose
/// connect takes half a minute. A's answer has arrived meanwhile: A completes with it, in time.
fn slow_connect_case(c: &mut Ctx, fam: &str, idx: u64) {
    let mut rng = c.case_rng(fam, idx);
    let mk = |l: String| {
        let mut v = vec![l.len() as u8];
        v.extend_from_slice(l.as_bytes());
        v.extend_from_slice(b"\x04test\x00");
        v
    };
    let n_a = rng.range(1, 4);
    let names: Vec<Vec<u8>> = (0..n_a).map(|k| mk(format!("a{}s{}", k, idx))).collect();
    let answer_after: Vec<u64> = (0..n_a).map(|_| rng.range(300, 1500) as u64).collect();
    let mut scripts = HashMap::new();
    for (nm, d) in names.iter().zip(&answer_after) {
        scripts.insert(w::lower(nm), vec![vec![Act { delay_ms: *d, kind: Kind::Good }]]);
    }
    let connect_ms = rng.range(20_000, 40_000) as u64;
    let peer = Arc::new(Peer { inner: Mutex::new(PeerInner { seen: vec![], scripts, attempts: HashMap::new(), recent: vec![], sent: BTreeMap::new(), connects: 0, refuse_stream_connects: 0, slow_connect_from: 2, slow_connect_ms: connect_ms, first_seen: HashMap::new() }), rng: Mutex::new(Rng::new(&[c.seed, idx, 16])), pipe: 1 << 16, burst_after: 0 });
    let rt = tokio::runtime::Builder::new_current_thread().enable_all().start_paused(true).build().unwrap();
    let peer2 = peer.clone();
    let names2 = names.clone();
    let big_after = rng.range(20, 200) as u64;
    let ex = json!({"requests_in_flight": n_a, "answered_after_ms": answer_after, "second_connect_takes_ms": connect_ms, "oversized_request_after_ms": big_after});
    let res = ctx::catch(|| {
        rt.block_on(async move {
            let mut mc = multi_stream::Config::default();
            mc.set_response_timeout(Duration::from_secs(10));
            let (conn, tr) = multi_stream::Connection::with_config(StConnect { peer: peer2.clone() }, mc);
            tokio::spawn(tr.run());
            let conn = Arc::new(conn);
            let mut hs = Vec::new();
            for qn in names2.iter() {
                let conn = conn.clone();
                let qn = qn.clone();
                hs.push(tokio::spawn(async move {
                    let t0 = tokio::time::Instant::now();
                    let mut gr = conn.send_request(mk_request(&qn));
                    let r = tokio::time::timeout(Duration::from_secs(120), gr.get_response()).await;
                    (t0.elapsed(), r.map(|x| x.map(|m| m.as_slice().to_vec()).map_err(|e| format!("{}", e))).map_err(|_| ()))
                }));
            }
            // the oversized request: more than 65535 octets of message
            let connb = conn.clone();
            let hb = tokio::spawn(async move {
                tokio::time::sleep(Duration::from_millis(big_after)).await;
                let mut mb = MessageBuilder::new_vec();
                let mut q = mb.question();
                q.push((Name::<Vec<u8>>::from_octets(b"\x03big\x04test\x00".to_vec()).unwrap(), Rtype::A)).unwrap();
                let mut ad = q.additional();
                for i in 0..300u32 {
                    let rd = domain::base::rdata::UnknownRecordData::from_octets(Rtype::from_int(65280), vec![(i & 0xff) as u8; 250]).unwrap();
                    ad.push((Name::<Vec<u8>>::root_vec(), domain::base::iana::Class::IN, domain::base::Ttl::from_secs(0), rd)).unwrap();
                }
                let Ok(rm) = RequestMessage::new(ad.into_message()) else { return None };
                let mut gr = connb.send_request(rm);
                Some(tokio::time::timeout(Duration::from_secs(300), gr.get_response()).await.map(|r| r.is_ok()))
            });
            let mut out = Vec::new();
            for h in hs {
                out.push(h.await.ok());
            }
            let b = hb.await.ok().flatten();
            (out, b)
        })
    });
    drop(rt);
    let (out, b) = match res {
        Ok(x) => x,
        Err(pi) => {
            c.violation(&format!("panic:{}", pi.site()), &format!("panic in the multi_stream client transport: {} at {}:{}", pi.msg, pi.file, pi.line), c.replay_of(fam, idx, ex));
            return;
        }
    };
    let connects = peer.inner.lock().unwrap().connects;
    c.eval(&("slow-connect", n_a, connects.min(3), b.as_ref().map(|x| x.is_ok())));
    if connects >= 2 {
        c.count("slow_connect_cases_with_a_second_connect_pending", 1);
    }
    match b {
        Some(Ok(true)) => {
            c.violation("oversized-request-answered", "a request of more than 65535 octets over a stream transport got a response", c.replay_of(fam, idx, ex));
            return;
        }
        Some(Err(_)) => {
            c.violation("never-completes:multi_stream:oversized-request", "a request of more than 65535 octets never completed (300 s)", c.replay_of(fam, idx, ex));
            return;
        }
        _ => {}
    }
    for (k, o) in out.iter().enumerate() {
        match o {
            Some((el, Ok(Ok(m)))) => {
                let ok = w::parse_message(m).map(|pm| pm.questions.first().map(|q| w::lower(&q.name)) == Some(w::lower(&names[k]))).unwrap_or(false);
                if !ok {
                    c.violation("other-question:multi_stream", "a request in flight got another request's answer while a new connection was being set up", c.replay_of(fam, idx, ex));
                    return;
                }
                // the peer answered after answer_after[k] ms; the response timeout is 10 s
                if el.as_millis() as u64 > answer_after[k] + 5_000 {
                    c.violation("completes-late:multi_stream:while-connecting", &format!("a request answered by the peer after {} ms completed after {} ms: the connection that carried it was not served while another connect ({} ms) was pending", answer_after[k], el.as_millis(), connect_ms), c.replay_of(fam, idx, ex));
                    return;
                }
                c.count("slow_connect_requests_answered_in_time", 1);
            }
            Some((el, Ok(Err(e)))) => {
                c.violation("honest-answer-lost:multi_stream:while-connecting", &format!("a request answered by the peer after {} ms failed after {} ms with {}: the connection that carried it was not served while another connect ({} ms) was pending", answer_after[k], el.as_millis(), e, connect_ms), c.replay_of(fam, idx, ex));
                return;
            }
            _ => {
                c.violation("never-completes:multi_stream:while-connecting", "a request in flight never completed (120 s) while another connect was pending", c.replay_of(fam, idx, ex));
                return;
            }
        }
    }
}

/// The transports that spread requests over others (load balancer, redundant) asked before any upstream was added, or
/// after: whatever they hand out is a response to this request - QR set, its ID, its question - or an error.
fn no_upstream_case(c: &mut Ctx, fam: &str, idx: u64) {
    let which = if idx % 2 == 0 { "load_balancer" } else { "redundant" };
    let rt = tokio::runtime::Builder::new_current_thread().enable_all().start_paused(true).build().unwrap();
    let qn = {
        let l = format!("n{}", idx);
        let mut v = vec![l.len() as u8];
        v.extend_from_slice(l.as_bytes());
        v.extend_from_slice(b"\x04test\x00");
        v
    };
    let qn2 = qn.clone();
    let res = ctx::catch(|| {
        rt.block_on(async move {
            let conn: Conn = if which == "load_balancer" {
                let (conn, tr) = load_balancer::Connection::new();
                tokio::spawn(tr.run());
                Box::new(conn)
            } else {
                let (conn, tr) = redundant::Connection::new();
                tokio::spawn(tr.run());
                Box::new(conn)
            };
            let mut gr = conn.send_request(mk_request(&qn2));
            tokio::time::timeout(Duration::from_secs(600), gr.get_response()).await.map(|r| r.map(|m| m.as_slice().to_vec()).map_err(|e| format!("{}", e)))
        })
    });
    drop(rt);
    let ex = json!({"transport": which, "upstreams": 0});
    c.eval(&("no-upstream", which));
    match res {
        Err(pi) => c.violation(&format!("panic:{}", pi.site()), &format!("panic in the {} client transport without upstreams: {} at {}:{}", which, pi.msg, pi.file, pi.line), c.replay_of(fam, idx, ex)),
        Ok(Err(_)) => c.violation(&format!("never-completes:{}:no-upstream", which), "a request to a transport without upstreams never completed (600 s)", c.replay_of(fam, idx, ex)),
        Ok(Ok(Err(_))) => c.count("no_upstream_requests_failed", 1),
        Ok(Ok(Ok(m))) => {
            let ok = w::parse_message(&m).map(|pm| pm.flags & 0x8000 != 0 && pm.flags & 0xf != 0 && pm.questions.first().map(|q| w::lower(&q.name)) == Some(w::lower(&qn))).unwrap_or(false);
            if !ok {
                let sig = if m.len() > 2 && m[2] & 0x80 == 0 { format!("not-a-response:{}", which) } else { format!("made-up-answer:{}:no-upstream", which) };
                c.violation(&sig, &format!("a {} transport without any upstream hands its caller {} - no response to the request (QR set, an error code, its question)", which, hex(&m[..m.len().min(60)])), c.replay_of(fam, idx, ex));
            } else {
                c.count("no_upstream_error_responses", 1);
            }
        }
    }
}

/// Configuration values at the ends of their ranges (the setters clamp, the arithmetic behind them has to cope with
/// what they let through): an honest peer, one request, every extreme in turn - the request succeeds.
fn config_extremes_case(c: &mut Ctx, fam: &str, idx: u64) {
    let retries = [0u8, 1, 100, 254, 255][(idx % 5) as usize];
    let read_ms = [1u64, 1000, 3_600_000, u64::MAX / 4][((idx / 5) % 4) as usize];
    let parallel = [1usize, 2, usize::MAX][((idx / 20) % 3) as usize];
    let payload = [None, Some(512u16), Some(65535)][((idx / 60) % 3) as usize];
    let qn = {
        let l = format!("x{}", idx);
        let mut v = vec![l.len() as u8];
        v.extend_from_slice(l.as_bytes());
        v.extend_from_slice(b"\x04test\x00");
        v
    };
    let mut scripts = HashMap::new();
    scripts.insert(w::lower(&qn), vec![vec![Act { delay_ms: 0, kind: Kind::Good }]]);
    let peer = Arc::new(Peer { inner: Mutex::new(PeerInner { seen: vec![], scripts, attempts: HashMap::new(), recent: vec![], sent: BTreeMap::new(), connects: 0, refuse_stream_connects: 0, slow_connect_from: 0, slow_connect_ms: 0, first_seen: HashMap::new() }), rng: Mutex::new(Rng::new(&[c.seed, idx, 17])), pipe: 1 << 16, burst_after: 0 });
    let rt = tokio::runtime::Builder::new_current_thread().enable_all().start_paused(true).build().unwrap();
    let peer2 = peer.clone();
    let qn2 = qn.clone();
    let ex = json!({"transport": "dgram", "max_retries": retries, "read_timeout_ms": read_ms, "max_parallel": parallel, "udp_payload_size": payload});
    let res = ctx::catch(|| {
        rt.block_on(async move {
            let mut dc = dgram::Config::new();
            dc.set_max_retries(retries);
            dc.set_read_timeout(Duration::from_millis(read_ms));
            dc.set_max_parallel(parallel);
            dc.set_udp_payload_size(payload);
            let conn = dgram::Connection::with_config(DgConnect { peer: peer2.clone() }, dc);
            let mut gr = conn.send_request(mk_request(&qn2));
            tokio::time::timeout(Duration::from_secs(30), gr.get_response()).await.map(|r| r.map(|m| m.as_slice().to_vec()).map_err(|e| format!("{}", e)))
        })
    });
    drop(rt);
    c.eval(&("config-extremes", retries, read_ms, parallel, payload));
    let _ = ctx::take_any_panic().map(|pi| c.violation(&format!("panic:{}", pi.site()), &format!("a task of the datagram transport panicked under an extreme configuration: {} at {}:{}", pi.msg, pi.file, pi.line), c.replay_of(fam, idx, ex.clone())));
    match res {
        Err(pi) => c.violation(&format!("panic:{}", pi.site()), &format!("panic in the datagram client transport under an extreme configuration: {} at {}:{}", pi.msg, pi.file, pi.line), c.replay_of(fam, idx, ex)),
        Ok(Ok(Ok(m))) if w::parse_message(&m).map(|pm| pm.questions.first().map(|q| w::lower(&q.name)) == Some(w::lower(&qn))).unwrap_or(false) => c.count("config_extremes_answered", 1),
        Ok(other) => c.violation("honest-answer-lost:dgram:extreme-configuration", &format!("an honest peer answers at once, the request ends with {:?}", other.map(|r| r.map(|m| m.len()))), c.replay_of(fam, idx, ex)),
    }
}

const TRANSPORTS: [&str; 6] = ["dgram", "stream", "multi_stream", "dgram_stream", "redundant", "load_balancer"];

fn one_case(c: &mut Ctx, fam: &str, idx: u64, threads: bool) {
    let mut rng = c.case_rng(fam, idx);
    let transport = if threads { TRANSPORTS[(idx % 6) as usize] } else if idx % 20 == 1 { "stream" } else { ["dgram", "multi_stream", "dgram_stream", "redundant", "load_balancer"][(idx % 5) as usize] };
    let n = match rng.below(4) {
        0 => rng.range(1, 3),
        1 => rng.range(20, 60),
        _ => rng.range(3, 16),
    };
    // a silent peer under a trickle of requests (plain stream transport, real time): one request every half response timeout
    let trickle = transport == "stream" && idx % 60 == 1 && !threads;
    let n = if trickle { rng.range(12, 18) } else { n };
    // a connection that is used again after it has been idle (plain stream transport, real time): a few requests
    // answered honestly, a pause shorter than the idle timeout, then ONE request the peer never answers
    let reuse = transport == "stream" && idx % 60 == 21 && !threads;
    let n = if reuse { rng.range(2, 5) } else { n };
    // an honest peer that waits for all requests of the case, answers them with one write and closes the connection
    // at once: every answer has arrived, every request has to get its own (plain stream transport)
    let burst = transport == "stream" && idx % 60 == 41 && !threads;
    let n = if burst { rng.range(2, 9) } else { n };
    // every fourth case the peer is honest: each request is answered once, correctly, in time, in any order
    // on real threads the peer is always honest: every request has to succeed, whatever the scheduler does
    let clean = (idx % 4 == 2 || threads) && !trickle && !reuse && !burst;
    let n = if threads { rng.range(20, 80) } else { n };
    let waves = if clean || trickle || reuse || burst { 1 } else { rng.range(1, 3) };
    let has_stream = matches!(transport, "stream" | "multi_stream" | "dgram_stream" | "redundant");
    let names: Vec<Vec<u8>> = (0..n)
        .map(|k| {
            let l = format!("r{}c{}", k, idx);
            let mut v = vec![l.len() as u8];
            v.extend_from_slice(l.as_bytes());
            v.extend_from_slice(b"\x04test\x00");
            v
        })
        .collect();
    let mut scripts = HashMap::new();
    for nm in &names {
        let mut sc = gen_script(&mut rng, has_stream, matches!(transport, "dgram" | "dgram_stream" | "load_balancer"));
        if clean {
            sc = vec![vec![Act { delay_ms: rng.range(0, 800) as u64, kind: Kind::Good }]];
        }
        if trickle {
            sc = vec![vec![], vec![], vec![]];
        }
        if burst {
            sc = vec![vec![Act { delay_ms: 0, kind: Kind::Good }]];
        }
        if reuse {
            sc = if nm == names.last().unwrap() { vec![vec![], vec![], vec![]] } else { vec![vec![Act { delay_ms: rng.range(0, 300) as u64, kind: Kind::Good }]] };
        }
        if transport == "stream" || threads {
            for a in sc.iter_mut().flat_map(|x| x.iter_mut()) {
                a.delay_ms /= 10;
            }
        }
        scripts.insert(w::lower(nm), sc);
    }
    let refuse = if !clean && matches!(transport, "multi_stream" | "dgram_stream" | "redundant") && rng.chance(1, 4) { rng.range(1, 3) as u64 } else { 0 };
    let peer = Arc::new(Peer { inner: Mutex::new(PeerInner { seen: vec![], scripts, attempts: HashMap::new(), recent: vec![], sent: BTreeMap::new(), connects: 0, refuse_stream_connects: refuse, slow_connect_from: 0, slow_connect_ms: 0, first_seen: HashMap::new() }), rng: Mutex::new(Rng::new(&[c.seed, idx, 15])), pipe: *rng.pick(&[8usize, 13, 64, 1 << 16, 1 << 16]), burst_after: if burst { n } else { 0 } });
    // net::client::stream measures its response timeout with std::time::Instant, which the paused tokio clock does not move:
    // the plain stream transport is exercised in real time, with every delay and timeout a tenth as long
    let real_time = transport == "stream" || threads;
    let scale: u64 = if real_time { 10 } else { 1 };
    let rt = if threads {
        tokio::runtime::Builder::new_multi_thread().worker_threads(4).enable_all().build().unwrap()
    } else {
        tokio::runtime::Builder::new_current_thread().enable_all().start_paused(!real_time).build().unwrap()
    };
    let peer2 = peer.clone();
    let names2 = names.clone();
    let mut rng2 = rng.fork();
    let hard = Arc::new(AtomicU64::new(0));
    let res = ctx::catch(|| {
        rt.block_on(async move {
            // (on real threads the timeouts stay at full length: only the peer's delays are short, so that a stall of the
            // machine is not taken for a lost answer)
            let mut setup = build(transport, &peer2, &mut rng2, if threads { 1 } else { scale });
            if let Some(h) = setup.ready.take() {
                let _ = h.await;
            }
            let conn = Arc::new(setup.conn);
            let budget = setup.budget;
            let mut handles = Vec::new();
            let mut out = Vec::new();
            let per_wave = names2.len().div_ceil(waves);
            for (k, qn) in names2.iter().enumerate() {
                if reuse && k + 1 == names2.len() {
                    // everything so far has been answered: the connection falls idle; it is used again well inside its idle timeout
                    for h in handles.drain(..) {
                        let h: tokio::task::JoinHandle<Done> = h;
                        if let Ok(d) = h.await {
                            out.push(d);
                        }
                    }
                    tokio::time::sleep(Duration::from_millis(rng2.range(50, 600) as u64)).await;
                }
                if k > 0 && k % per_wave == 0 {
                    // a pause longer than every timeout: slots are freed and reused afterwards
                    tokio::time::sleep(Duration::from_millis(rng2.range(3500, 12000) as u64 / scale)).await;
                }
                if trickle && k > 0 {
                    tokio::time::sleep(setup.resp_timeout / 2).await;
                }
                let conn = conn.clone();
                let qn = qn.clone();
                let stagger = if trickle { 0 } else { rng2.range(0, 50) as u64 };
                handles.push(tokio::spawn(async move {
                    tokio::time::sleep(Duration::from_millis(stagger)).await;
                    let t0 = tokio::time::Instant::now();
                    let mut gr = conn.send_request(mk_request(&qn));
                    let r = tokio::time::timeout(if scale > 1 { Duration::from_secs(40) } else { budget + Duration::from_secs(600) }, gr.get_response()).await;
                    let elapsed = t0.elapsed();
                    let done_at = tokio::time::Instant::now();
                    match r {
                        Ok(Ok(m)) => Done { k, qname: qn, result: Ok(m.as_slice().to_vec()), elapsed, timed_out: false, done_at },
                        Ok(Err(e)) => Done { k, qname: qn, result: Err(format!("{}", e)), elapsed, timed_out: false, done_at },
                        Err(_) => Done { k, qname: qn, result: Err("never completed".into()), elapsed, timed_out: true, done_at },
                    }
                }));
            }
            for h in handles {
                match h.await {
                    Ok(d) => out.push(d),
                    Err(e) => out.push(Done { k: usize::MAX, qname: vec![], result: Err(format!("task: {}", e)), elapsed: Duration::ZERO, timed_out: false, done_at: tokio::time::Instant::now() }),
                }
            }
            (out, budget, setup.has_stream, setup.resp_timeout, setup.dg_budget)
            
        })
    });
    let _ = hard;
    let ex = json!({"transport": transport, "requests": n, "waves": waves, "refused_connects": refuse});
    let (done, budget, _hs, resp_timeout, dg_budget) = match res {
        Ok(x) => x,
        Err(pi) => {
            c.violation(&format!("panic:{}", pi.site()), &format!("panic in the {} client transport: {} at {}:{}", transport, pi.msg, pi.file, pi.line), c.replay_of(fam, idx, ex));
            return;
        }
    };
    drop(rt);
    let g = peer.inner.lock().unwrap();
    for (k, v) in &g.sent {
        c.count(&format!("peer_sent:{}", k), *v);
    }
    // wire IDs per query name
    let mut ids: HashMap<Vec<u8>, Vec<u16>> = HashMap::new();
    for (id, name, _) in &g.seen {
        ids.entry(name.clone()).or_default().push(*id);
    }
    // the same ID used for two different requests at some time: a recycled ID
    let mut by_id: HashMap<u16, Vec<&Vec<u8>>> = HashMap::new();
    for (id, name, _) in &g.seen {
        let e = by_id.entry(*id).or_default();
        if !e.contains(&name) {
            e.push(name);
        }
    }
    let recycled = by_id.values().filter(|v| v.len() > 1).count();
    c.count("ids_used_for_more_than_one_request", recycled as u64);
    if std::env::var("DVERIF_DEBUG").is_ok() {
        for nm in &names {
            eprintln!("script {}: {:?}", w::name_text(nm), g.scripts.get(&w::lower(nm)));
        }
        for s_ in &g.seen {
            eprintln!("peer saw id={} {} via {}", s_.0, w::name_text(&s_.1), s_.2);
        }
        for d in &done {
            eprintln!("request {} -> {:?} after {:?} timed_out={}", d.k, d.result.as_ref().map(|m| hex(m)), d.elapsed, d.timed_out);
        }
    }
    let mut oks = 0;
    for d in &done {
        if d.k == usize::MAX {
            c.violation("request-task-died", &format!("a request task of the {} transport died: {:?}", transport, d.result), c.replay_of(fam, idx, ex.clone()));
            return;
        }
        let rp = |c: &Ctx, more: serde_json::Value| c.replay_of(fam, idx, json!({"ctx": ex, "request": d.k, "more": more}));
        if d.timed_out {
            c.violation(&format!("never-completes:{}", transport), &format!("request {} over {} neither returned nor failed within {:?}", d.k, transport, if real_time { Duration::from_secs(40) } else { budget + Duration::from_secs(600) }), rp(c, json!({})));
            return;
        }
        // in real time the machine's load is part of the latency: only an order of magnitude counts
        let allowed = if real_time { budget * 10 + Duration::from_secs(2) } else { budget };
        if trickle && d.elapsed > resp_timeout * 3 + Duration::from_secs(1) {
            c.violation("completes-late:stream:silent-peer-under-a-trickle-of-requests", &format!("request {} over the stream transport failed only after {:?}; the response timeout is {:?} and the peer never said a word (later requests must not keep earlier ones waiting)", d.k, d.elapsed, resp_timeout), rp(c, json!({})));
            return;
        }
        // the datagram transport on its own: from the moment the first copy of the request is out,
        // (1 + retries) read timeouts are all the time there is, whatever else arrives meanwhile
        if transport == "dgram" && !d.timed_out && !threads {
            if let Some(t1) = g.first_seen.get(&w::lower(&d.qname)) {
                let took = d.done_at.saturating_duration_since(*t1);
                if took > dg_budget + Duration::from_millis(20) {
                    c.violation("completes-late:dgram:beyond-retries-times-read-timeout", &format!("request {} over dgram completed {:?} after its first datagram went out; read timeout times attempts is {:?}", d.k, took, dg_budget), rp(c, json!({})));
                    return;
                }
                c.count("dgram_requests_within_tight_budget", 1);
            }
        }
        if reuse && d.k + 1 == n && d.elapsed > resp_timeout * 3 + Duration::from_secs(1) {
            c.violation("completes-late:stream:silent-peer-on-a-reused-connection", &format!("the one request sent over a stream connection that had fallen idle failed only after {:?}; the response timeout is {:?} and the peer never answered it", d.elapsed, resp_timeout), rp(c, json!({})));
            return;
        }
        if d.elapsed > allowed {
            c.violation(&format!("completes-late:{}", transport), &format!("request {} over {} completed after {:?}; the configured timeouts and retries add up to less than {:?}", d.k, transport, d.elapsed, budget), rp(c, json!({})));
            return;
        }
        match &d.result {
            Err(e) => {
                if burst {
                    c.violation("honest-peer-request-failed:stream:answers-in-one-burst-then-close", &format!("request {} of {} over one stream connection failed ({}) although the peer answered all of them, correctly, in one write before it closed the connection", d.k, n, e), rp(c, json!({})));
                    return;
                }
                if clean || (reuse && d.k + 1 < n) {
                    c.violation(&format!("honest-peer-request-failed:{}", transport), &format!("request {} of {} concurrent ones over {} failed ({}) although the peer answered every request once, correctly and within {} ms", d.k, n, transport, e, 800 / scale), rp(c, json!({})));
                    return;
                }
                c.count("requests_failed", 1);
                c.eval(&(transport, "err", e.chars().take(24).collect::<String>()));
            }
            Ok(m) => {
                oks += 1;
                let mine = ids.get(&w::lower(&d.qname)).cloned().unwrap_or_default();
                let Ok(pm) = w::parse_message(m) else {
                    c.violation(&format!("unparsable-answer:{}", transport), "the caller got a message that cannot be parsed", rp(c, json!({"message": hex(m)})));
                    return;
                };
                if pm.flags & 0x8000 == 0 {
                    c.violation(&format!("not-a-response:{}", transport), "the caller got a message without the QR bit", rp(c, json!({"message": hex(m)})));
                    return;
                }
                if !mine.contains(&pm.id) {
                    c.violation(&format!("foreign-id:{}", transport), &format!("the caller of request {} got a message with ID {} which was never used for its request (used: {:?})", d.k, pm.id, mine), rp(c, json!({"message": hex(m)})));
                    return;
                }
                if pm.counts[0] == 0 {
                    if pm.flags & 0xf == 0 || pm.counts[1] + pm.counts[2] + pm.counts[3] != 0 {
                        c.violation(&format!("questionless-answer:{}", transport), "the caller got a non-error message without question", rp(c, json!({"message": hex(m)})));
                        return;
                    }
                    c.count("header_only_errors_delivered", 1);
                } else {
                    let q = &pm.questions[0];
                    if pm.questions.len() != 1 || w::lower(&q.name) != w::lower(&d.qname) || q.qtype != 1 || q.qclass != 1 {
                        c.violation(&format!("other-question:{}", transport), &format!("the caller of request {} ({}) got an answer to {} TYPE{}", d.k, w::name_text(&d.qname), w::name_text(&q.name), q.qtype), rp(c, json!({"message": hex(m)})));
                        return;
                    }
                }
                if pm.flags & 0x0200 != 0 && matches!(transport, "dgram_stream") && refuse == 0 {
                    // was a stream answer possible? the stream script of this request decides; a truncated datagram handed
                    // to the caller although the stream path was never tried is the failure
                    let tried_stream = g.seen.iter().any(|(_, nme, p)| *p == "stream" && *nme == w::lower(&d.qname));
                    if !tried_stream {
                        c.violation("truncated-answer-not-retried-over-stream", &format!("request {} got a truncated datagram answer and the stream was never tried", d.k), rp(c, json!({"message": hex(m)})));
                        return;
                    }
                }
                if pm.flags & 0x0200 == 0 && transport == "dgram_stream" && g.seen.iter().any(|(_, nme, p)| *p == "stream" && *nme == w::lower(&d.qname)) {
                    c.count("tc_fallbacks_completed", 1);
                }
                c.eval(&(transport, "ok", pm.counts[0], pm.flags & 0x20f, (d.elapsed.as_millis() / 500).min(8) as u32, mine.len().min(4)));
            }
        }
    }
    c.count("requests_answered", oks);
    c.count(&format!("cases:{}", transport), 1);
    if trickle {
        c.count("trickle_cases", 1);
    }
    if reuse {
        c.count("reused_idle_connection_cases", 1);
    }
    if burst {
        c.count("burst_then_close_cases", 1);
    }
    if clean {
        c.count("honest_peer_cases", 1);
    }
    c.count("peer_requests_seen", g.seen.len() as u64);
    if c.want_sample() && idx % 13 == 0 {
        c.sample(json!({"transport": transport, "requests": n, "answered": oks, "peer_saw": g.seen.len(), "recycled_ids": recycled}));
    }
}


/// One stream connection used for a very long time: more requests than there are message IDs, a
/// few at a time, every one answered at once by an honest peer. All of them have to succeed: the
/// table of outstanding requests hands IDs out again and again, whatever the total.
fn long_connection_case(c: &mut Ctx, fam: &str, idx: u64) {
    let inflight = [1usize, 2, 3, 8, 1, 5, 16, 4][(idx % 8) as usize];
    let total: usize = 66_000 + (idx as usize % 7) * 300;
    let rt = tokio::runtime::Builder::new_current_thread().enable_all().build().unwrap();
    let res = ctx::catch(|| {
        rt.block_on(async move {
            let (client, server) = tokio::io::duplex(1 << 16);
            // the peer: echo every request as its answer
            tokio::spawn(async move {
                let (mut rd, mut wr) = tokio::io::split(server);
                loop {
                    let mut lenb = [0u8; 2];
                    if rd.read_exact(&mut lenb).await.is_err() {
                        break;
                    }
                    let mut req = vec![0u8; u16::from_be_bytes(lenb) as usize];
                    if rd.read_exact(&mut req).await.is_err() || req.len() < 12 {
                        break;
                    }
                    req[2] |= 0x80;
                    let mut f = (req.len() as u16).to_be_bytes().to_vec();
                    f.extend_from_slice(&req);
                    if wr.write_all(&f).await.is_err() {
                        break;
                    }
                }
            });
            let (conn, tr) = stream::Connection::<RequestMessage<Vec<u8>>, domain::net::client::request::RequestMessageMulti<Vec<u8>>>::new(client);
            tokio::spawn(tr.run());
            let conn = Arc::new(conn);
            let mut done = 0usize;
            let mut first_failure: Option<(usize, String)> = None;
            let mut max_id = 0u16;
            while done < total && first_failure.is_none() {
                let mut hs = Vec::new();
                for j in 0..inflight.min(total - done) {
                    let k = done + j;
                    let l = format!("q{}", k);
                    let mut qn = vec![l.len() as u8];
                    qn.extend_from_slice(l.as_bytes());
                    qn.extend_from_slice(b"\x04test\x00");
                    let mut gr = conn.send_request(mk_request(&qn));
                    hs.push(async move { (k, qn, tokio::time::timeout(Duration::from_secs(20), gr.get_response()).await) });
                }
                for (k, qn, r) in futures_util::future::join_all(hs).await {
                    match r {
                        Ok(Ok(m)) => {
                            let ok = w::parse_message(m.as_slice()).map(|pm| { max_id = max_id.max(pm.id); pm.questions.len() == 1 && w::lower(&pm.questions[0].name) == w::lower(&qn) }).unwrap_or(false);
                            if !ok && first_failure.is_none() {
                                first_failure = Some((k, "an answer to another question".into()));
                            }
                        }
                        Ok(Err(e)) => {
                            if first_failure.is_none() {
                                first_failure = Some((k, format!("{}", e)));
                            }
                        }
                        Err(_) => {
                            if first_failure.is_none() {
                                first_failure = Some((k, "no completion within 20 s".into()));
                            }
                        }
                    }
                }
                done += inflight;
            }
            (done.min(total), first_failure, max_id)
        })
    });
    drop(rt);
    let ex = json!({"requests": total, "in_flight": inflight});
    match res {
        Err(pi) => c.violation(&format!("panic:{}", pi.site()), &format!("panic on a long-lived stream connection: {} at {}:{}", pi.msg, pi.file, pi.line), c.replay_of(fam, idx, ex)),
        Ok((done, Some((k, e)), _)) => {
            let _ = done;
            let sig = if let Some(pi) = ctx::take_any_panic() { format!("panic:{}", pi.site()) } else { "long-connection:request-failed".to_string() };
            c.violation(&sig, &format!("request number {} ({} at a time) over one stream connection failed ({}) although the peer answers every request at once", k + 1, inflight, e), c.replay_of(fam, idx, ex));
        }
        Ok((done, None, max_id)) => {
            c.count("long_connection_requests", done as u64);
            c.evals_n(done as u64);
            c.sig(&("long", inflight, max_id > 64));
        }
    }
}

pub fn run(c: &mut Ctx) {
    // real threads (multi-thread runtime, real time, honest peer, 20-80 concurrent requests): all there is to the
    // ThreadSanitizer stage, a handful of cases elsewhere
    let fam = "threads";
    let total = if c.mode == "tsan" { c.total(24, 240) } else { c.total(48, 1200) };
    for idx in c.cases(fam, total) {
        if c.out_of_time() {
            break;
        }
        ctx::slot_write(idx, &format!("{}|case", fam), &[]);
        one_case(c, fam, idx, true);
        c.count("threads_cases", 1);
    }
    if c.mode == "tsan" {
        return;
    }
    // one long-lived connection per run in the quick tier, one per shard in the thorough tier
    let fam = "long-connection";
    let total = c.total(1, 16);
    for idx in c.cases(fam, total) {
        ctx::slot_write(idx, &format!("{}|case", fam), &[]);
        long_connection_case(c, fam, idx);
    }
    let fam = "config-extremes";
    for idx in c.cases(fam, 180) {
        config_extremes_case(c, fam, idx);
    }
    let fam = "no-upstream";
    for idx in c.cases(fam, 4) {
        no_upstream_case(c, fam, idx);
    }
    let fam = "slow-connect";
    let total = c.total(200, 20_000);
    for idx in c.cases(fam, total) {
        if c.out_of_time() {
            break;
        }
        ctx::slot_write(idx, &format!("{}|case", fam), &[]);
        slow_connect_case(c, fam, idx);
    }
    let fam = "scripts";
    let total = c.total(3_000, 300_000);
    for idx in c.cases(fam, total) {
        if c.out_of_time() {
            break;
        }
        ctx::slot_write(idx, &format!("{}|case", fam), &[]);
        one_case(c, fam, idx, false);
    }
    if !c.replaying() {
        for k in ["requests_answered", "requests_failed", "header_only_errors_delivered", "ids_used_for_more_than_one_request", "tc_fallbacks_completed", "peer_sent:wrong-id", "peer_sent:questionless-answer", "peer_sent:wrong-question", "peer_sent:foreign-answer", "peer_sent:close", "cases:stream", "reused_idle_connection_cases", "burst_then_close_cases", "long_connection_requests", "threads_cases", "cases:multi_stream", "cases:redundant", "cases:load_balancer", "slow_connect_requests_answered_in_time", "slow_connect_cases_with_a_second_connect_pending"] {
            c.floor(k, 3);
        }
    }
    let _ = (ClientError::ConnectionClosed, Bytes::new(), Message::from_octets(vec![0u8; 12]).is_ok());
}
