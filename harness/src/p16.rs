//! C16 — servers answer each request once, correctly framed and within the size limit.
use crate::ctx::{self, hex, Ctx};
use crate::gen::msg as gm;
use crate::refimpl::wire as w;
use crate::rng::Rng;
use domain::base::iana::{Class, Rcode, Rtype};
use domain::base::message_builder::MessageBuilder;
use domain::base::name::{Name, ToName};
use domain::base::rdata::UnknownRecordData;
use domain::base::Ttl;
use domain::net::server::buf::VecBufSource;
use domain::net::server::dgram::{self, DgramServer};
use domain::net::server::message::Request;
use domain::net::server::middleware::edns::EdnsMiddlewareSvc;
use domain::net::server::middleware::mandatory::MandatoryMiddlewareSvc;
use domain::net::server::service::{CallResult, Service, ServiceError, ServiceResult};
use domain::net::server::sock::{AsyncAccept, AsyncDgramSock};
use domain::net::server::stream::{self, StreamServer};
use domain::net::server::util::mk_builder_for_target;
use domain::net::server::ConnectionConfig;
use futures_util::stream::Iter;
use serde_json::json;
use std::collections::{BTreeMap, VecDeque};
use std::future::{ready, Future, Ready};
use std::io;
use std::net::SocketAddr;
use std::pin::Pin;
use std::sync::{Arc, Mutex};
use std::task::{Context, Poll};
use std::time::Duration;
use tokio::io::{AsyncReadExt, AsyncWriteExt, DuplexStream, ReadBuf};
use tokio::sync::mpsc;

// -------------------------------------------------------------- service ----

/// The first label of the query name says what the service does:
/// `s<n>` one response with n TXT records of 40 octets, `m<k>` k responses of one record,
/// `w<ms>` wait then answer, `f` fail, anything else one record.
#[derive(Clone)]
struct Svc;

fn plan_of(qname: &[u8]) -> (char, usize) {
    let first = w::labels(qname).first().map(|l| l.to_vec()).unwrap_or_default();
    let s = String::from_utf8_lossy(&first).to_lowercase();
    // (a long transaction needs the whole word: a damaged request must not ask for one by accident)
    if let Some(rest) = s.strip_prefix("longtransaction") {
        return ('L', rest.chars().take_while(|c| c.is_ascii_digit()).collect::<String>().parse().unwrap_or(1));
    }
    let kind = s.chars().next().unwrap_or('s');
    let n: usize = s.chars().skip(1).take_while(|c| c.is_ascii_digit()).collect::<String>().parse().unwrap_or(1);
    (kind, n)
}

fn txt_record(i: usize) -> Vec<u8> {
    let mut v = vec![40u8];
    v.extend(std::iter::repeat(b'a' + (i % 26) as u8).take(40));
    v
}

fn build_response(req: &Request<Vec<u8>, ()>, records: usize, first: usize) -> ServiceResult<Vec<u8>> {
    let b = mk_builder_for_target::<Vec<u8>>();
    let mut a = b.start_answer(req.message(), Rcode::NOERROR).map_err(|_| ServiceError::InternalError)?;
    let owner = match req.message().sole_question() {
        Ok(q) => q.qname().to_name::<Vec<u8>>(),
        Err(_) => Name::root_vec(),
    };
    for i in 0..records {
        let rd = UnknownRecordData::from_octets(Rtype::TXT, txt_record(first + i)).unwrap();
        if a.push((owner.clone(), Class::IN, Ttl::from_secs(60), rd)).is_err() {
            break;
        }
    }
    Ok(CallResult::new(a.additional()))
}

impl Service<Vec<u8>, ()> for Svc {
    type Target = Vec<u8>;
    type Stream = Iter<std::vec::IntoIter<ServiceResult<Vec<u8>>>>;
    type Future = Pin<Box<dyn Future<Output = Self::Stream> + Send>>;
    fn call(&self, req: Request<Vec<u8>, ()>) -> Self::Future {
        Box::pin(async move {
            let qname: Vec<u8> = match req.message().sole_question() {
                Ok(q) => {
                    use domain::base::name::ToName;
                    q.qname().to_vec().as_slice().to_vec()
                }
                Err(_) => vec![0],
            };
            let (kind, n) = plan_of(&qname);
            let items: Vec<ServiceResult<Vec<u8>>> = match kind {
                // a multi-response answer announced to the server the way the XFR middleware does it
                'm' => {
                    use domain::net::server::service::ServiceFeedback;
                    let mut v = vec![Ok(CallResult::feedback_only(ServiceFeedback::BeginTransaction))];
                    v.extend((0..n.clamp(1, 40)).map(|i| build_response(&req, 1, i)));
                    v.push(Ok(CallResult::feedback_only(ServiceFeedback::EndTransaction)));
                    v
                }
                // a long transaction (a zone transfer's worth of messages)
                'L' => {
                    use domain::net::server::service::ServiceFeedback;
                    let mut v = vec![Ok(CallResult::feedback_only(ServiceFeedback::BeginTransaction))];
                    v.extend((0..n.clamp(1, 5000)).map(|i| build_response(&req, 1, i)));
                    v.push(Ok(CallResult::feedback_only(ServiceFeedback::EndTransaction)));
                    v
                }
                // ... and one that just yields several responses
                't' => (0..n.clamp(1, 40)).map(|i| build_response(&req, 1, i)).collect(),
                'w' => {
                    tokio::time::sleep(Duration::from_millis(n as u64)).await;
                    vec![build_response(&req, 1, 0)]
                }
                'f' => vec![Err(ServiceError::InternalError)],
                _ => vec![build_response(&req, n.min(1500), 0)],
            };
            futures_util::stream::iter(items)
        })
    }
}

type Stack = MandatoryMiddlewareSvc<Vec<u8>, EdnsMiddlewareSvc<Vec<u8>, domain::net::server::middleware::cookies::CookiesMiddlewareSvc<Vec<u8>, Svc, ()>, ()>, ()>;

fn stack(cookies: bool) -> Stack {
    MandatoryMiddlewareSvc::new(EdnsMiddlewareSvc::new(domain::net::server::middleware::cookies::CookiesMiddlewareSvc::new(Svc, [7u8; 16]).enable(cookies)))
}

// ------------------------------------------------------------- requests ----

#[derive(Clone, Debug)]
struct Req {
    id: u16,
    qname: Vec<u8>,
    /// EDNS UDP payload size, if the request carries an OPT record
    edns: Option<u16>,
    wire: Vec<u8>,
    /// not a request a server has to answer (garbage, a response, too short ...)
    hostile: bool,
    what: String,
    /// a COOKIE option was added (kind of cookie)
    cookie: Option<&'static str>,
}

fn mk_req(id: u16, label: &str, tag: usize, edns: Option<u16>) -> Req {
    let mut qname = vec![label.len() as u8];
    qname.extend_from_slice(label.as_bytes());
    let t = format!("q{}", tag);
    qname.push(t.len() as u8);
    qname.extend_from_slice(t.as_bytes());
    qname.extend_from_slice(b"\x04test\x00");
    let mut mb = MessageBuilder::new_vec();
    mb.header_mut().set_id(id);
    mb.header_mut().set_rd(true);
    let mut q = mb.question();
    q.push((Name::<Vec<u8>>::from_octets(qname.clone()).unwrap(), Rtype::TXT)).unwrap();
    let mut a = q.additional();
    if let Some(sz) = edns {
        a.opt(|o| {
            o.set_udp_payload_size(sz);
            Ok(())
        })
        .unwrap();
    }
    Req { id, qname, edns, wire: a.finish(), hostile: false, what: format!("{} edns={:?}", label, edns), cookie: None }
}

/// Append a COOKIE option (RFC 7873) to the OPT record, which is the last record of the request.
fn add_cookie(rng: &mut Rng, r: &mut Req) {
    if r.edns.is_none() {
        return;
    }
    let (kind, len): (&'static str, usize) = match rng.below(7) {
        0 | 1 => ("client-only", 8),
        2 => ("client-and-unknown-server", 24),
        3 => ("client-and-long-server", 40),
        4 => ("too-short", rng.range(1, 7)),
        5 => ("between-8-and-16", rng.range(9, 15)),
        _ => ("too-long", 41),
    };
    let payload = rng.bytes(len);
    let l = r.wire.len();
    r.wire[l - 2..].copy_from_slice(&((4 + len) as u16).to_be_bytes());
    r.wire.extend_from_slice(&10u16.to_be_bytes());
    r.wire.extend_from_slice(&(len as u16).to_be_bytes());
    r.wire.extend_from_slice(&payload);
    r.cookie = Some(kind);
    r.what = format!("{} cookie={}", r.what, kind);
}

fn hostile_req(rng: &mut Rng, id: u16, tag: usize) -> Req {
    let base = mk_req(id, "s1", tag, None);
    let (wire, what): (Vec<u8>, &str) = match rng.below(9) {
        0 => (rng.bytes(rng.clone().below(12)), "shorter than a header"),
        1 => (rng.bytes(rng.clone().range(12, 300)), "random octets"),
        2 => {
            let mut m = base.wire.clone();
            m[2] |= 0x80;
            (m, "a response (QR set)")
        }
        3 => {
            let mut m = base.wire.clone();
            m[4] = 0xff;
            m[5] = 0xff;
            (m, "QDCOUNT 65535")
        }
        4 => {
            let mut m = base.wire.clone();
            let l = m.len();
            m.truncate(l - rng.range(1, 8));
            (m, "truncated question")
        }
        5 => {
            let g = gm::valid_message(rng, 6, true);
            let (m, _) = gm::mutate(rng, &g);
            (m, "mutated valid message")
        }
        6 => {
            let mut m = base.wire.clone();
            m[2] = (m[2] & 0x87) | ((rng.range(1, 15) as u8) << 3);
            (m, "unusual opcode")
        }
        7 => {
            // two OPT records
            let r = mk_req(id, "s1", tag, Some(1232));
            let mut m = r.wire.clone();
            let opt = m[m.len() - 11..].to_vec();
            m.extend_from_slice(&opt);
            m[11] = 2;
            (m, "two OPT records")
        }
        _ => (gm::random_message(rng), "random message"),
    };
    Req { id, qname: base.qname, edns: None, wire, hostile: true, what: what.to_string(), cookie: None }
}

// ------------------------------------------------------------- UDP mock ----

struct MockUdp {
    inq: Mutex<VecDeque<(Vec<u8>, SocketAddr)>>,
    notify: tokio::sync::Notify,
    sent: Mutex<Vec<(Vec<u8>, SocketAddr)>>,
    /// readiness events with nothing behind them (the trait's documentation expects them: a socket shared by several
    /// servers, a datagram discarded after readiness was signalled): `readable()` returns, the read gives WouldBlock
    spurious: std::sync::atomic::AtomicU64,
    spurious_seen: std::sync::atomic::AtomicU64,
}

impl AsyncDgramSock for MockUdp {
    fn poll_send_to(&self, _cx: &mut Context<'_>, data: &[u8], dest: &SocketAddr) -> Poll<io::Result<usize>> {
        self.sent.lock().unwrap().push((data.to_vec(), *dest));
        Poll::Ready(Ok(data.len()))
    }
    fn readable(&self) -> Pin<Box<dyn Future<Output = io::Result<()>> + '_ + Send>> {
        Box::pin(async move {
            loop {
                if !self.inq.lock().unwrap().is_empty() || self.spurious.load(std::sync::atomic::Ordering::SeqCst) > 0 {
                    return Ok(());
                }
                self.notify.notified().await;
            }
        })
    }
    fn try_recv_buf_from(&self, buf: &mut ReadBuf<'_>) -> io::Result<(usize, SocketAddr)> {
        if self.spurious.load(std::sync::atomic::Ordering::SeqCst) > 0 {
            self.spurious.fetch_sub(1, std::sync::atomic::Ordering::SeqCst);
            self.spurious_seen.fetch_add(1, std::sync::atomic::Ordering::SeqCst);
            return Err(io::ErrorKind::WouldBlock.into());
        }
        match self.inq.lock().unwrap().pop_front() {
            Some((m, a)) => {
                let n = m.len().min(buf.remaining());
                buf.put_slice(&m[..n]);
                Ok((n, a))
            }
            None => Err(io::ErrorKind::WouldBlock.into()),
        }
    }
}

/// The size a UDP response may have (statement of C16).
fn udp_limit(edns: Option<u16>, configured: Option<u16>) -> usize {
    match edns {
        None => 512,
        Some(s) => {
            let c = s.max(512) as usize;
            match configured {
                Some(m) => c.min(m as usize),
                None => c,
            }
        }
    }
}

/// Length of the complete answer the service produces for this request.
fn full_len(r: &Req, records: usize) -> usize {
    // header + question + n * (owner + 10 + 41) [+ OPT 11]
    12 + r.qname.len() + 4 + records * (r.qname.len() + 10 + 41) + if r.edns.is_some() { 11 } else { 0 }
}

fn udp_case(c: &mut Ctx, fam: &str, idx: u64) {
    let mut rng = c.case_rng(fam, idx);
    let configured = *rng.pick(&[Some(512u16), Some(1232), Some(1232), Some(4096), None]);
    let cookies_on = rng.bool();
    let n = rng.range(1, 24);
    let mut reqs: Vec<(Req, SocketAddr)> = Vec::new();
    for k in 0..n {
        let addr: SocketAddr = format!("192.0.2.{}:{}", 1 + rng.below(200), 1024 + k).parse().unwrap();
        let id = rng.u16();
        let r = if rng.chance(1, 4) {
            hostile_req(&mut rng, id, k)
        } else {
            let edns = *rng.pick(&[None, None, Some(0u16), Some(100), Some(511), Some(512), Some(513), Some(1232), Some(4096), Some(65535)]);
            // answer sizes around every limit
            let per = 41 + 10 + (3 + format!("q{}", k).len() + 1 + 6);
            let label = match rng.below(8) {
                0 => "f".to_string(),
                1 => format!("w{}", rng.range(1, 800)),
                2 => format!("{}{}", if rng.bool() { 'm' } else { 't' }, rng.range(1, 5)),
                _ => {
                    let target = *rng.pick(&[100usize, 480, 512, 540, 1200, 1232, 1260, 4000, 4096, 4200, 9000]);
                    format!("s{}", (target / per).max(1) + rng.below(2))
                }
            };
            let mut r = mk_req(id, &label, k, edns);
            if rng.chance(1, 3) {
                add_cookie(&mut rng, &mut r);
            }
            r
        };
        reqs.push((r, addr));
    }
    // a probe that must always be answered comes last
    let probe_addr: SocketAddr = "198.51.100.7:5353".parse().unwrap();
    reqs.push((mk_req(rng.u16(), "s1", 9999, None), probe_addr));
    // the server may be given another configuration while it runs: it applies to every request received afterwards
    let reconf: Option<(usize, Option<u16>)> = if rng.chance(1, 3) { Some((rng.below(reqs.len()), *rng.pick(&[Some(512u16), Some(1232), Some(4096), None]))) } else { None };
    let ex = json!({"configured_max_response_size": configured, "reconfigured_before_request": reconf.map(|r| r.0), "reconfigured_to": reconf.map(|r| r.1), "cookies_middleware": cookies_on, "requests": reqs.iter().map(|(r, a)| json!({"what": r.what, "addr": a.to_string(), "wire": hex(&r.wire)})).collect::<Vec<_>>()});
    let sock = Arc::new(MockUdp { inq: Mutex::new(VecDeque::new()), notify: tokio::sync::Notify::new(), sent: Mutex::new(vec![]), spurious: std::sync::atomic::AtomicU64::new(0), spurious_seen: std::sync::atomic::AtomicU64::new(0) });
    let rt = tokio::runtime::Builder::new_current_thread().enable_all().start_paused(true).build().unwrap();
    let sock2 = sock.clone();
    let reqs2 = reqs.clone();
    let mut rng2 = rng.fork();
    let _ = ctx::take_any_panic();
    let alive = ctx::catch(|| {
        rt.block_on(async move {
            let mut cfg = dgram::Config::new();
            cfg.set_max_response_size(configured);
            let srv = Arc::new(DgramServer::with_config(ArcSock(sock2.clone()), VecBufSource, stack(cookies_on), cfg));
            let s2 = srv.clone();
            let h = tokio::spawn(async move { s2.run().await });
            for (k, (r, a)) in reqs2.iter().enumerate() {
                if let Some((at, to)) = reconf {
                    if at == k {
                        // (what was received before is given time to be answered under the configuration it arrived under)
                        tokio::time::sleep(Duration::from_secs(3)).await;
                        let mut cfg2 = dgram::Config::new();
                        cfg2.set_max_response_size(to);
                        let _ = srv.reconfigure(cfg2);
                        tokio::time::sleep(Duration::from_millis(200)).await;
                    }
                }
                if rng2.chance(1, 6) {
                    // a readiness event with nothing to read
                    sock2.spurious.fetch_add(1, std::sync::atomic::Ordering::SeqCst);
                    sock2.notify.notify_one();
                    tokio::time::sleep(Duration::from_millis(1)).await;
                }
                sock2.inq.lock().unwrap().push_back((r.wire.clone(), *a));
                sock2.notify.notify_one();
                if rng2.chance(1, 3) {
                    tokio::time::sleep(Duration::from_millis(rng2.range(0, 30) as u64)).await;
                }
            }
            tokio::time::sleep(Duration::from_secs(5)).await;
            let alive = !h.is_finished();
            let _ = srv.shutdown();
            let _ = tokio::time::timeout(Duration::from_secs(5), h).await;
            alive
        })
    });
    drop(rt);
    let alive = match alive {
        Ok(a) => a,
        Err(pi) => {
            c.violation(&format!("panic:{}", pi.site()), &format!("panic in the datagram server: {} at {}:{}", pi.msg, pi.file, pi.line), c.replay_of(fam, idx, ex));
            return;
        }
    };
    if let Some(pi) = ctx::take_any_panic() {
        c.violation(&format!("panic:{}", pi.site()), &format!("a task of the datagram server panicked: {} at {}:{}", pi.msg, pi.file, pi.line), c.replay_of(fam, idx, ex));
        return;
    }
    if !alive {
        c.violation("udp-server-stopped", "the datagram server's run() returned while requests were being served", c.replay_of(fam, idx, ex));
        return;
    }
    let sent = sock.sent.lock().unwrap().clone();
    for (ri, (r, addr)) in reqs.iter().enumerate() {
        let mine: Vec<&Vec<u8>> = sent.iter().filter(|(_, a)| a == addr).map(|(m, _)| m).collect();
        let rp = |c: &Ctx, more: serde_json::Value| c.replay_of(fam, idx, json!({"ctx": ex, "request": ri, "more": more}));
        let configured = match reconf {
            Some((at, to)) if ri >= at => {
                c.count("udp_requests_after_a_reconfiguration", 1);
                to
            }
            _ => configured,
        };
        if r.hostile {
            c.count("udp_hostile_requests", 1);
            // (its query name may happen to ask the test service for a multi-response answer)
            let (hk, hn) = plan_of(&w::parse_message(&r.wire).ok().and_then(|pm| pm.questions.first().map(|q| q.name.clone())).unwrap_or_default());
            // (where the reference parser and the library read the damaged question differently, up to the service's maximum)
            let most = if matches!(hk, 'm' | 't') { hn.clamp(1, 40) } else if r.what.contains("message") { 40 } else { 1 };
            if mine.len() > most {
                c.violation("udp-hostile-request-answered-twice", &format!("{} responses to one hostile datagram ({})", mine.len(), r.what), rp(c, json!({})));
                return;
            }
            for m in &mine {
                // (an error response that is nothing but header, the request's questions and OPT cannot be made any shorter)
                let bare = m.len() >= 12 && m[6..10] == [0, 0, 0, 0];
                if m.len() < 12 || r.wire.len() < 2 || m[0..2] != r.wire[0..2] || m[2] & 0x80 == 0 || (!bare && m.len() > 512.max(udp_limit(Some(4096), configured))) {
                    c.violation("udp-hostile-request-answer", &format!("the answer to a hostile datagram ({}) has another ID, no QR bit or an impossible size", r.what), rp(c, json!({"response": hex(m)})));
                    return;
                }
            }
            c.eval(&("udp-hostile", r.what.clone(), mine.len()));
            continue;
        }
        let (kind, nrec) = plan_of(&r.qname);
        // a malformed COOKIE option is answered by the cookie middleware itself, once
        let cookie_refused = cookies_on && matches!(r.cookie, Some("too-short") | Some("between-8-and-16") | Some("too-long"));
        let expect_n = if matches!(kind, 'm' | 't') && !cookie_refused { nrec.clamp(1, 40) } else { 1 };
        if mine.len() != expect_n {
            let sig = if ri == reqs.len() - 1 { "udp-probe-unanswered".to_string() } else { format!("udp-responses:{}-instead-of-{}:{}", mine.len(), expect_n, kind) };
            c.violation(&sig, &format!("request {} ({}) got {} responses", ri, r.what, mine.len()), rp(c, json!({})));
            return;
        }
        for m in mine.iter().skip(1) {
            let ok = w::parse_message(m).map(|pm| pm.id == r.id && pm.flags & 0x8000 != 0 && m.len() <= udp_limit(r.edns, configured)).unwrap_or(false);
            if !ok {
                c.violation("udp-multi-response", "a later response of a multi-response answer over UDP is malformed, has another ID or is too long", rp(c, json!({"response": hex(m)})));
                return;
            }
        }
        let m = mine[0];
        let Ok(pm) = w::parse_message(m) else {
            c.violation("udp-response-unparsable", &format!("the response to request {} ({}) cannot be parsed", ri, r.what), rp(c, json!({"response": hex(m)})));
            return;
        };
        if pm.id != r.id || pm.flags & 0x8000 == 0 || pm.questions.len() != 1 || w::lower(&pm.questions[0].name) != w::lower(&r.qname) {
            c.violation("udp-response-not-for-request", &format!("the response sent to the address of request {} does not carry its ID and question", ri), rp(c, json!({"response": hex(m)})));
            return;
        }
        let limit = udp_limit(r.edns, configured);
        let tc = pm.flags & 0x0200 != 0;
        let cookie_reply = cookies_on && r.cookie.is_some();
        if m.len() > limit {
            let sig = match (r.edns, tc) {
                (None, _) => "udp-size:no-edns".to_string(),
                (Some(s), _) if s < 512 => "udp-size:edns-below-512".to_string(),
                _ => "udp-size:edns".to_string(),
            };
            c.violation(&sig, &format!("a UDP response of {} octets (TC {}) to a request with EDNS size {:?}; the limit is {} (configured maximum {:?})", m.len(), tc, r.edns, limit, configured), rp(c, json!({"response_len": m.len()})));
            return;
        }
        if cookie_reply && (pm.flags & 0xf != 0 || m.len() + 40 > limit) {
            // the cookie middleware answered itself (BADCOOKIE, FORMERR for a malformed cookie), or its
            // server cookie took room in the response: the size limit above is all that is checked
            c.count("udp_cookie_replies", 1);
        } else if kind == 's' || kind == 'w' || kind == 'm' || kind == 't' {
            let records = if kind == 's' { nrec.min(1500) } else { 1 };
            let full = full_len(r, records);
            let an = pm.counts[1] as usize;
            let full = if cookie_reply { full + 28 } else { full };
            if full <= limit {
                if (an != records || tc) && full <= 65535 {
                    c.violation("udp-needless-truncation", &format!("the complete answer has {} octets and fits the limit of {}, but the response has {} of {} records, TC {}", full, limit, an, records, tc), rp(c, json!({"response": hex(m)})));
                    return;
                }
                c.count("udp_complete_answers", 1);
            } else {
                if !tc {
                    c.violation("udp-content-dropped-without-tc", &format!("the complete answer has {} octets, the response {} with {} of {} records, and TC is clear", full, m.len(), an, records), rp(c, json!({"response": hex(m)})));
                    return;
                }
                c.count("udp_truncated_answers", 1);
            }
        } else if kind == 'f' {
            if pm.flags & 0xf == 0 {
                c.violation("udp-service-error-noerror", "a failing service produced a NOERROR response", rp(c, json!({"response": hex(m)})));
                return;
            }
            c.count("udp_service_failures_answered", 1);
        }
        c.eval(&("udp", kind, r.edns.map(|s| s.min(5000) / 100), configured, tc, (m.len() / 128).min(40)));
    }
    c.count("udp_cases", 1);
    c.count("udp_readiness_without_datagram", sock.spurious_seen.load(std::sync::atomic::Ordering::SeqCst));
}

/// `DgramServer` wants to own its socket; the harness keeps a handle on it.
struct ArcSock(Arc<MockUdp>);
impl AsyncDgramSock for ArcSock {
    fn poll_send_to(&self, cx: &mut Context<'_>, data: &[u8], dest: &SocketAddr) -> Poll<io::Result<usize>> {
        self.0.poll_send_to(cx, data, dest)
    }
    fn readable(&self) -> Pin<Box<dyn Future<Output = io::Result<()>> + '_ + Send>> {
        self.0.readable()
    }
    fn try_recv_buf_from(&self, buf: &mut ReadBuf<'_>) -> io::Result<(usize, SocketAddr)> {
        self.0.try_recv_buf_from(buf)
    }
}

// ---------------------------------------------------------- stream mock ----

struct MockListener {
    rx: Mutex<mpsc::UnboundedReceiver<(DuplexStream, SocketAddr)>>,
}

impl AsyncAccept for MockListener {
    type Error = io::Error;
    type StreamType = DuplexStream;
    type Future = Ready<Result<DuplexStream, io::Error>>;
    fn poll_accept(&self, cx: &mut Context<'_>) -> Poll<io::Result<(Self::Future, SocketAddr)>> {
        match self.rx.lock().unwrap().poll_recv(cx) {
            Poll::Ready(Some((s, a))) => Poll::Ready(Ok((ready(Ok(s)), a))),
            Poll::Ready(None) => Poll::Pending,
            Poll::Pending => Poll::Pending,
        }
    }
}

#[derive(Clone, Debug)]
struct ConnPlan {
    reqs: Vec<Req>,
    /// close after this many octets have been written (None: write everything, then read)
    abort_after: Option<usize>,
    chunk: usize,
    raw_tail: Option<Vec<u8>>,
    /// requests from this index on are held back until the earlier ones were answered and the connection has
    /// been idle for most of its idle timeout
    late_from: Option<usize>,
    /// a requester that is slow to read: (capacity of the pipe in octets, milliseconds before it starts reading);
    /// longer than the idle timeout, well inside the response write timeout
    slow_reader: Option<(usize, u64)>,
}

#[derive(Debug, Default)]
struct ConnOut {
    frames: Vec<Vec<u8>>,
    leftover: usize,
    eof: bool,
}

async fn run_conn(tx: mpsc::UnboundedSender<(DuplexStream, SocketAddr)>, addr: SocketAddr, plan: ConnPlan, seed: u64) -> ConnOut {
    let (mut client, server) = tokio::io::duplex(plan.slow_reader.map(|s| s.0).unwrap_or(1 << 20));
    if tx.send((server, addr)).is_err() {
        return ConnOut::default();
    }
    let mut rng = Rng::new(&[seed, addr.port() as u64]);
    let mut bytes = Vec::new();
    let first_part = plan.late_from.unwrap_or(plan.reqs.len());
    for r in &plan.reqs[..first_part] {
        bytes.extend_from_slice(&(r.wire.len() as u16).to_be_bytes());
        bytes.extend_from_slice(&r.wire);
    }
    if let Some(t) = &plan.raw_tail {
        bytes.extend_from_slice(t);
    }
    let end = plan.abort_after.unwrap_or(bytes.len()).min(bytes.len());
    let mut p = 0;
    while p < end {
        let n = plan.chunk.max(1).min(end - p);
        if client.write_all(&bytes[p..p + n]).await.is_err() {
            break;
        }
        p += n;
        if rng.chance(1, 4) {
            tokio::time::sleep(Duration::from_millis(rng.range(0, 20) as u64)).await;
        }
    }
    let mut out = ConnOut::default();
    if plan.abort_after.is_some() {
        drop(client);
        return out;
    }
    let mut buf: Vec<u8> = Vec::new();
    let mut tmp = vec![0u8; 65536];
    if let Some(lf) = plan.late_from {
        // wait for the answers to the first part (one each), let the connection sit idle for 2.6 of its 3 seconds, then ask again
        let mut frames = 0;
        while frames < lf {
            match tokio::time::timeout(Duration::from_secs(2), client.read(&mut tmp)).await {
                Ok(Ok(n)) if n > 0 => buf.extend_from_slice(&tmp[..n]),
                _ => break,
            }
            frames = 0;
            let mut q = 0;
            while q + 2 <= buf.len() {
                let l = u16::from_be_bytes([buf[q], buf[q + 1]]) as usize;
                if q + 2 + l > buf.len() {
                    break;
                }
                frames += 1;
                q += 2 + l;
            }
        }
        tokio::time::sleep(Duration::from_millis(2600)).await;
        for r in &plan.reqs[lf..] {
            let mut f = (r.wire.len() as u16).to_be_bytes().to_vec();
            f.extend_from_slice(&r.wire);
            if client.write_all(&f).await.is_err() {
                break;
            }
        }
    }
    if let Some((_, ms)) = plan.slow_reader {
        tokio::time::sleep(Duration::from_millis(ms)).await;
    }
    // read whatever comes until the server closes or nothing arrives for a while
    loop {
        match tokio::time::timeout(Duration::from_secs(4), client.read(&mut tmp)).await {
            Ok(Ok(0)) => {
                out.eof = true;
                break;
            }
            Ok(Ok(n)) => buf.extend_from_slice(&tmp[..n]),
            Ok(Err(_)) => break,
            Err(_) => break,
        }
    }
    let mut q = 0;
    while q + 2 <= buf.len() {
        let l = u16::from_be_bytes([buf[q], buf[q + 1]]) as usize;
        if q + 2 + l > buf.len() {
            break;
        }
        out.frames.push(buf[q + 2..q + 2 + l].to_vec());
        q += 2 + l;
    }
    out.leftover = buf.len() - q;
    out
}

fn stream_case(c: &mut Ctx, fam: &str, idx: u64) {
    let mut rng = c.case_rng(fam, idx);
    let nconn = rng.range(1, 5);
    let cookies_on = rng.bool();
    let mut plans: Vec<(ConnPlan, SocketAddr)> = Vec::new();
    let mut tag = 0;
    for ci in 0..nconn {
        let addr: SocketAddr = format!("203.0.113.{}:{}", 1 + ci, 40000 + ci).parse().unwrap();
        let k = rng.range(1, 10);
        let mut reqs = Vec::new();
        let hostile_conn = rng.chance(1, 3);
        for _ in 0..k {
            tag += 1;
            let id = rng.u16();
            if hostile_conn && rng.chance(1, 2) {
                reqs.push(hostile_req(&mut rng, id, tag));
            } else {
                let label = match rng.below(8) {
                    0 => "f".to_string(),
                    1 => format!("w{}", rng.range(1, 1500)),
                    2 => format!("m{}", rng.range(1, 30)),
                    3 => format!("t{}", rng.range(1, 30)),
                    4 => format!("s{}", rng.range(600, 1100)), // near 64k
                    _ => format!("s{}", rng.range(1, 40)),
                };
                let edns = *rng.pick(&[None, Some(1232u16), Some(512)]);
                reqs.push(mk_req(id, &label, tag, edns));
            }
        }
        let total: usize = reqs.iter().map(|r| r.wire.len() + 2).sum();
        let abort_after = if rng.chance(1, 5) { Some(rng.below(total + 1)) } else { None };
        let raw_tail = if hostile_conn && abort_after.is_none() && rng.chance(1, 3) {
            Some(match rng.below(4) {
                0 => vec![0, 0],                 // a frame of length zero
                1 => vec![0, 5, 1, 2, 3, 4, 5],  // a frame shorter than a header
                2 => vec![0xff, 0xff, 1, 2, 3],  // a frame that never completes
                _ => vec![7],                    // half a length prefix
            })
        } else {
            None
        };
        plans.push((ConnPlan { reqs, abort_after, chunk: *rng.pick(&[1usize, 2, 7, 64, 100_000]), raw_tail, late_from: None, slow_reader: None }, addr));
    }
    // a connection whose second request arrives late in the idle window and takes the service a while
    if rng.chance(1, 3) {
        let addr: SocketAddr = "203.0.113.77:40077".parse().unwrap();
        let fast = mk_req(rng.u16(), "s1", 77001, None);
        let slow = mk_req(rng.u16(), &format!("w{}", rng.range(600, 1500)), 77002, None);
        plans.push((ConnPlan { reqs: vec![fast, slow], abort_after: None, chunk: 100_000, raw_tail: None, late_from: Some(1), slow_reader: None }, addr));
    }
    // a requester that takes its time to read: responses larger than the pipe stay half written for longer than the
    // idle timeout (3 s) but far less than the response write timeout (30 s); every frame must still arrive whole
    if rng.chance(1, 3) {
        let addr: SocketAddr = "203.0.113.88:40088".parse().unwrap();
        let k = rng.range(1, 4);
        let reqs: Vec<Req> = (0..k).map(|j| mk_req(rng.u16(), &format!("s{}", if rng.chance(1, 4) { rng.range(600, 1100) } else { rng.range(15, 60) }), 88001 + j, None)).collect();
        plans.push((ConnPlan { reqs, abort_after: None, chunk: 100_000, raw_tail: None, late_from: None, slow_reader: Some((*rng.pick(&[128usize, 512, 4096]), rng.range(3500, 20000) as u64)) }, addr));
    }
    // the probe connection
    let probe_addr: SocketAddr = "198.51.100.9:5353".parse().unwrap();
    plans.push((ConnPlan { reqs: vec![mk_req(rng.u16(), "s2", 99999, None)], abort_after: None, chunk: 100_000, raw_tail: None, late_from: None, slow_reader: None }, probe_addr));
    let ex = json!({"connections": plans.iter().map(|(p, a)| json!({"addr": a.to_string(), "abort_after": p.abort_after, "chunk": p.chunk, "slow_reader": p.slow_reader.map(|s| vec![s.0 as u64, s.1]), "tail": p.raw_tail.as_ref().map(|t| hex(t)), "requests": p.reqs.iter().map(|r| json!({"what": r.what, "wire": hex(&r.wire)})).collect::<Vec<_>>()})).collect::<Vec<_>>()});
    let rt = tokio::runtime::Builder::new_current_thread().enable_all().start_paused(true).build().unwrap();
    let plans2 = plans.clone();
    let seed = c.seed ^ idx;
    let _ = ctx::take_any_panic();
    let res = ctx::catch(|| {
        rt.block_on(async move {
            let (tx, rx) = mpsc::unbounded_channel();
            let mut cfg = stream::Config::new();
            let mut cc = ConnectionConfig::new();
            cc.set_idle_timeout(Duration::from_secs(3));
            cfg.set_connection_config(cc);
            let srv = Arc::new(StreamServer::with_config(MockListener { rx: Mutex::new(rx) }, VecBufSource, stack(cookies_on), cfg));
            let s2 = srv.clone();
            let h = tokio::spawn(async move { s2.run().await });
            let mut hs = Vec::new();
            let n = plans2.len();
            for (i, (p, a)) in plans2.into_iter().enumerate() {
                if i == n - 1 {
                    // the probe comes after everything else had its chance
                    tokio::time::sleep(Duration::from_secs(2)).await;
                }
                hs.push(tokio::spawn(run_conn(tx.clone(), a, p, seed)));
            }
            let mut outs = Vec::new();
            for h_ in hs {
                outs.push(h_.await.unwrap_or_default());
            }
            let alive = !h.is_finished();
            let _ = srv.shutdown();
            let _ = tokio::time::timeout(Duration::from_secs(10), h).await;
            (outs, alive)
        })
    });
    drop(rt);
    let (outs, alive) = match res {
        Ok(x) => x,
        Err(pi) => {
            c.violation(&format!("panic:{}", pi.site()), &format!("panic in the stream server: {} at {}:{}", pi.msg, pi.file, pi.line), c.replay_of(fam, idx, ex));
            return;
        }
    };
    if let Some(pi) = ctx::take_any_panic() {
        c.violation(&format!("panic:{}", pi.site()), &format!("a task of the stream server panicked: {} at {}:{}", pi.msg, pi.file, pi.line), c.replay_of(fam, idx, ex));
        return;
    }
    if !alive {
        c.violation("stream-server-stopped", "the stream server's run() returned while connections were being served", c.replay_of(fam, idx, ex));
        return;
    }
    for (ci, ((plan, _addr), out)) in plans.iter().zip(outs.iter()).enumerate() {
        let rp = |c: &Ctx, more: serde_json::Value| c.replay_of(fam, idx, json!({"ctx": ex, "connection": ci, "more": more}));
        if plan.abort_after.is_some() {
            c.count("stream_aborted_connections", 1);
            continue;
        }
        if out.leftover != 0 {
            c.violation("stream-framing:trailing-octets", &format!("connection {}: {} octets after the last complete frame", ci, out.leftover), rp(c, json!({})));
            return;
        }
        // every frame is a well-formed response to one of this connection's requests
        let mut per_req: BTreeMap<usize, Vec<&Vec<u8>>> = BTreeMap::new();
        let any_hostile = plan.reqs.iter().any(|r| r.hostile) || plan.raw_tail.is_some();
        for f in &out.frames {
            let Ok(pm) = w::parse_message(f) else {
                c.violation("stream-response-unparsable", &format!("connection {}: a frame of {} octets is not a DNS message", ci, f.len()), rp(c, json!({"frame": hex(f)})));
                return;
            };
            let owner = plan.reqs.iter().position(|r| !r.hostile && r.id == pm.id && pm.questions.len() == 1 && w::lower(&pm.questions[0].name) == w::lower(&r.qname));
            match owner {
                Some(i) => per_req.entry(i).or_default().push(f),
                None => {
                    // the answer to a hostile request: same ID as one of them
                    if !plan.reqs.iter().any(|r| r.hostile && r.wire.len() >= 2 && r.wire[0..2] == f[0..2]) {
                        c.violation("stream-response-not-for-any-request", &format!("connection {}: a response with ID {} and a question none of the connection's requests has", ci, pm.id), rp(c, json!({"frame": hex(f)})));
                        return;
                    }
                    c.count("stream_hostile_requests_answered", 1);
                }
            }
        }
        for (i, r) in plan.reqs.iter().enumerate() {
            if r.hostile {
                continue;
            }
            // a hostile request earlier on the connection may legitimately end it
            let after_hostile = plan.reqs[..i].iter().any(|x| x.hostile);
            let (kind, nrec) = plan_of(&r.qname);
            let got = per_req.get(&i).map(|v| v.len()).unwrap_or(0);
            let want = if matches!(kind, 'm' | 't') { nrec.clamp(1, 40) } else { 1 };
            if got != want {
                if (after_hostile || any_hostile) && got < want {
                    // the server gives up on a connection that sends it something hostile, with whatever was still pending
                    c.count("stream_requests_on_hostile_connection_unanswered", 1);
                    continue;
                }
                // how many responses the connection's requests produce in all: more than the response queue holds (10)?
                let total_expected: usize = plan.reqs.iter().filter(|x| !x.hostile).map(|x| { let (k, n_) = plan_of(&x.qname); if matches!(k, 'm' | 't') { n_.clamp(1, 40) } else { 1 } }).sum();
                let sig = if ci == plans.len() - 1 {
                    "stream-probe-unanswered".to_string()
                } else if got < want && total_expected > 10 {
                    "stream-response-dropped:more-than-max_queued_responses-pending".to_string()
                } else {
                    format!("stream-responses:{}:{}", kind, if got < want { "missing" } else { "extra" })
                };
                c.violation(&sig, &format!("connection {} request {} ({}): {} responses, expected {}{}", ci, i, r.what, got, want, if any_hostile { " (the connection also carried hostile input after it)" } else { "" }), rp(c, json!({})));
                if sig.starts_with("stream-response-dropped:") {
                    // a recorded finding about this one request; the rest of the case is judged as usual
                    continue;
                }
                return;
            }
            let fs = &per_req[&i];
            if matches!(kind, 'm' | 't') {
                // in order: record i of the stream carries letter i
                for (j, f) in fs.iter().enumerate() {
                    let pm = w::parse_message(f).unwrap();
                    let ok = pm.records.iter().find(|x| x.section == 1).map(|x| x.rdata.as_ref().map(|d| d.len() == 41 && d[1] == b'a' + (j % 26) as u8).unwrap_or(false)).unwrap_or(false);
                    if !ok {
                        c.violation("stream-multi-response-order", &format!("connection {} request {}: response {} of a multi-response answer is not the {}th the service produced", ci, i, j, j), rp(c, json!({})));
                        return;
                    }
                }
                c.count("stream_multi_responses", 1);
            } else if kind == 's' {
                let pm = w::parse_message(fs[0]).unwrap();
                let full = full_len(r, nrec);
                if full <= 65535 && (pm.counts[1] as usize != nrec || pm.flags & 0x0200 != 0) {
                    c.violation("stream-needless-truncation", &format!("connection {} request {}: the answer of {} octets fits a stream message, but {} of {} records came back (TC {})", ci, i, full, pm.counts[1], nrec, pm.flags & 0x0200 != 0), rp(c, json!({})));
                    return;
                }
                if full > 65535 {
                    c.count("stream_answers_over_64k", 1);
                }
            } else if kind == 'f' {
                let pm = w::parse_message(fs[0]).unwrap();
                if pm.flags & 0xf == 0 {
                    c.violation("stream-service-error-noerror", "a failing service produced a NOERROR response", rp(c, json!({})));
                    return;
                }
            }
            c.eval(&("stream", kind, nrec.min(40), plan.chunk.min(101), plan.reqs.len(), any_hostile));
        }
        if plan.late_from.is_some() {
            c.count("stream_late_requests_answered", 1);
        }
        if plan.slow_reader.is_some() {
            c.count("stream_slow_readers_served", 1);
        }
        c.count("stream_connections_checked", 1);
    }
    c.count("stream_cases", 1);
}


// ------------------------------------------------------ connection churn ----

/// A listener whose handshake can fail (as a TLS acceptor's does): `None` is a connection that
/// was accepted but whose stream never materialises.
struct ChurnListener {
    rx: Mutex<mpsc::UnboundedReceiver<(Handshake, SocketAddr)>>,
}

/// How the handshake of an accepted connection goes.
enum Handshake {
    Done(DuplexStream),
    Fails,
    /// the peer connected and never completes it
    Stalls,
}

impl AsyncAccept for ChurnListener {
    type Error = io::Error;
    type StreamType = DuplexStream;
    type Future = Pin<Box<dyn Future<Output = Result<DuplexStream, io::Error>> + Send>>;
    fn poll_accept(&self, cx: &mut Context<'_>) -> Poll<io::Result<(Self::Future, SocketAddr)>> {
        match self.rx.lock().unwrap().poll_recv(cx) {
            Poll::Ready(Some((Handshake::Done(s), a))) => Poll::Ready(Ok((Box::pin(ready(Ok(s))), a))),
            Poll::Ready(Some((Handshake::Fails, a))) => Poll::Ready(Ok((Box::pin(ready(Err(io::Error::new(io::ErrorKind::ConnectionAborted, "handshake failed")))), a))),
            Poll::Ready(Some((Handshake::Stalls, a))) => Poll::Ready(Ok((Box::pin(std::future::pending()), a))),
            Poll::Ready(None) => Poll::Pending,
            Poll::Pending => Poll::Pending,
        }
    }
}

/// Connections come and go, one or two at a time, on a server that allows only a few at once:
/// whatever way a connection ends (served and closed, aborted mid-request, hostile octets, a
/// handshake that fails, left to its idle timeout), its place must be free again afterwards —
/// otherwise a patient attacker, or just time, locks every later requester out.
fn churn_case(c: &mut Ctx, fam: &str, idx: u64) {
    let mut rng = c.case_rng(fam, idx);
    let limit = rng.range(2, 5);
    let rounds = limit * 2 + rng.range(1, 6);
    // kinds: 0 served, 1 aborted mid-request, 2 hostile octets, 3 failed handshake, 4 left idle until the server closes it, 5 closed without a word
    let mut kinds: Vec<usize> = (0..rounds).map(|_| *rng.pick(&[0usize, 0, 1, 2, 3, 3, 4, 5])).collect();
    // 6: a peer that connects and never completes the handshake (one per case: it may keep its place, nobody else's)
    if rng.chance(1, 2) {
        let p = rng.below(kinds.len());
        kinds[p] = 6;
    }
    let ex = json!({"max_concurrent_connections": limit, "connections": kinds});
    let rt = tokio::runtime::Builder::new_current_thread().enable_all().start_paused(true).build().unwrap();
    let kinds2 = kinds.clone();
    let seed = c.seed ^ idx;
    let _ = ctx::take_any_panic();
    let res = ctx::catch(|| {
        rt.block_on(async move {
            let (tx, rx) = mpsc::unbounded_channel();
            let mut cfg = stream::Config::new();
            cfg.set_max_concurrent_connections(limit);
            let mut cc = ConnectionConfig::new();
            cc.set_idle_timeout(Duration::from_secs(3));
            cfg.set_connection_config(cc);
            let srv = Arc::new(StreamServer::with_config(ChurnListener { rx: Mutex::new(rx) }, VecBufSource, stack(false), cfg));
            let s2 = srv.clone();
            let h = tokio::spawn(async move { s2.run().await });
            let mut rng = Rng::new(&[seed, 16]);
            // (kind, frames received, eof seen)
            let mut outs: Vec<(usize, usize, bool)> = Vec::new();
            for (i, k) in kinds2.iter().chain(std::iter::once(&0usize)).enumerate() {
                let addr: SocketAddr = format!("203.0.113.{}:{}", 1 + (i % 200), 41000 + i).parse().unwrap();
                if *k == 3 || *k == 6 {
                    let _ = tx.send((if *k == 3 { Handshake::Fails } else { Handshake::Stalls }, addr));
                    tokio::time::sleep(Duration::from_millis(20)).await;
                    outs.push((*k, 0, false));
                    continue;
                }
                let (mut client, server) = tokio::io::duplex(1 << 16);
                let _ = tx.send((Handshake::Done(server), addr));
                let r = mk_req(rng.u16(), "s3", 5000 + i, None);
                let mut frame = (r.wire.len() as u16).to_be_bytes().to_vec();
                frame.extend_from_slice(&r.wire);
                let mut got = 0usize;
                let mut eof = false;
                match *k {
                    1 => {
                        let cut = 1 + rng.below(frame.len() - 1);
                        let _ = client.write_all(&frame[..cut]).await;
                        tokio::time::sleep(Duration::from_millis(rng.range(0, 50) as u64)).await;
                    }
                    2 => {
                        let junk = match rng.below(3) { 0 => vec![0u8, 0], 1 => vec![0, 3, 1, 2, 3], _ => rng.bytes(40) };
                        let _ = client.write_all(&junk).await;
                        tokio::time::sleep(Duration::from_millis(100)).await;
                    }
                    5 => {
                        tokio::time::sleep(Duration::from_millis(rng.range(0, 30) as u64)).await;
                    }
                    _ => {
                        let _ = client.write_all(&frame).await;
                        let mut buf = Vec::new();
                        let mut tmp = [0u8; 4096];
                        let wait = if *k == 4 { 6000 } else { 1500 };
                        loop {
                            match tokio::time::timeout(Duration::from_millis(wait), client.read(&mut tmp)).await {
                                Ok(Ok(0)) => {
                                    eof = true;
                                    break;
                                }
                                Ok(Ok(n)) => {
                                    buf.extend_from_slice(&tmp[..n]);
                                    if *k == 0 && buf.len() >= 2 && buf.len() >= 2 + u16::from_be_bytes([buf[0], buf[1]]) as usize {
                                        break;
                                    }
                                }
                                _ => break,
                            }
                        }
                        let mut q = 0;
                        while q + 2 <= buf.len() {
                            let l = u16::from_be_bytes([buf[q], buf[q + 1]]) as usize;
                            if q + 2 + l > buf.len() {
                                break;
                            }
                            got += 1;
                            q += 2 + l;
                        }
                    }
                }
                drop(client);
                // the server notices the end of the connection
                tokio::time::sleep(Duration::from_millis(200)).await;
                outs.push((*k, got, eof));
            }
            let alive = !h.is_finished();
            let _ = srv.shutdown();
            let _ = tokio::time::timeout(Duration::from_secs(10), h).await;
            (outs, alive)
        })
    });
    drop(rt);
    let (outs, alive) = match res {
        Ok(x) => x,
        Err(pi) => {
            c.violation(&format!("panic:{}", pi.site()), &format!("panic in the stream server: {} at {}:{}", pi.msg, pi.file, pi.line), c.replay_of(fam, idx, ex));
            return;
        }
    };
    if let Some(pi) = ctx::take_any_panic() {
        c.violation(&format!("panic:{}", pi.site()), &format!("a task of the stream server panicked: {} at {}:{}", pi.msg, pi.file, pi.line), c.replay_of(fam, idx, ex));
        return;
    }
    if !alive {
        c.violation("stream-server-stopped", "the stream server's run() returned while connections were being served", c.replay_of(fam, idx, ex));
        return;
    }
    let last = outs.len() - 1;
    for (i, (k, got, _eof)) in outs.iter().enumerate() {
        if matches!(*k, 0 | 4) && *got != 1 {
            // which kinds of endings came before it
            let mut before: Vec<&str> = outs[..i].iter().map(|o| ["served", "aborted", "hostile", "failed-handshake", "idled-out", "closed-silently", "handshake-never-completes"][o.0]).collect();
            before.sort();
            before.dedup();
            let sig = if i == last { "stream-churn:probe-unanswered" } else { "stream-churn:request-unanswered" };
            c.violation(sig, &format!("connection {} of a sequence in which never more than one connection is open at a time got {} responses to its one request; the server allows {} concurrent connections; earlier connections ended as: {:?}", i, got, limit, before), c.replay_of(fam, idx, ex.clone()));
            return;
        }
        c.count(&format!("churn_connections:{}", ["served", "aborted", "hostile", "failed-handshake", "idled-out", "closed-silently", "handshake-never-completes"][*k]), 1);
    }
    c.eval(&("churn", limit, kinds.iter().fold(0u32, |a, k| a | 1 << k), rounds));
    c.count("churn_cases", 1);
}


// ------------------------------------------------- real threads, real time ----

/// Several long transactions at once on one connection, the server on a multi-thread runtime: the
/// tasks that produce the responses compete for the connection's response queue while the
/// requester drains it slowly. Every message of every transaction arrives exactly once and in
/// its transaction's order (responses inside an announced transaction are never dropped).
fn stream_threads_case(c: &mut Ctx, fam: &str, idx: u64) {
    let mut rng = c.case_rng(fam, idx);
    let nreq = rng.range(6, 16);
    let per = rng.range(300, 1200);
    let workers = *rng.pick(&[4usize, 8, 12]);
    let pipe = *rng.pick(&[1usize << 12, 1 << 14, 1 << 16]);
    let reqs: Vec<Req> = (0..nreq).map(|j| mk_req(1000 + j as u16, &format!("longtransaction{}", per), 3000 + j, None)).collect();
    let ex = json!({"requests": nreq, "messages_per_transaction": per, "worker_threads": workers, "pipe": pipe});
    let rt = tokio::runtime::Builder::new_multi_thread().worker_threads(workers).enable_all().build().unwrap();
    let reqs2 = reqs.clone();
    let _ = ctx::take_any_panic();
    let res = ctx::catch(|| {
        rt.block_on(async move {
            let (tx, rx) = mpsc::unbounded_channel();
            let srv = Arc::new(StreamServer::with_config(MockListener { rx: Mutex::new(rx) }, VecBufSource, stack(false), stream::Config::new()));
            let s2 = srv.clone();
            let h = tokio::spawn(async move { s2.run().await });
            let (mut client, server) = tokio::io::duplex(pipe);
            let _ = tx.send((server, "203.0.113.5:45000".parse().unwrap()));
            let mut bytes = Vec::new();
            for r in &reqs2 {
                bytes.extend_from_slice(&(r.wire.len() as u16).to_be_bytes());
                bytes.extend_from_slice(&r.wire);
            }
            let _ = client.write_all(&bytes).await;
            let want_frames = reqs2.len() * per;
            let mut frames: Vec<Vec<u8>> = Vec::new();
            let mut buf: Vec<u8> = Vec::new();
            let mut tmp = vec![0u8; 16384];
            let mut p = 0usize;
            while frames.len() < want_frames {
                match tokio::time::timeout(Duration::from_secs(8), client.read(&mut tmp)).await {
                    Ok(Ok(n)) if n > 0 => buf.extend_from_slice(&tmp[..n]),
                    _ => break,
                }
                while p + 2 <= buf.len() {
                    let l = u16::from_be_bytes([buf[p], buf[p + 1]]) as usize;
                    if p + 2 + l > buf.len() {
                        break;
                    }
                    frames.push(buf[p + 2..p + 2 + l].to_vec());
                    p += 2 + l;
                }
                if frames.len() % 64 == 0 {
                    tokio::task::yield_now().await;
                }
            }
            let alive = !h.is_finished();
            drop(client);
            let _ = srv.shutdown();
            let _ = tokio::time::timeout(Duration::from_secs(5), h).await;
            (frames, alive)
        })
    });
    drop(rt);
    let (frames, alive) = match res {
        Ok(x) => x,
        Err(pi) => {
            c.violation(&format!("panic:{}", pi.site()), &format!("panic in the stream server (threads): {} at {}:{}", pi.msg, pi.file, pi.line), c.replay_of(fam, idx, ex));
            return;
        }
    };
    if let Some(pi) = ctx::take_any_panic() {
        c.violation(&format!("panic:{}", pi.site()), &format!("a task of the stream server panicked: {} at {}:{}", pi.msg, pi.file, pi.line), c.replay_of(fam, idx, ex));
        return;
    }
    if !alive {
        c.violation("stream-server-stopped", "the stream server's run() returned while a connection was being served", c.replay_of(fam, idx, ex));
        return;
    }
    // per request: the messages of its transaction, in order
    let mut next: Vec<usize> = vec![0; reqs.len()];
    for f in &frames {
        let Ok(pm) = w::parse_message(f) else {
            c.violation("stream-response-unparsable", "a frame of a transaction is not a DNS message", c.replay_of(fam, idx, ex));
            return;
        };
        let Some(i) = reqs.iter().position(|r| r.id == pm.id && pm.questions.len() == 1 && w::lower(&pm.questions[0].name) == w::lower(&r.qname)) else {
            c.violation("stream-response-not-for-any-request", "a response with an ID and question none of the requests has", c.replay_of(fam, idx, ex));
            return;
        };
        let ok = pm.records.iter().find(|x| x.section == 1).map(|x| x.rdata.as_ref().map(|d| d.len() == 41 && d[1] == b'a' + (next[i] % 26) as u8).unwrap_or(false)).unwrap_or(false);
        if !ok {
            // a message out of place: one before it was lost, or two changed places
            c.violation("stream-threads:transaction-message-lost-or-out-of-order", &format!("{} transactions of {} messages each at once on one connection ({} worker threads): message {} of transaction {} is not the one the service produced at that place", reqs.len(), per, workers, next[i], i), c.replay_of(fam, idx, ex));
            return;
        }
        next[i] += 1;
    }
    if let Some(i) = next.iter().position(|n| *n != per) {
        c.violation("stream-threads:transaction-messages-missing", &format!("{} transactions of {} messages each at once on one connection ({} worker threads): transaction {} delivered {} messages", reqs.len(), per, workers, i, next[i]), c.replay_of(fam, idx, ex));
        return;
    }
    c.count("stream_threads_cases", 1);
    c.count("stream_threads_transaction_messages", frames.len() as u64);
    c.evals_n(frames.len() as u64);
    c.sig(&("stream-threads", nreq, per / 200, workers));
}

/// A service that says it is EDNS aware in every response, whatever the request looked like.
#[derive(Clone)]
struct OptSvc;

impl Service<Vec<u8>, ()> for OptSvc {
    type Target = Vec<u8>;
    type Stream = Iter<std::vec::IntoIter<ServiceResult<Vec<u8>>>>;
    type Future = Pin<Box<dyn Future<Output = Self::Stream> + Send>>;
    fn call(&self, req: Request<Vec<u8>, ()>) -> Self::Future {
        Box::pin(async move {
            let qname: Vec<u8> = match req.message().sole_question() {
                Ok(q) => q.qname().to_vec().as_slice().to_vec(),
                Err(_) => vec![0],
            };
            let (_, n) = plan_of(&qname);
            let item = build_response(&req, n.min(1500), 0).and_then(|cr| {
                let (resp, fb) = cr.into_inner();
                let mut resp = resp.ok_or(ServiceError::InternalError)?;
                resp.opt(|o| {
                    o.set_udp_payload_size(1232);
                    Ok(())
                })
                .map_err(|_| ServiceError::InternalError)?;
                let _ = fb;
                Ok(CallResult::new(resp))
            });
            futures_util::stream::iter(vec![item])
        })
    }
}

/// The mandatory middleware alone in front of a service that attaches an OPT record to every
/// response: a requester that sent no OPT record never gets more than 512 octets (RFC 1035 4.2.1),
/// whatever the response carries, and one that did never gets more than it advertised or the
/// server is configured for.
fn udp_bare_case(c: &mut Ctx, fam: &str, idx: u64) {
    let mut rng = c.case_rng(fam, idx);
    let configured = *rng.pick(&[Some(512u16), Some(1232), Some(1232), Some(4096), None]);
    let n = rng.range(1, 10);
    let mut reqs: Vec<(Req, SocketAddr)> = Vec::new();
    for k in 0..n {
        let addr: SocketAddr = format!("192.0.2.{}:{}", 1 + rng.below(200), 2048 + k).parse().unwrap();
        let edns = *rng.pick(&[None, None, None, Some(0u16), Some(512), Some(600), Some(1232), Some(4096)]);
        let per = 41 + 10 + (3 + format!("q{}", k).len() + 1 + 6);
        let target = *rng.pick(&[100usize, 480, 500, 512, 540, 700, 1200, 1232, 1260, 4000, 4200]);
        let label = format!("s{}", (target / per).max(1) + rng.below(2));
        reqs.push((mk_req(rng.u16(), &label, k, edns), addr));
    }
    let ex = json!({"stack": "MandatoryMiddlewareSvc(service that always attaches OPT)", "configured_max_response_size": configured, "requests": reqs.iter().map(|(r, a)| json!({"what": r.what, "addr": a.to_string(), "wire": hex(&r.wire)})).collect::<Vec<_>>()});
    let sock = Arc::new(MockUdp { inq: Mutex::new(VecDeque::new()), notify: tokio::sync::Notify::new(), sent: Mutex::new(vec![]), spurious: std::sync::atomic::AtomicU64::new(0), spurious_seen: std::sync::atomic::AtomicU64::new(0) });
    let rt = tokio::runtime::Builder::new_current_thread().enable_all().start_paused(true).build().unwrap();
    let sock2 = sock.clone();
    let reqs2 = reqs.clone();
    let _ = ctx::take_any_panic();
    let r = ctx::catch(|| {
        rt.block_on(async move {
            let mut cfg = dgram::Config::new();
            cfg.set_max_response_size(configured);
            let svc: MandatoryMiddlewareSvc<Vec<u8>, OptSvc, ()> = MandatoryMiddlewareSvc::new(OptSvc);
            let srv = Arc::new(DgramServer::with_config(ArcSock(sock2.clone()), VecBufSource, svc, cfg));
            let s2 = srv.clone();
            let h = tokio::spawn(async move { s2.run().await });
            for (r, a) in reqs2.iter() {
                sock2.inq.lock().unwrap().push_back((r.wire.clone(), *a));
                sock2.notify.notify_one();
            }
            tokio::time::sleep(Duration::from_secs(5)).await;
            let _ = srv.shutdown();
            let _ = tokio::time::timeout(Duration::from_secs(5), h).await;
        })
    });
    drop(rt);
    if let Err(pi) = r {
        c.violation(&format!("panic:{}", pi.site()), &format!("panic in the datagram server: {} at {}:{}", pi.msg, pi.file, pi.line), c.replay_of(fam, idx, ex));
        return;
    }
    if let Some(pi) = ctx::take_any_panic() {
        c.violation(&format!("panic:{}", pi.site()), &format!("a task of the datagram server panicked: {} at {}:{}", pi.msg, pi.file, pi.line), c.replay_of(fam, idx, ex));
        return;
    }
    let sent = sock.sent.lock().unwrap().clone();
    for (ri, (r, addr)) in reqs.iter().enumerate() {
        let mine: Vec<&Vec<u8>> = sent.iter().filter(|(_, a)| a == addr).map(|(m, _)| m).collect();
        let rp = |c: &Ctx, more: serde_json::Value| c.replay_of(fam, idx, json!({"ctx": ex, "request": ri, "more": more}));
        if mine.len() != 1 {
            c.violation(&format!("udp-bare-responses:{}-instead-of-1", mine.len()), &format!("request {} ({}) got {} responses", ri, r.what, mine.len()), rp(c, json!({})));
            return;
        }
        let m = mine[0];
        let Ok(pm) = w::parse_message(m) else {
            c.violation("udp-response-unparsable", &format!("the response to request {} ({}) cannot be parsed", ri, r.what), rp(c, json!({"response": hex(m)})));
            return;
        };
        if pm.id != r.id || pm.flags & 0x8000 == 0 || pm.questions.len() != 1 || w::lower(&pm.questions[0].name) != w::lower(&r.qname) {
            c.violation("udp-response-not-for-request", &format!("the response sent to the address of request {} does not carry its ID and question", ri), rp(c, json!({"response": hex(m)})));
            return;
        }
        let (_, nrec) = plan_of(&r.qname);
        let answers = pm.records.iter().filter(|x| x.section == 1).count();
        let tc = pm.flags & 0x0200 != 0;
        if answers < nrec.min(1500) && !tc {
            c.violation("udp-dropped-without-tc", &format!("the response carries {} of the {} records the service produced and TC is clear", answers, nrec), rp(c, json!({"response_len": m.len()})));
            return;
        }
        match r.edns {
            None => {
                if m.len() > 512 {
                    c.violation("udp-size:no-edns:response-carries-opt", &format!("a UDP response of {} octets (TC {}) to a request without an OPT record; the service attached an OPT record to its response and no EDNS middleware is in the chain", m.len(), tc), rp(c, json!({"response_len": m.len()})));
                    return;
                }
                c.count(if tc { "udp_bare_no_edns_truncated" } else { "udp_bare_no_edns_complete" }, 1);
            }
            Some(sz) => {
                let limit = udp_limit(r.edns, configured);
                if m.len() > limit {
                    c.violation("udp-size:edns:mandatory-middleware-alone", &format!("a UDP response of {} octets (TC {}) to a request advertising an EDNS size of {}; the limit is {} (configured maximum {:?}); no EDNS middleware is in the chain", m.len(), tc, sz, limit, configured), rp(c, json!({"response_len": m.len()})));
                    return;
                }
                c.count(if tc { "udp_bare_edns_truncated" } else { "udp_bare_edns_complete" }, 1);
            }
        }
        c.eval(&("udp-bare", r.edns, configured, tc, m.len() / 128));
    }
    c.count("udp_bare_cases", 1);
}

pub fn run(c: &mut Ctx) {
    c.families(5);
    // real threads: a handful of cases per run (all there is to the ThreadSanitizer stage)
    let fam = "stream-threads";
    let total = if c.mode == "tsan" { c.total(8, 64) } else { c.total(16, 400) };
    for idx in c.cases(fam, total) {
        if c.out_of_time() {
            break;
        }
        ctx::slot_write(idx, &format!("{}|case", fam), &[]);
        stream_threads_case(c, fam, idx);
    }
    if c.mode == "tsan" {
        return;
    }
    let fam = "stream-churn";
    let total = c.total(3_000, 100_000);
    for idx in c.cases(fam, total) {
        if c.out_of_time() {
            break;
        }
        ctx::slot_write(idx, &format!("{}|case", fam), &[]);
        churn_case(c, fam, idx);
    }
    let fam = "udp-bare";
    let total = c.total(4_000, 100_000);
    for idx in c.cases(fam, total) {
        if c.out_of_time() {
            break;
        }
        ctx::slot_write(idx, &format!("{}|case", fam), &[]);
        udp_bare_case(c, fam, idx);
    }
    let fam = "udp";
    let total = c.total(20_000, 600_000);
    for idx in c.cases(fam, total) {
        if c.out_of_time() {
            break;
        }
        ctx::slot_write(idx, &format!("{}|case", fam), &[]);
        udp_case(c, fam, idx);
    }
    let fam = "stream";
    let total = c.total(12_000, 400_000);
    for idx in c.cases(fam, total) {
        if c.out_of_time() {
            break;
        }
        ctx::slot_write(idx, &format!("{}|case", fam), &[]);
        stream_case(c, fam, idx);
    }
    if !c.replaying() {
        for k in ["udp_cases", "udp_complete_answers", "udp_truncated_answers", "udp_hostile_requests", "udp_service_failures_answered", "stream_cases", "stream_connections_checked", "stream_multi_responses", "stream_aborted_connections", "udp_bare_no_edns_truncated", "udp_bare_no_edns_complete", "stream_slow_readers_served", "stream_threads_cases", "udp_readiness_without_datagram", "churn_cases", "churn_connections:failed-handshake", "churn_connections:aborted", "churn_connections:idled-out"] {
            c.floor(k, 3);
        }
    }
}
